"""C03 — statements and variable scoping follow Jinja's scoping rules."""
from __future__ import annotations

from harness import core, exprcommon as X
from harness.core import Atom

A = Atom
ID = "C03"
LEAN_MODULES = ["JinjaV.Props.C03"]
LEVEL = "proof"
TRUSTED = [
    "Model/Stmt.lean is the REFERENCE semantics written from the documentation (scope stack, closures over the defining scopes, "
    "fresh scope per iteration/with/filter/block-set/macro/call, namespaces as the only mutable cells); it is not a transcription "
    "of compiler.py/idtracking.py — the implementation is compared with it end-to-end on every generated program",
    "expressions inside statements are evaluated by the M-Expr reference evaluator (tied by C02)",
    "recursive loops, loop.* attributes, varargs/kwargs, call blocks with arguments, imports/includes/blocks are outside this "
    "fragment (C04-C07)",
]
ASSUMPTIONS = ["autoescape is off in this fragment; the loopcontrols extension provides break/continue"]
CLAIM = dict(
    category="proof",
    technique="Lean 4 proofs about a reference interpreter for statements and scoping (assignments never leak out of a scope, outer "
              "scopes are never modified by inner statements, invariance under consistent renaming, generated-identifier injectivity) + "
              "differential rendering of generated statement trees against the interpreter and after consistent renaming",
    text="Theorems (Props/C03.lean), for every program, context, state and fuel of the reference interpreter: run_preserves_outer "
         "— executing any statement list changes at most the innermost scope, every enclosing scope (variables, macros, caller) "
         "is exactly what it was and no scope is added or removed; scoped_no_leak — a for loop (with filter and else), with, "
         "filter block, macro call, call block and caller() leave ALL scopes exactly as they were (nothing assigned inside is "
         "visible afterwards); inScope_frames / forLoop_frames / callMacroWith_frames (the same for any sub-interpreter); "
         "set_block_binds_only_name; if_shares_scope — the chosen branch runs directly in the current scope; "
         "render_alpha — renaming every identifier of a program and of the render context by the same injective map changes "
         "neither output nor error (simulation proof through every statement form; eval_alpha for expressions); "
         "lookup_innermost_first / lookup_falls_through; ident_injective_name — within a scope distinct names get distinct "
         "generated identifiers. Tie: random statement trees (size <= 28 quick / <= 60 thorough) over a pool of 4 variable "
         "names, 2 macros, 1 namespace so that shadowing, conditional assignment, read-before-write and closure capture are "
         "frequent, each rendered on 3 data assignments against the interpreter (output text or exception class), and "
         "re-rendered after consistent renaming to other ASCII, keyword-like and NFKC-stable Unicode identifiers.",
    note="Trusted: Lean kernel; reference interpreter by correspondence; alpha-invariance is a theorem about the interpreter and is "
         "checked on the implementation by re-rendering. Known findings: a nested scope reading a name that an ENCLOSING scope assigns later sees "
         "undefined instead of the context value; identifiers that differ only by NFKC normalisation alias.",
    design_ref="§5 C03",
)

VARS = ["a", "b", "c", "d"]
ITERS = ["xs", "ys"]


def cs(s):
    return [A("c"), [A("s"), s]]


def c(v):
    return [A("c"), v]


def n(x):
    return [A("n"), x]


class G:
    def __init__(self, rng, budget):
        self.r, self.budget = rng, budget

    def pick(self, xs):
        return self.r.choice(xs)

    def var(self):
        return self.pick(VARS)

    # expressions tolerant of undefined operands, so that most programs render ------------------------
    def val(self):
        r = self.r
        k = r.random()
        if k < 0.3:
            return c(r.randrange(0, 9))
        if k < 0.45:
            return cs(self.pick(["p", "q", "", "xy"]))
        if k < 0.7:
            return n(self.var())
        if k < 0.82:
            return [A("cat"), n(self.var()), cs("."), self.pick([n(self.var()), c(r.randrange(0, 5))])]
        if k < 0.92:
            return [A("bin"), "+", [A("filter"), n(self.var()), "default", c(0), c(True)] if r.random() < 0.8 else n(self.var()),
                    c(r.randrange(1, 4))]
        return [A("attr"), n("ns0"), self.pick(["v", "w"])]

    def cond(self):
        r = self.r
        k = r.random()
        v = n(self.var())
        if k < 0.3:
            return v
        if k < 0.5:
            return [A("test"), v, "defined"]
        if k < 0.65:
            return [A("cmp"), v, ["eq", c(r.randrange(0, 4))]]
        if k < 0.8:
            return [A("not"), v]
        if k < 0.9:
            return [A("cmp"), [A("filter"), v, "default", c(0), c(True)], [self.pick(["gt", "lt"]), c(r.randrange(0, 5))]]
        return c(self.pick([True, False]))

    def iterable(self):
        r = self.r
        k = r.random()
        if k < 0.45:
            return n(self.pick(ITERS))
        if k < 0.8:
            return [A("list")] + [c(r.randrange(0, 6)) for _ in range(r.randrange(0, 4))]
        if k < 0.9:
            return n(self.var())
        return cs(self.pick(["ab", ""]))

    def stmts(self, depth, in_loop=False, in_macro=None, n_max=4):
        out = []
        for _ in range(self.r.randrange(1, n_max + 1)):
            if self.budget <= 0:
                break
            out.append(self.stmt(depth, in_loop, in_macro))
        return out

    def stmt(self, depth, in_loop, in_macro):
        r = self.r
        self.budget -= 1
        k = r.random()
        leaf = depth <= 0
        if not leaf and r.random() < 0.05:
            # read-then-write of one name several scopes below the scope that binds it (or the context), the scopes in
            # between not touching it
            v = self.var()
            core_ = [[A("out"), n(v)], [A("set"), v, [A("cat"), n(v), cs("'")]], [A("out"), n(v)]]
            for _ in range(r.randrange(1, 4)):
                other = self.pick([x for x in VARS if x != v])
                kind = self.pick(["for", "with", "setblock", "filterblock", "if"])
                if kind == "for":
                    core_ = [[A("for"), other, [A("list"), c(1), c(2)], A("_"), core_, []]]
                elif kind == "with":
                    core_ = [[A("with"), [[other, c(r.randrange(0, 5))]], core_]]
                elif kind == "setblock":
                    core_ = [[A("setblock"), other, core_], [A("out"), n(other)]]
                elif kind == "filterblock":
                    core_ = [[A("filterblock"), "upper", core_]]
                else:
                    core_ = [[A("if"), [[c(True), core_]], []]]
            pre = [[A("set"), v, cs(self.pick(["o", "k"]))]] if r.random() < 0.6 else []
            return [A("if"), [[c(True), pre + core_ + [[A("out"), n(v)]]]], []]
        if not leaf and r.random() < 0.05:
            # a name bound by the construct itself (loop target, macro parameter, with variable) is re-assigned inside an
            # `if` nested in a branch (body / elif / else, at random) of another `if`, and read afterwards in the same scope
            v = self.var()

            def nest(levels):
                inner = [[A("set"), v, self.val()]]
                if levels == 0:
                    return inner
                sub = [[A("if"), [[[A("cmp"), n(v), ["eq", c(r.randrange(0, 4))]], nest(levels - 1)]], []]]
                other = [[A("out"), self.val()]] if r.random() < 0.5 else [[A("text"), "A"]]
                where = self.pick(["body", "elif", "else", "else"])
                cnd = [A("cmp"), n(v), ["eq", c(r.randrange(0, 3))]]
                if where == "body":
                    return [[A("if"), [[cnd, sub]], other if r.random() < 0.5 else []]]
                if where == "elif":
                    return [[A("if"), [[cnd, other], [self.cond(), sub]], []]]
                return [[A("if"), [[cnd, other]], sub]]
            body = nest(r.randrange(1, 3)) + [[A("out"), n(v)], [A("text"), ";"]]
            kind = self.pick(["for", "for", "macro", "with"])
            if kind == "for":
                return [A("for"), v, [A("list"), c(1), c(2), c(3)], A("_"), body, []]
            if kind == "with":
                return [A("with"), [[v, c(r.randrange(0, 4))]], body]
            wrap = [[A("macro"), "m0", [[v]], body]] + [[A("callmacro"), "m0", [c(i)]] for i in (1, 2, 3)] + [[A("out"), n(v)]]
            return [A("if"), [[c(True), wrap]], []]
        if not leaf and r.random() < 0.04:
            # a scope that binds nothing of its own (`{% with %}`, a loop/filter block/set block whose own names are others)
            # still confines the assignments made inside it
            v = self.var()
            other = self.pick([x for x in VARS if x != v])
            inner = [[A("set"), v, self.val()], [A("out"), n(v)]]
            kind = self.pick(["with0", "with0", "for", "filterblock", "setblock", "with-other"])
            if kind == "with0":
                scope = [[A("with"), [], inner]]
            elif kind == "for":
                scope = [[A("for"), other, [A("list"), c(1)], A("_"), inner, []]]
            elif kind == "filterblock":
                scope = [[A("filterblock"), "upper", inner]]
            elif kind == "setblock":
                scope = [[A("setblock"), other, inner], [A("out"), n(other)]]
            else:
                scope = [[A("with"), [[other, c(1)]], inner]]
            pre = [[A("set"), v, cs("outer")]] if r.random() < 0.5 else []
            return [A("if"), [[c(True), pre + scope + [[A("text"), "|"], [A("out"), n(v)]]]], []]
        if k < 0.22 or leaf and k < 0.5:
            return [A("out"), self.val()]
        if k < 0.27:
            return [A("text"), self.pick(["|", ";", " ", "T"])]
        if k < 0.45 or leaf:
            return [A("set"), self.var(), self.val()]
        if k < 0.57:
            branches = [[self.cond(), self.stmts(depth - 1, in_loop, in_macro, 3)] for _ in range(r.randrange(1, 3))]
            els = self.stmts(depth - 1, in_loop, in_macro, 2) if r.random() < 0.5 else []
            return [A("if"), branches, els]
        if k < 0.70:
            filt = self.cond() if r.random() < 0.25 else A("_")
            body = self.stmts(depth - 1, True, in_macro, 3)
            if r.random() < 0.2:
                body.insert(r.randrange(0, len(body) + 1), [A("if"), [[self.cond(), [[A(self.pick(["break", "continue"]))]]]], []])
            els = self.stmts(depth - 1, in_loop, in_macro, 2) if r.random() < 0.35 else []
            return [A("for"), self.var(), self.iterable(), filt, body, els]
        if k < 0.76:
            # `{% with %}` without bindings is still a scope of its own
            return [A("with"), [[self.var(), self.val()] for _ in range(r.randrange(0, 3))], self.stmts(depth - 1, False, in_macro, 3)]
        if k < 0.81:
            return [A("setblock"), self.var(), self.stmts(depth - 1, False, in_macro, 3)]
        if k < 0.85:
            return [A("filterblock"), self.pick(["upper", "lower"]), self.stmts(depth - 1, False, in_macro, 3)]
        if k < 0.91:
            which = self.pick(["m0", "m1"])
            params = []
            for p in r.sample(VARS, r.randrange(0, 3)):
                params.append([p, self.val()] if r.random() < 0.4 and params else [p])
            # defaults must follow non-defaults
            params.sort(key=lambda p: len(p))
            body = self.stmts(depth - 1, False, which, 3)
            if which == "m1" and r.random() < 0.8:
                body.insert(r.randrange(0, len(body) + 1), [A("caller")])
            return [A("macro"), which, params, body]
        if k < 0.95:
            args = [self.val() for _ in range(r.randrange(0, 3))]
            if r.random() < 0.5:
                return [A("callmacro"), "m0", args]
            return [A("callblock"), "m1", args, self.stmts(depth - 1, False, in_macro, 2)]
        if k < 0.975:
            return [A("nsnew"), "ns0", [[k2, self.val()] for k2 in r.sample(["v", "w"], r.randrange(0, 3))]]
        return [A("nsset"), "ns0", self.pick(["v", "w"]), self.val()]


def rename_tree(t, m):
    """consistent renaming of every variable / macro / namespace name"""
    if isinstance(t, list) and t and isinstance(t[0], Atom):
        h = t[0]
        if h == "n":
            return [h, m.get(t[1], t[1])]
        if h in ("set", "setblock"):
            return [h, m.get(t[1], t[1])] + [rename_tree(x, m) for x in t[2:]]
        if h == "for":
            return [h, m.get(t[1], t[1])] + [rename_tree(x, m) for x in t[2:]]
        if h == "with":
            return [h, [[m.get(b[0], b[0]), rename_tree(b[1], m)] for b in t[1]], rename_tree(t[2], m)]
        if h == "macro":
            return [h, m.get(t[1], t[1]), [[m.get(p[0], p[0])] + [rename_tree(x, m) for x in p[1:]] for p in t[2]], rename_tree(t[3], m)]
        if h in ("callmacro", "callblock"):
            return [h, m.get(t[1], t[1])] + [rename_tree(x, m) for x in t[2:]]
        if h == "nsnew":
            return [h, m.get(t[1], t[1]), [[b[0], rename_tree(b[1], m)] for b in t[2]]]
        if h == "nsset":
            return [h, m.get(t[1], t[1]), t[2], rename_tree(t[3], m)]
        if h in ("attr", "filter", "test"):
            return [h, rename_tree(t[1], m), t[2]] + [rename_tree(x, m) for x in t[3:]]
        if h in ("c", "text", "bin", "un"):
            return [h] + [rename_tree(x, m) if i > 0 and h in ("bin", "un") else x for i, x in enumerate(t[1:])]
        if h == "cmp":
            return [h, rename_tree(t[1], m)] + [[op, rename_tree(x, m)] for op, x in t[2:]]
        return [h] + [rename_tree(x, m) for x in t[1:]]
    if isinstance(t, list):
        return [rename_tree(x, m) for x in t]
    return t


RENAMINGS = [
    ("ascii", {"a": "b", "b": "a", "c": "zeta", "d": "_q1", "xs": "items", "ys": "xs", "m0": "render_row", "m1": "m0", "ns0": "state"}),
    ("keyword-like", {"a": "class", "b": "def", "c": "lambda", "d": "import", "xs": "global", "ys": "yield", "m0": "pass", "m1": "raise",
                      "ns0": "with_"}),
    ("unicode", {"a": "é", "b": "变量", "c": "ß", "d": "ñandú", "xs": "список", "ys": "λs", "m0": "macró", "m1": "μ", "ns0": "空间"}),
    # names that are distinct strings but equal after NFKC normalisation (Python compares identifiers in NFKC form), and
    # names whose NFKC form is one the engine gives a meaning to (kwargs, caller, loop) — distinct template names all the same
    ("compat-forms", {"a": "ﬁ", "b": "fi", "c": "ｋwargs", "d": "ℌ", "xs": "H", "ys": "ｌoop", "m0": "ﬂow", "m1": "flow", "ns0": "ｃaller"}),
]


def render_real(env, src, data):
    try:
        return ("ok", env.from_string(src).render(data))
    except Exception as e:  # noqa
        name = type(e).__name__
        return ("err", X.ERRMAP.get(name, "other:" + name))


def make_data(jinja2, rng):
    data = {}
    for v in VARS:
        k = rng.random()
        if k < 0.45:
            continue
        data[v] = rng.choice([0, 1, 2, 5, "s", "", "t"])
    data["xs"] = [rng.randrange(0, 5) for _ in range(rng.randrange(0, 4))]
    if rng.random() < 0.7:
        data["ys"] = [rng.randrange(0, 5) for _ in range(rng.randrange(0, 3))]
    return data


def size(t):
    if isinstance(t, list):
        return (1 if t and isinstance(t[0], Atom) and t[0] not in ("c", "n", "s") else 0) + sum(size(x) for x in t)
    return 0


def show_batch(programs):
    reps = core.driver_batch([[A("stmt-show"), p] for p in programs])
    out = []
    for r in reps:
        if r[0] != "ok":
            raise core.HarnessError(f"stmt-show failed: {r}")
        out.append(r[1])
    return out


def run(ctx, res):
    jinja2 = core.import_jinja()
    rng = ctx.rng("c03")
    env = jinja2.Environment(extensions=["jinja2.ext.loopcontrols"])
    nprog = ctx.pick(700, 6000)
    programs = []
    for _ in range(nprog):
        g = G(rng, rng.randrange(4, ctx.pick(28, 60)))
        programs.append(g.stmts(rng.randrange(1, ctx.pick(4, 5)), n_max=5))
    srcs = show_batch(programs)
    reqs, jobs = [], []
    for prog, src in zip(programs, srcs):
        for _ in range(3):
            data = make_data(jinja2, rng)
            vars_ = [[k, X.val_sx(jinja2, v)] for k, v in data.items()]
            reqs.append([A("stmt-run"), 400, vars_, prog])
            jobs.append((prog, src, data))
    reps = core.driver_batch(reqs)
    evaluations, oom, quirks, errs, kinds, distinct, mism_known = 0, 0, 0, {}, {}, set(), 0
    for (prog, src, data), rep in zip(jobs, reps):
        evaluations += 1
        if rep[0] == "err":
            want, quirk = ("err", str(rep[1])), bool(rep[2])
        elif rep[0] == "ok":
            want, quirk = ("ok", rep[1]), bool(rep[2])
        else:
            raise core.HarnessError(f"driver: {rep}")
        if want == ("err", "oom"):
            oom += 1
            continue
        got = render_real(env, src, data)
        distinct.add((src, tuple(sorted((k, repr(v)) for k, v in data.items()))))
        X.kinds(prog, kinds)
        if want[0] == "err":
            errs[want[1]] = errs.get(want[1], 0) + 1
        if quirk:
            quirks += 1
        if got != want:
            if quirk:
                mism_known += 1
                res.violate("C03:read-before-later-assignment-in-enclosing-scope",
                            f"{src!r} with {data!r} renders {got!r}; the scoping rules give {want!r}: a nested scope reads a name that an "
                            "enclosing scope assigns later, and sees undefined instead of the context value", {"src": src, "data": data})
            else:
                res.violate(f"C03:scoping:{first_kind(prog)}", f"{src!r} with {data!r} renders {got!r}; the scoping rules give {want!r}",
                            {"src": src, "data": {k: repr(v) for k, v in data.items()}, "program": core.sx(prog)})
    alpha = alpha_pass(ctx, res, jinja2, env, programs, srcs, rng)
    nfkc_probe(res, jinja2)
    res.coverage.update({
        "evaluations": evaluations + alpha["renders"], "distinct_nontrivial": len(distinct),
        "rule": (f"{nprog} random statement trees (up to {ctx.pick(28, 60)} statements, nesting <= {ctx.pick(4, 5)}) over 4 variable names, "
                 "2 macros, 1 namespace and 2 iterables, each rendered on 3 random data assignments (every name present or absent) "
                 "and compared with the Lean reference interpreter (text or exception class); non-trivial = inside the model's "
                 "domain; distinct = distinct (source, data); plus re-rendering after three consistent renamings"),
        "samples": [{"src": srcs[i]} for i in (0, len(srcs) // 2)],
        "out_of_model": oom, "error_kinds": errs, "node_kinds": kinds, "reads_past_later_assignment": quirks,
        "known_finding_mismatches": mism_known, "alpha": alpha,
    })
    if oom > 0.5 * evaluations:
        raise core.HarnessError(f"generator drifted: {oom}/{evaluations} outside the model")


def first_kind(prog):
    ks = X.kinds(prog, {})
    for k in ("macro", "callblock", "for", "with", "setblock", "filterblock", "nsset", "if", "set"):
        if k in ks:
            return k
    return "out"


def alpha_pass(ctx, res, jinja2, env, programs, srcs, rng):
    """consistent renaming never changes the output (ASCII, keyword-like, NFKC-stable Unicode identifiers)"""
    k = ctx.pick(250, 2000)
    renders, differ = 0, 0
    chosen = list(zip(programs, srcs))[:k]
    for label, mapping in RENAMINGS:
        renamed = [rename_tree(p, mapping) for p, _ in chosen]
        rsrcs = show_batch(renamed)
        for (prog, src), rsrc in zip(chosen, rsrcs):
            data = make_data(jinja2, rng)
            rdata = {mapping.get(k2, k2): v for k2, v in data.items()}
            a = render_real(env, src, data)
            b = render_real(env, rsrc, rdata)
            renders += 2
            if a != b:
                differ += 1
                res.violate(f"C03:alpha:{label}", f"{src!r} renders {a!r} but after renaming {mapping} {rsrc!r} renders {b!r}",
                            {"src": src, "renamed": rsrc, "data": {k2: repr(v) for k2, v in data.items()}, "renaming": mapping})
    return {"renders": renders, "differences": differ, "renamings": [r[0] for r in RENAMINGS]}


def nfkc_probe(res, jinja2):
    """distinct identifiers never alias, also when they differ only by NFKC normalisation (was known finding F2; fixed in /repo 92ecb58)"""
    env = jinja2.Environment()
    out = env.from_string("{% set ﬁ = 1 %}{% set fi = 2 %}{{ ﬁ }}|{{ fi }}").render()
    if out != "1|2":
        res.violate("C03:identifier-aliasing:nfkc", f"'{{% set ﬁ = 1 %}}{{% set fi = 2 %}}{{{{ ﬁ }}}}|{{{{ fi }}}}' renders {out!r} (expected '1|2'): "
                    "the generated Python identifiers l_0_ﬁ and l_0_fi are the same identifier after NFKC normalisation",
                    {"src": "{% set ﬁ = 1 %}{% set fi = 2 %}{{ ﬁ }}|{{ fi }}"})
    for src, data, want in [
        ("{% macro m(ﬁ, fi) %}{{ ﬁ }}{{ fi }}{% endmacro %}{{ m(1, 2) }}{{ m(fi=3, ﬁ=4) }}", {}, "1243"),
        ("{% macro m(ｋwargs) %}{{ ｋwargs }}{{ kwargs }}{% endmacro %}{{ m(1, z=2) }}", {}, "1{'z': 2}"),
        ("{% for ﬁ in [1, 2] %}{{ ﬁ }}{{ fi }}{% endfor %}", {"fi": "X"}, "1X2X"),
        ("{% block ﬁ %}A{% endblock %}|{% block fi %}B{% endblock %}", {}, "A|B"),
        ("{% set ns = namespace(ﬁ=1, fi=2) %}{{ ns.ﬁ }}{{ ns.fi }}", {}, "12"),
        ("{% with ℌ = 1, H = 2 %}{{ ℌ }}{{ H }}{% endwith %}", {}, "12"),
    ]:
        try:
            got = env.from_string(src).render(data)
        except Exception as e:  # noqa
            got = f"raised:{type(e).__name__}"
        if got != want:
            res.violate("C03:identifier-aliasing:nfkc", f"{src!r} renders {got!r} (expected {want!r}): two template names that are "
                        "different strings but equal in NFKC form share one generated Python identifier", {"src": src})
    out2 = env.from_string("{{ ﬁ }}|{{ fi }}").render({"ﬁ": 1, "fi": 2})
    if out2 != "1|2":
        res.violate("C03:identifier-aliasing:nfkc", f"context names ﬁ=1, fi=2 render {out2!r}", {"src": "{{ ﬁ }}|{{ fi }}"})


def replay(ctx, case):
    jinja2 = core.import_jinja()
    env = jinja2.Environment(extensions=["jinja2.ext.loopcontrols"])
    c2 = case["case"]
    try:
        return {"render": env.from_string(c2["src"]).render(c2.get("data", {}))}
    except Exception as e:  # noqa
        return {"error": repr(e)}
