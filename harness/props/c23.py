"""C23 — string and number filters: contracts proved on the model (Props/C23.lean), model tied to filters.py."""
from __future__ import annotations

import base64
import itertools
import json
import math
import os
import pickle
import re
import subprocess
import sys
import textwrap
from fractions import Fraction

from harness import core
from harness.core import Atom
from translate import convert_table as tr_conv
from translate import filter_workers as tr_workers

ID = "C23"
GEN = [tr_conv.gen, tr_workers.gen]
LEAN_MODULES = ["JinjaV.Props.C23"]
LEVEL = "proof"
TRUSTED = [
    "Model/FiltStr.lean is a hand transcription of do_truncate, do_indent (with Python's str.splitlines), do_center "
    "(str.center), do_trim (str.strip / str.isspace), do_replace (str.replace with count), do_wordcount on ASCII and the "
    "unit selection of do_filesizeformat, do_striptags on text without '&' (markupsafe 3.0's comment loop, tag loop and "
    "whitespace collapse) and do_format for positional arguments with %s / %d / %% (each argument's str() and %d rendering "
    "are parameters supplied by Python); tied to filters.py / markupsafe / Python's % by this correspondence run only",
    "translate/convert_table.py: READ part (the except clauses of do_int/do_float, fixed shape) and MEASURED part (which "
    "exception classes int(x[, base]), float(x), int(float(x)) raise on CPython for the sampled value classes); the "
    "convert_total theorem quantifies over the sampled rows, not over all Python values",
    "translate/filter_workers.py: which functions are reachable from the 18 FILTERS entries is decided by name references "
    "(module-level functions of filters.py, `from .utils import` names, transitively in utils.py); a memoising wrapper applied "
    "other than by decorator syntax is seen only by the history run",
    "wordwrap: textwrap.wrap is a parameter of the model; its contract (keeps the non-whitespace text in order; with "
    "break_long_words no line exceeds the width) is a hypothesis of the theorems, evaluated by the driver on textwrap's actual "
    "output for every generated case, never proved",
    "correspondence-only (no Lean theorem; compared with executable reference definitions / documented contracts in this "
    "file): title/capitalize/upper/lower (Unicode case mapping assumed), urlencode (UTF-8 "
    "percent-encoding reference; urllib quote assumed), round (float arithmetic assumed), entity unescaping in striptags "
    "(html.unescape assumed), format with keyword arguments or other printf directives (Python's % assumed), the mantissa digits of filesizeformat (float formatting assumed), wordcount on "
    "non-ASCII text (re's \\w assumed), the values returned by int/float when the conversion succeeds",
]
ASSUMPTIONS = [
    "text is a plain str without lone surrogates; Markup receivers are checked for string equality and type only",
    "filesizeformat: finite values and +inf/nan (int(-inf) raising OverflowError is not covered by the property)",
    "int/float totality is claimed for the value classes of the measured table (str, int, bool, None, float, huge int, "
    "Decimal, Fraction, complex, list, tuple, dict, set, range, plain objects); jinja Undefined and objects with "
    "user-defined __int__/__float__/__index__ are outside the claim",
]
CLAIM = dict(
    category="proof",
    technique="Lean 4 proofs of the documented contracts of truncate/indent/center/trim/replace/wordcount/filesizeformat "
              "unit selection/striptags/format(%s,%d,%%) on List Char models for all inputs + decide-proof over the except clauses read from "
              "do_int/do_float and a measured exception table + exhaustive small-string and random differential runs "
              "on the real filter functions and through rendered templates",
    text="Theorems (Props/C23.lean), for all strings and arguments. truncate: rejected iff length < len(end) or leeway < 0 "
         "(truncate_rejects); a text of at most length+leeway characters is returned unchanged (truncate_short); otherwise "
         "the result is p ++ end with p a prefix of s, its total length is <= length, with killwords p has exactly "
         "length-len(end) characters, without killwords p is that cut or the part of it before its last space, which "
         "is followed only by space-free text (truncate_long, truncate_length_bound, cutLastSpace_spec). indent: "
         "the result is the lines of s (Python splitlines of s+'\\n') joined by '\\n' where line 0 is prefixed iff "
         "first and line i>0 iff blank or the line is non-empty (indent_eq_spec); splitting an indented text again and "
         "deleting the inserted prefix gives back exactly the lines of s, for every break-free indentation "
         "(indent_roundtrip); lines never contain break characters (splitlines_no_break). center: length = "
         "max(width, len s), s is kept as an infix between runs of spaces whose lengths differ by at most 1 and sum "
         "to width - len s (center_spec). trim: the result is an infix of s, the removed ends consist of strip "
         "characters only, the result neither starts nor ends with one, and is a fixed point (trim_spec, trim_idem). "
         "replace (non-empty old): the occurrences-free pieces of s, joined by old, give s, joined by new give the "
         "result; at most count replacements; no piece before the last contains old, none at all for an unlimited count, "
         "and old starts nowhere earlier inside a piece followed by a replacement, i.e. leftmost non-overlapping "
         "(replace_spec, pieces_join_old, pieces_join_new, pieces_count, pieces_no_old, pieces_leftmost); empty old "
         "inserts new before every character and at the end, resp. into the first count gaps (replace_empty_unlimited, "
         "replace_empty_count). wordwrap, relative to textwrap's contract: if textwrap.wrap keeps each paragraph's "
         "non-whitespace text then so does the filter for a whitespace wrap string, and if no wrapped line exceeds the "
         "width then the result is its produced lines joined by the wrap string and none exceeds the width "
         "(wordwrap_keeps_text, wordwrap_fits). striptags (text without '&'): the result is the whitespace-collapse of a text t "
         "obtained from s by deletions only, in t no '<' is followed by a '>', the non-whitespace text of the result is a "
         "subsequence of that of s; one tag step deletes the leftmost '<' up to the first '>' after it; tag-free text is only "
         "collapsed; collapse keeps the words, leaves only single plain spaces between them, none at the ends, and is "
         "idempotent (striptags_spec, stripAll_fixpoint, stripAll_sublist, stripAll_tag_step, stripAll_tag_free, "
         "stripAll_no_tag_left, striptags_plain, splitWs_words, collapse_keeps_text, collapse_words, collapse_idem, "
         "collapse_shape). format (%s, %d, %%): the scanner equals parse-then-substitute; success implies the format "
         "parses and uses exactly as many arguments as directives; substitution is compositional over concatenation; "
         "literal text is copied, %% gives %, %s str(), %d the number form (format_eq_spec, format_ok_parses, "
         "fill_ok_length, fill_append, fill_pieces, format_literal). wordcount: additive "
         "over non-word separators, 1 on a non-empty word, 0 on separators only (wordcount_sep, wordcount_word, "
         "wordcount_nonword). filesizeformat: '1 Byte' iff the value is 1; 'n Bytes' iff below the base; otherwise "
         "prefix i with base^(i+1) <= value < base^(i+2) for i < 7 and value >= base^8 for the last prefix "
         "(sizeUnit_spec). int/float: over the except clauses READ from do_int/do_float and the MEASURED table of "
         "exceptions raised by int(x[,base]) / float(x) / int(float(x)) on 292 (value class, base) rows, every raised class "
         "is caught, so a value or the default is returned and nothing escapes (convert_total = ConvertTotal at full strength; "
         "no_memoised_worker: no function reachable from the 18 filters carries a decorator other than a call marker, read from "
         "filters.py/utils.py every run; "
         "escapingRows_nil, convert_default_on_failure, by decide on every run; finding F7 is repaired in /repo 15bb75e). Tie: first a history-independence run (1031 cases over all 18 filters with equal-valued arguments of "
         "different type interleaved, twice in a seeded order here and twice in the opposite order in a fresh interpreter, against "
         "model/definition: differing results are C23:<filter>:history-dependent); every string of length "
         "<= 4 (quick) / <= 5 (thorough) over {a, b, ' ', '\\n', '-', '<'} (indent: {a, ' ', '\\n', '\\r', U+2028}) x argument "
         "grids (truncate 168 combinations incl. rejected ones, indent 16, center 12, trim 6, replace 80) on the real "
         "filter functions and through rendered templates; random long Unicode strings; filesizeformat on boundary ints, "
         "floats, numeric strings; int/float on every table row plus random numeric spellings; wordwrap through the "
         "model with textwrap's real output as parameter, the textwrap hypotheses evaluated by the driver per case. striptags (strings "
         "of length <= 5/7 over {a,' ',<,>,-,!} plus random markup) and format (random formats with matching, missing, surplus "
         "and ill-typed arguments) against their models. title, capitalize, upper, lower, urlencode, round: correspondence with "
         "executable reference definitions and documented contracts only (no Lean theorem).",
    note="Trusted: Lean kernel; hand model Model/FiltStr.lean (tied by correspondence only); translator and the measured "
         "exception table (CPython facts for sampled value classes); textwrap's contract (hypothesis), Unicode case mapping, urllib quote, float "
         "rounding/formatting, html.unescape, number rendering of % are assumed; title/capitalize/upper/lower/urlencode/round are "
         "correspondence-only. Finding F7 (OverflowError from "
         "float('inf')|int, Decimal('Infinity')|int, (10**400)|float, huge Fraction|float) is fixed in /repo 15bb75e; the samples stay in the table.",
    design_ref="§5 C23",
)

ALPHA = ["a", "b", " ", "\n", "-", "<"]
ALPHA_INDENT = ["a", " ", "\n", "\r", "\u2028"]

TRUNC_LENS = [-1, 0, 1, 2, 3, 4, 6]
TRUNC_ENDS = ["", ".", "..."]
TRUNC_LEEWAYS = [-1, 0, 1, 3]
INDENTS = ["", " ", "  ", ">"]
CENTER_WIDTHS = [-1, 0, 1, 2, 3, 4, 5, 6, 7, 8, 9, 12]
TRIM_SETS = ["a", "ab ", "\n-", "<a", ""]
REPL_OLDS = ["", "a", "ab", "aa", " "]
REPL_NEWS = ["", "x", "aa", "ba"]
REPL_COUNTS = [-1, 0, 1, 2]


def strings_upto(alpha, n):
    return ["".join(t) for k in range(n + 1) for t in itertools.product(alpha, repeat=k)]


def canon(o):
    if isinstance(o, list):
        return [canon(x) for x in o]
    return str(o) if isinstance(o, Atom) else o


def exc_name(e):
    return "raised:" + type(e).__name__


# --------------------------------------------------------------------------------------------------------------
# the modelled filters: one grid request per string; the implementation is called in the same nesting order
# --------------------------------------------------------------------------------------------------------------

class Impl:
    """the real filters, directly (`do_x(...)`) and through a rendered template"""

    def __init__(self, jinja2):
        from jinja2 import filters as F
        self.F = F
        self.env = jinja2.Environment()
        self.ctx_eval = jinja2.nodes.EvalContext(self.env)
        self.t = {
            "truncate": self.env.from_string("{{ s|truncate(n, kw, e, lw) }}"),
            "truncate-default": self.env.from_string("{{ s|truncate(n) }}"),
            "indent": self.env.from_string("{{ s|indent(w, f, b) }}"),
            "center": self.env.from_string("{{ s|center(w) }}"),
            "trim": self.env.from_string("{{ s|trim(c) }}"),
            "replace": self.env.from_string("{{ s|replace(o, n, c) }}"),
            "wordcount": self.env.from_string("{{ s|wordcount }}"),
            "filesizeformat": self.env.from_string("{{ v|filesizeformat(b) }}"),
            # the converted value itself is not printed (str() of a huge int has its own digit limit)
            "int": self.env.from_string("{{ 'default' if (v|int(d, b)) == d else 'value' }}"),
            "float": self.env.from_string("{{ 'default' if (v|float(d)) == d else 'value' }}"),
        }

    def call(self, route, name, **kw):
        """returns the filter's result as a string (or 'assert' / 'raised:Class')"""
        F, env = self.F, self.env
        try:
            if route == "render":
                return self.t[name].render(**kw)
            if name == "truncate":
                return F.do_truncate(env, kw["s"], kw["n"], kw["kw"], kw["e"], kw["lw"])
            if name == "truncate-default":
                return F.do_truncate(env, kw["s"], kw["n"])
            if name == "indent":
                return F.do_indent(kw["s"], kw["w"], kw["f"], kw["b"])
            if name == "center":
                return F.do_center(kw["s"], kw["w"])
            if name == "trim":
                return F.do_trim(kw["s"], kw["c"])
            if name == "replace":
                return F.do_replace(self.ctx_eval, kw["s"], kw["o"], kw["n"], kw["c"])
            if name == "wordcount":
                return str(F.do_wordcount(kw["s"]))
            if name == "filesizeformat":
                return F.do_filesizeformat(kw["v"], kw["b"])
            raise KeyError(name)
        except AssertionError:
            return "assert"
        except Exception as e:  # noqa
            return exc_name(e)


def grid_cells(name):
    """the argument combinations of one grid request, in the nesting order of Wire/FiltStr.lean"""
    if name == "truncate":
        return [dict(n=n, kw=kw, e=e, lw=lw) for n in TRUNC_LENS for kw in (False, True) for e in TRUNC_ENDS for lw in TRUNC_LEEWAYS]
    if name == "indent":
        return [dict(w=w, f=f, b=b) for w in INDENTS for f in (False, True) for b in (False, True)]
    if name == "center":
        return [dict(w=w) for w in CENTER_WIDTHS]
    if name == "trim":
        return [dict(c=None)] + [dict(c=c) for c in TRIM_SETS]
    if name == "replace":
        return [dict(o=o, n=n, c=c) for o in REPL_OLDS for n in REPL_NEWS for c in REPL_COUNTS]
    if name == "wordcount":
        return [dict()]
    raise KeyError(name)


def grid_request(name, s):
    if name == "truncate":
        return [Atom("fs"), Atom("truncate-grid"), s, TRUNC_LENS, TRUNC_ENDS, TRUNC_LEEWAYS]
    if name == "indent":
        return [Atom("fs"), Atom("indent-grid"), s, INDENTS]
    if name == "center":
        return [Atom("fs"), Atom("center-grid"), s, CENTER_WIDTHS]
    if name == "trim":
        return [Atom("fs"), Atom("trim-grid"), s, TRIM_SETS]
    if name == "replace":
        return [Atom("fs"), Atom("replace-grid"), s, REPL_OLDS, REPL_NEWS, REPL_COUNTS]
    if name == "wordcount":
        return [Atom("fs"), Atom("wordcount"), s]
    raise KeyError(name)


def variant_args(name, cell, variant):
    """same call, other documented spelling of the arguments (width as int, count None)"""
    c = dict(cell)
    if name == "indent" and variant == 1 and set(c["w"]) <= {" "}:
        c["w"] = len(c["w"])
    if name == "replace" and variant == 1 and c["c"] == -1:
        c["c"] = None
    return c


def run_grids(ctx, res, impl, stats):
    """exhaustive small strings x argument grids, model vs direct call vs rendered template"""
    n_small = ctx.pick(4, 5)
    rng = ctx.rng("grids")
    longer = [] if ctx.quick else ["".join(rng.choice(ALPHA) for _ in range(rng.choice([6, 7, 8]))) for _ in range(6000)]
    plans = [
        ("truncate", strings_upto(ALPHA, n_small) + longer),
        ("indent", strings_upto(ALPHA_INDENT, ctx.pick(4, 6))),
        ("center", strings_upto(ALPHA[:3], ctx.pick(5, 7))),
        ("trim", strings_upto(ALPHA, ctx.pick(4, 6))),
        ("replace", strings_upto(ALPHA[:4], ctx.pick(5, 7))),
        ("wordcount", strings_upto(["a", "_", " ", "-", "1", "\n"], ctx.pick(5, 7))),
    ]
    for name, strs in plans:
        cells = grid_cells(name)
        replies = core.driver_batch([grid_request(name, s) for s in strs])
        for s, rep in zip(strs, replies):
            if rep[0] != "ok":
                raise core.HarnessError(f"driver declined {name} {s!r}: {rep}")
            want = canon(rep[1])
            if name == "wordcount":
                want = [str(want)]
            if len(want) != len(cells):
                raise core.HarnessError(f"grid size mismatch for {name}")
            for cell, w in zip(cells, want):
                for route in ("direct", "render"):
                    for variant in ((0, 1) if name in ("indent", "replace") else (0,)):
                        args = variant_args(name, cell, variant)
                        if variant == 1 and args == cell:
                            continue
                        got = impl.call(route, name, s=s, **args)
                        stats["evaluations"] += 1
                        if got != w:
                            res.violate(f"C23:{name}:{route}",
                                        f"{name} ({route}) on {s!r} with {args} gives {got!r}; the model (whose contract is proved) gives {w!r}",
                                        {"filter": name, "route": route, "s": s, "args": args, "model": w})
        stats["distinct"].update((name, s) for s in strs)
        stats["dist"][name] = {"strings": len(strs), "cells": len(cells), "max_len": max(map(len, strs))}
    return n_small


UNI_POOL = ["a", "B", "z", " ", " ", "\n", "\r\n", "\t", "-", "<", ">", "\u00e9", "\u00df", "\u0416", "\u4e2d", "\u00a0", "\u2003",
            "\u2028", "\u3000", "\u0085", "\x0c", "\x1f", "\U0001F600", "e\u0301", "_", "7", "\u0663", ".", "&"]


def rand_text(rng, maxlen):
    n = rng.randrange(0, maxlen)
    return "".join(rng.choice(UNI_POOL) for _ in range(n))


def run_random(ctx, res, impl, stats):
    """random long Unicode strings with wide argument ranges, one request per case"""
    rng = ctx.rng("random")
    reqs, jobs = [], []
    for _ in range(ctx.pick(1500, 15000)):
        s = rand_text(rng, rng.choice([8, 30, 120, 400]))
        which = rng.randrange(7)
        if which == 0:
            e = rng.choice(["...", "", "…", " [more]", "."])
            n = rng.choice([0, 1, 3, 5, 10, 20, 80, 255, len(s), max(0, len(s) - 3), len(s) + 2])
            kw = rng.random() < 0.5
            lw = rng.choice([0, 0, 1, 5, 10, 50])
            reqs.append([Atom("fs"), Atom("truncate"), s, n, kw, e, lw])
            jobs.append(("truncate", dict(s=s, n=n, kw=kw, e=e, lw=lw)))
        elif which == 1:
            n = rng.choice([3, 5, 10, 20, 80, 255, len(s), max(3, len(s) - 3)])
            # default arguments: killwords False, end '...', leeway from env.policies['truncate.leeway'] (5)
            reqs.append([Atom("fs"), Atom("truncate"), s, n, False, "...", 5])
            jobs.append(("truncate-default", dict(s=s, n=n)))
        elif which == 2:
            w = rng.choice(["    ", "\t", "> ", "", "é ", 0, 1, 4, 7])
            ind = w if isinstance(w, str) else " " * w
            f, b = rng.random() < 0.5, rng.random() < 0.5
            reqs.append([Atom("fs"), Atom("indent"), s, ind, f, b])
            jobs.append(("indent", dict(s=s, w=w, f=f, b=b)))
        elif which == 3:
            w = rng.choice([0, 5, 20, 80, len(s) + 1, len(s) + 2, len(s) + 7, len(s) + 8])
            reqs.append([Atom("fs"), Atom("center"), s, w])
            jobs.append(("center", dict(s=s, w=w)))
        elif which == 4:
            c = rng.choice([None, None, " ", "a \n", "é中", "  "])
            reqs.append([Atom("fs"), Atom("trim"), s, Atom("none") if c is None else c])
            jobs.append(("trim", dict(s=s, c=c)))
        elif which == 5:
            o = rng.choice(["a", " ", "  ", "é", "\n", "", "a ", "😀", s[1:3] if len(s) > 3 else "zz"])
            n = rng.choice(["", "-", "aa", o + o, "中"])
            c = rng.choice([None, -1, 0, 1, 2, 5])
            reqs.append([Atom("fs"), Atom("replace"), s, o, n, -1 if c is None else c])
            jobs.append(("replace", dict(s=s, o=o, n=n, c=c)))
        else:
            s = "".join(ch for ch in s if ord(ch) < 128)
            reqs.append([Atom("fs"), Atom("wordcount"), s])
            jobs.append(("wordcount", dict(s=s)))
    replies = core.driver_batch(reqs)
    kinds = {}
    for (name, args), rep in zip(jobs, replies):
        if rep[0] == "oom":
            stats["oom"] += 1
            continue
        want = "assert" if rep[0] == "err" else str(canon(rep[1])) if name == "wordcount" else canon(rep[1])
        kinds[name] = kinds.get(name, 0) + 1
        for route in ("direct", "render"):
            got = impl.call(route, name, **args)
            stats["evaluations"] += 1
            if got != want:
                res.violate(f"C23:{name}:{route}",
                            f"{name} ({route}) with {args} gives {got!r}; the model (whose contract is proved) gives {want!r}",
                            {"filter": name, "route": route, "args": args, "model": want})
        stats["distinct"].add((name, repr(sorted(args.items(), key=lambda kv: kv[0]))))
    stats["dist"]["random"] = kinds
    # Markup receivers keep the text result of the model and stay Markup
    from markupsafe import Markup
    for s in ["a\nb", "x\n\ny", "  pad  "]:
        for name, args, plain in (("indent", dict(w=2, f=True, b=False), None), ("truncate", dict(n=3, kw=True, e=".", lw=0), None)):
            m = impl.call("direct", name, s=Markup(s), **args)
            p = impl.call("direct", name, s=s, **args)
            stats["evaluations"] += 1
            if str(m) != p or not isinstance(m, Markup):
                res.violate(f"C23:{name}:markup", f"{name} on Markup({s!r}) gives {m!r}, on the plain text {p!r}", {"filter": name, "s": s, "args": args})


# --------------------------------------------------------------------------------------------------------------
# character classes of the model vs the running Python
# --------------------------------------------------------------------------------------------------------------

def run_charclass(ctx, res, stats):
    lim = 0x3100
    rep = core.driver_batch([[Atom("fs"), Atom("spaces"), lim]])[0]
    spaces, breaks = canon(rep[1])
    py_spaces = [n for n in range(lim) if chr(n).isspace()]
    py_breaks = [n for n in range(lim) if len(("a" + chr(n) + "b").splitlines()) == 2]
    # above the limit nothing is a space or a line break in CPython
    hi_spaces = [n for n in range(lim, 0x110000) if not (0xD800 <= n < 0xE000) and (chr(n).isspace() or len(("a" + chr(n) + "b").splitlines()) == 2)]
    stats["evaluations"] += 0x110000
    if spaces != py_spaces or hi_spaces:
        res.violate("C23:charclass:isspace", f"model whitespace set {spaces} differs from str.isspace {py_spaces} (+{hi_spaces[:5]})",
                    {"model": spaces, "python": py_spaces}, no_input=True)
    if breaks != py_breaks:
        res.violate("C23:charclass:splitlines", f"model line-break set {breaks} differs from str.splitlines {py_breaks}",
                    {"model": breaks, "python": py_breaks}, no_input=True)
    word = [n for n in range(128) if re.fullmatch(r"\w", chr(n))]
    want = [n for n in range(128) if chr(n).isalnum() or chr(n) == "_"]
    if word != want:
        res.violate("C23:charclass:word", "re \\w on ASCII is not [A-Za-z0-9_]", {}, no_input=True)


# --------------------------------------------------------------------------------------------------------------
# filesizeformat
# --------------------------------------------------------------------------------------------------------------

DEC = ["kB", "MB", "GB", "TB", "PB", "EB", "ZB", "YB"]
BIN = ["KiB", "MiB", "GiB", "TiB", "PiB", "EiB", "ZiB", "YiB"]


def size_values(ctx):
    rng = ctx.rng("filesize")
    vals = [0, 1, 2, -1, -5, 999, 1000, 1001, 1023, 1024, 1025, True, False, 1.0, 0.5, 1.5, 999.9, 999.99, 1000.0, 1023.9, "1", "1.0", "1e3",
            "  12 ", "1024", 10 ** 30, 10 ** 27, 2 ** 90, float("inf"), float("nan"), "inf", 1e300, -1e300, -0.0, 2 ** 53 + 1]
    for base in (1000, 1024):
        for k in range(1, 11):
            for d in (-2, -1, 0, 1, 2):
                vals.append(base ** k + d)
            vals.append(float(base ** k))
            vals.append(base ** k - 0.5)
            vals.append(base ** k * 999 // 1000)
            vals.append(int(base ** k * 999.95))
            vals.append(int(base ** k * 999.96))
    for _ in range(ctx.pick(600, 6000)):
        k = rng.choice([1, 2, 3, 5, 8, 10, 12, 15, 18, 21, 24, 27, 30])
        v = rng.randrange(0, 10 ** k)
        vals.append(rng.choice([v, v, -v, float(v), v + rng.random(), str(v), v / 7]))
    return vals


def run_filesize(ctx, res, impl, stats):
    vals = size_values(ctx)
    reqs, jobs = [], []
    for v in vals:
        for binary in (False, True):
            f = float(v)
            if math.isnan(f) or math.isinf(f):
                jobs.append((v, binary, None))
                continue
            fr = Fraction(f)
            reqs.append([Atom("fs"), Atom("filesize"), fr.numerator, fr.denominator, binary])
            jobs.append((v, binary, len(reqs) - 1))
    replies = core.driver_batch(reqs)
    dist = {}
    for v, binary, idx in jobs:
        base = 1024 if binary else 1000
        names = BIN if binary else DEC
        f = float(v)
        for route in ("direct", "render"):
            got = impl.call(route, "filesizeformat", v=v, b=binary)
            stats["evaluations"] += 1
            if idx is None:
                # +inf / nan: every comparison of the loop is False, the last prefix is used
                want_txt = f"{base * f / base ** 9:.1f} {names[7]}" if f > 0 or math.isnan(f) else None
                if want_txt is not None and got != want_txt:
                    res.violate("C23:filesizeformat:nonfinite", f"filesizeformat({v!r}, {binary}) gives {got!r}, expected {want_txt!r}", {"filter": "filesizeformat", "args": dict(v=repr(v), b=binary), "route": route})
                continue
            unit = canon(replies[idx][1])
            kind = unit[0]
            dist[kind + (str(unit[1]) if kind == "pref" else "")] = dist.get(kind + (str(unit[1]) if kind == "pref" else ""), 0) + 1
            ok, why = True, ""
            if kind == "byte1":
                ok = got == "1 Byte"
            elif kind == "bytes":
                ok = got == f"{unit[1]} Bytes"
            else:
                i = unit[1]
                m = re.fullmatch(r"(-?\d+\.\d) (\w+)", got)
                if not m or m.group(2) != names[i]:
                    ok = False
                else:
                    # mantissa: value / base^(i+1) to one decimal (float formatting assumed; exact rational reference)
                    exact = Fraction(f) / base ** (i + 1)
                    shown = Fraction(m.group(1))
                    if abs(shown - exact) > Fraction(1, 20) + exact / 10 ** 12:
                        ok, why = False, f" (mantissa {m.group(1)} vs exact {float(exact):.6f})"
            if not ok:
                res.violate(f"C23:filesizeformat:{route}",
                            f"filesizeformat({v!r}, binary={binary}) ({route}) gives {got!r}; unit selection of the model (contract proved): {unit}{why}",
                            {"filter": "filesizeformat", "route": route, "args": dict(v=v if isinstance(v, (int, str, bool)) else repr(v), b=binary), "model": unit})
        stats["distinct"].add(("filesize", repr(v), binary))
    stats["dist"]["filesize_units"] = dist


# --------------------------------------------------------------------------------------------------------------
# int / float
# --------------------------------------------------------------------------------------------------------------

FORMER_F7 = [("int", "float-inf", "0"), ("int", "float-neginf", "0"), ("int", "decimal-inf", "0"), ("float", "hugeint", "0.0"),
             ("float", "hugeint-neg", "0.0"), ("float", "hugeint-2pow1024", "0.0"), ("float", "int-below-2pow1024", "0.0"),
             ("float", "fraction-huge", "0.0")]
INT_SENT = -987654321
FLOAT_SENT = -98765.4321


def classify(f, sentinel):
    try:
        r = f()
    except BaseException as e:  # noqa
        return "raises:" + type(e).__name__
    if type(r) is type(sentinel) and r == sentinel:
        return "default"
    return "value"


def enc_conv(o):
    o = canon(o)
    return "raises:" + o[1] if isinstance(o, list) else o


def run_convert(ctx, res, impl, stats):
    F = impl.F
    samples = tr_conv.samples()
    keys = tr_conv.row_keys()
    table = canon(core.driver_batch([[Atom("fs"), Atom("convtable")]])[0][1])
    if [(r[0], r[1]) for r in table] != keys:
        raise core.HarnessError("Gen/ConvertTable.lean in the driver is not the table of this run")
    outcomes = {}
    for (name, base), row in zip(keys, table):
        kind, mk = samples[name]
        m_int, m_float = enc_conv(row[2]), enc_conv(row[3])
        checks = [
            ("int", "direct", m_int, lambda: F.do_int(mk(), INT_SENT, base), INT_SENT),
            ("float", "direct", m_float, lambda: F.do_float(mk(), FLOAT_SENT), FLOAT_SENT),
            ("int", "render", m_int, lambda: _render_num(impl, "int", mk(), INT_SENT, base), INT_SENT),
            ("float", "render", m_float, lambda: _render_num(impl, "float", mk(), FLOAT_SENT, base), FLOAT_SENT),
        ]
        for filt, route, model, thunk, sent in checks:
            got = classify(thunk, sent)
            stats["evaluations"] += 1
            outcomes[got.split(":")[0]] = outcomes.get(got.split(":")[0], 0) + 1
            if got.startswith("raises:"):
                # the property's oracle: int/float return the default instead of raising for these value classes
                res.violate(f"C23:{filt}:{got[7:]}:{name}",
                            f"{{{{ x|{filt} }}}} with x = {_short(mk())} ({kind}) raises {got[7:]} instead of returning the default"
                            + ("" if model == got else f" (model predicts {model})"),
                            {"filter": filt, "sample": name, "base": base, "route": route})
            elif got != model:
                res.violate("C23:convert:model-drift",
                            f"do_{filt} on sample {name} (base {base}, {route}) behaves as {got!r}, the decision model over the read "
                            f"handlers and the measured table predicts {model!r}",
                            {"filter": filt, "sample": name, "base": base, "route": route}, no_input=True)
        stats["distinct"].add(("conv", name, base))
    stats["dist"]["convert_outcomes"] = outcomes
    # counterexample finder of convert_total (driver): rows on which the decision model lets an exception out.  Every row was
    # replayed on the real code above (a reproducing one is a concrete violation `C23:<filter>:<class>:<sample>`); a predicted
    # escape that does not reproduce was reported as model-drift.
    escapes = canon(core.driver_batch([[Atom("fs"), Atom("conv-escapes")]])[0][1])
    stats["dist"]["model_predicted_escapes"] = [f"{f}:{n}:base{b}:{c}" for f, n, b, c in escapes]
    if escapes and not ctx.proof_broken:
        res.notes.append("convert_total proved although the finder reports escapes?")
    # the samples of the repaired finding F7, with the filters' own defaults, end to end
    for filt, name, want in FORMER_F7:
        kind, mk = samples[name]
        try:
            got = impl.env.from_string("{{ x|%s }}" % filt).render(x=mk())
        except Exception as e:  # noqa
            got = "raises:" + type(e).__name__
        stats["evaluations"] += 1
        if got.startswith("raises:"):
            res.violate(f"C23:{filt}:{got[7:]}:{name}", f"{{{{ x|{filt} }}}} with x = {_short(mk())} raises {got[7:]} instead of rendering the default {want!r}",
                        {"filter": filt, "sample": name, "base": 10, "route": "render"})
        elif got != want:
            res.violate(f"C23:{filt}:default:{name}", f"{{{{ x|{filt} }}}} with x = {_short(mk())} renders {got!r}, the documented default is {want!r}",
                        {"filter": filt, "sample": name, "base": 10, "route": "render"})
    # random numeric spellings against the documented definition (reference below catches everything: the filter is total)
    rng = ctx.rng("numstr")
    parts = ["", " ", "+", "-", "0", "1", "7", "42", "007", ".", ".5", "5.", "e", "E", "e3", "e-2", "e400", "_", "x", "0x", "0b1", "inf", "nan",
             "Infinity", "١٢", "１", ",", "\t", "\n", "1e", "f", "9" * 30, "0" * 5]
    n_cases, dist = 0, {}
    for _ in range(ctx.pick(3000, 40000)):
        s = "".join(rng.choice(parts) for _ in range(rng.randrange(1, 5)))
        base = rng.choice([10, 10, 10, 16, 2, 8, 0, 36])
        for filt, got_f, ref_f in (("int", lambda: F.do_int(s, INT_SENT, base), lambda: ref_int(s, INT_SENT, base)),
                                   ("float", lambda: F.do_float(s, FLOAT_SENT), lambda: ref_float(s, FLOAT_SENT))):
            try:
                got = got_f()
            except BaseException as e:  # noqa
                got = "raises:" + type(e).__name__
            want = ref_f()
            stats["evaluations"] += 1
            n_cases += 1
            k = "default" if want in (INT_SENT, FLOAT_SENT) else "value"
            dist[k] = dist.get(k, 0) + 1
            same = (got == want and type(got) is type(want)) or (isinstance(got, float) and isinstance(want, float) and math.isnan(got) and math.isnan(want))
            if not same:
                key = f"C23:{filt}:{got[7:]}:numeric-string" if isinstance(got, str) and got.startswith("raises:") else f"C23:{filt}:numeric-string"
                res.violate(key, f"{s!r}|{filt}" + (f"(base={base})" if filt == "int" else "") + f" gives {got!r}; documented conversion gives {want!r}",
                            {"filter": filt, "s": s, "base": base})
        stats["distinct"].add(("numstr", s, base))
    stats["dist"]["numeric_strings"] = dist


def _short(v):
    r = repr(v)
    return r if len(r) < 40 else r[:18] + "…" + r[-8:] + f" ({type(v).__name__})"


def _render_num(impl, filt, v, sent, base):
    out = impl.t[filt].render(v=v, d=sent, b=base)
    return sent if out == "default" else out


def ref_int(v, default, base=10):
    """documented: convert to an integer (strings in the given base; '42.23' gives 42); if that doesn't work, the default"""
    try:
        return int(v, base) if isinstance(v, str) else int(v)
    except Exception:  # noqa
        pass
    try:
        return math.trunc(float(v))
    except Exception:  # noqa
        return default


def ref_float(v, default):
    try:
        return float(v)
    except Exception:  # noqa
        return default


# --------------------------------------------------------------------------------------------------------------
# correspondence-only filters: executable reference definitions / documented contracts (no Lean theorem)
# --------------------------------------------------------------------------------------------------------------

TITLE_SEP = set("-({[<")


def ref_title(s):
    out, start = [], True
    for ch in s:
        sep = ch in TITLE_SEP or ch.isspace()
        if sep:
            out.append(ch)           # separators have no case
        elif start:
            out.append(ch.upper())
        else:
            out.append(ch.lower())
        start = sep
    return "".join(out)


UNRESERVED = set("ABCDEFGHIJKLMNOPQRSTUVWXYZabcdefghijklmnopqrstuvwxyz0123456789_.-~")


def ref_quote(s, for_qs):
    """documented: bytes are quoted as they are, a string as UTF-8, anything else through str()"""
    out = []
    for b in (s if isinstance(s, bytes) else str(s).encode("utf-8")):
        ch = chr(b)
        if ch in UNRESERVED or (ch == "/" and not for_qs):
            out.append(ch)
        elif ch == " " and for_qs:
            out.append("+")
        else:
            out.append("%%%02X" % b)
    return "".join(out)


def run_reference(ctx, res, jinja2, impl, stats):
    F, env = impl.F, impl.env
    rng = ctx.rng("reference")
    n = 0
    filt_counts = {}

    def check(name, got, want, case, what="reference definition"):
        nonlocal n
        n += 1
        stats["evaluations"] += 1
        filt_counts[name] = filt_counts.get(name, 0) + 1
        if got != want:
            res.violate(f"C23:{name}:reference", f"{name} on {case} gives {got!r}; {what} gives {want!r}", {"filter": name, "case": case})

    def attempt(f):
        try:
            return f()
        except Exception as e:  # noqa
            return exc_name(e)

    t_upper = env.from_string("{{ s|upper }}|{{ s|lower }}|{{ s|capitalize }}|{{ s|title }}")
    ascii_pool = ["a", "B", "c", "Z", " ", "-", "(", "[", "{", "<", "1", "_", "\n", "\t", ".", "'"]
    texts = strings_upto(["a", "B", " ", "-", "("], ctx.pick(4, 5))
    for _ in range(ctx.pick(800, 8000)):
        texts.append("".join(rng.choice(ascii_pool) for _ in range(rng.randrange(0, 30))))
    for _ in range(ctx.pick(400, 4000)):
        texts.append("".join(rng.choice(["a", "\u00c9", "\u00e9", "\u0436", "\u0416", " ", "-", "\u4e2d", "\u01c6", "1", "\u00a0", "\u00f6",
                                         "\u03a9", "\u00df", "\u0130", "\ufb01", "\u01c5", "\u1e9e"]) for _ in range(rng.randrange(0, 20))))
    for s in texts:
        check("upper", F.do_upper(s), s.upper(), repr(s))
        check("lower", F.do_lower(s), s.lower(), repr(s))
        check("capitalize", F.do_capitalize(s), s.capitalize(), repr(s))
        check("title", F.do_title(s), ref_title(s), repr(s), "documented definition (every word starts upper-case, the rest is lower-case)")
        check("case:render", t_upper.render(s=s), "|".join([s.upper(), s.lower(), s.capitalize(), ref_title(s)]), repr(s))
        if s.isascii() and s:
            c = F.do_capitalize(s)
            check("capitalize", (c[0], c[1:]), (s[0].upper(), s[1:].lower()), repr(s), "documented contract (first upper, others lower)")
        stats["distinct"].add(("case", s))

    # wordwrap: Lean model with textwrap.wrap as its parameter (the wrapper's actual output per paragraph is sent along);
    # the theorems' hypotheses about textwrap (keeps the text / fits the width) are evaluated by the driver on that output
    t_wrap = env.from_string("{{ s|wordwrap(w, blw, ws, boh) }}")
    wpool = ["a", "bb", "ccc", "dddddddd", "x-y", "long-hyphen-ated", " ", "\u00a0", "  ", "\n", "\n\n", "\r\n", "-", "e" * 25, "\u00e9",
             "\u4e2d\u4e2d", ".", "\t", "\u2028"]
    wcases, wreqs = [], []
    for _ in range(ctx.pick(1200, 12000)):
        s = "".join(rng.choice(wpool) for _ in range(rng.randrange(0, 25)))
        w = rng.choice([1, 2, 3, 5, 8, 13, 20, 40, 79])
        blw, boh = rng.random() < 0.6, rng.random() < 0.5
        ws = rng.choice([None, "\n", "|", "<br>\n"])
        sep = env.newline_sequence if ws is None else ws
        table = {}
        for line in s.splitlines():
            table[line] = textwrap.wrap(line, width=w, expand_tabs=False, replace_whitespace=False, break_long_words=blw, break_on_hyphens=boh)
        wcases.append((s, w, blw, boh, ws, sep))
        wreqs.append([Atom("fs"), Atom("wordwrap"), s, sep, w, [[k, v] for k, v in table.items()]])
    for (s, w, blw, boh, ws, sep), rep in zip(wcases, core.driver_batch(wreqs)):
        case = f"{s!r} width={w} break_long_words={blw} wrapstring={ws!r} break_on_hyphens={boh}"
        if rep[0] != "ok":
            res.violate("C23:wordwrap:model-splitlines", f"the model's paragraphs of {s!r} are not Python's splitlines", {"filter": "wordwrap", "case": case}, no_input=True)
            continue
        want, keeps, fits = canon(rep[1])
        got_d = attempt(lambda: F.do_wordwrap(env, s, w, blw, ws, boh))
        got_r = attempt(lambda: t_wrap.render(s=s, w=w, blw=blw, ws=ws, boh=boh))
        check("wordwrap", got_d, want, case, "the model (paragraphs wrapped separately, joined by the wrap string; textwrap is its parameter)")
        check("wordwrap", got_r, want, case + " (render)", "the model (paragraphs wrapped separately, joined by the wrap string; textwrap is its parameter)")
        check("wordwrap:keeps-text", keeps, True, case, "contract evaluated by the driver on textwrap's output: all non-whitespace text kept in order")
        if blw:
            check("wordwrap:fits-width", fits, True, case, "contract evaluated by the driver on textwrap's output: no line exceeds the width")
        elif isinstance(got_d, str) and sep not in s and "|" not in s:
            lines = got_d.split(sep) if got_d else []
            tw_space = "\t\n\x0b\x0c\r "       # textwrap breaks at ASCII whitespace only
            check("wordwrap", [ln for ln in lines if len(ln) > w and any(c in tw_space for c in ln.strip(tw_space))], [], case,
                  "contract: only a single unbreakable word may exceed the width")
        stats["distinct"].add(("wordwrap", s, w, blw, boh, ws))

    # urlencode -----------------------------------------------------------------------------------------------
    from markupsafe import Markup
    t_url = env.from_string("{{ v|urlencode }}")
    upool = ["a", "Z", "0", "/", " ", "?", "&", "=", "+", "%", "~", "-", "_", ".", "é", "中", "😀", "#", ":", "\n", "'", '"', "<"]
    for _ in range(ctx.pick(800, 8000)):
        s = "".join(rng.choice(upool) for _ in range(rng.randrange(0, 15)))
        check("urlencode", F.do_urlencode(s), ref_quote(s, False), repr(s), "UTF-8 percent-encoding with '/' safe")
        check("urlencode", t_url.render(v=s), ref_quote(s, False), repr(s) + " (render)", "UTF-8 percent-encoding with '/' safe")
        k2 = "".join(rng.choice(upool) for _ in range(rng.randrange(0, 6)))
        v2 = rng.choice([s, 7, 2.5, None, True])
        pairs = [(k2, v2), ("k", s)]
        want = "&".join(f"{ref_quote(k, True)}={ref_quote(v, True)}" for k, v in pairs)
        check("urlencode", F.do_urlencode(dict(pairs)) if k2 != "k" else want, want, repr(dict(pairs)), "query form: nothing safe, '+' for spaces")
        check("urlencode", F.do_urlencode(pairs), want, repr(pairs), "query form: nothing safe, '+' for spaces")
        check("urlencode", F.do_urlencode(iter(pairs)), want, repr(pairs) + " (iterator)", "query form: nothing safe, '+' for spaces")
        stats["distinct"].add(("urlencode", s, k2, repr(v2)))
    check("urlencode", F.do_urlencode(42), "42", "42")
    # argument kinds: unhashable keys / values, bytes, Markup, nested containers, inside mappings, pair lists, iterators
    kinds = [[1, 2], {"a": [1]}, {1, }, b"a b/c", b"", Markup("a&b c"), ("x", [1]), None, 2.5, True, "", "a/b c", [], (1,), [1], -0.0]
    for v in kinds:
        for k in ["ids", Markup("k y"), b"k/", 7] + ([v] if not isinstance(v, (list, dict, set)) or True else []):
            pairs = [(k, v), ("z", "1")]
            want = "&".join(f"{ref_quote(a, True)}={ref_quote(b, True)}" for a, b in pairs)
            what = "query form: str() of anything but str/bytes, UTF-8, nothing safe, '+' for spaces"
            check("urlencode", attempt(lambda: F.do_urlencode(pairs)), want, repr(pairs), what)
            check("urlencode", attempt(lambda: F.do_urlencode(tuple(pairs))), want, repr(tuple(pairs)), what)
            check("urlencode", attempt(lambda: F.do_urlencode(p for p in pairs)), want, repr(pairs) + " (generator)", what)
            check("urlencode", attempt(lambda: t_url.render(v=pairs)), want, repr(pairs) + " (render)", what)
            try:
                d = dict(pairs)
            except TypeError:
                continue
            check("urlencode", attempt(lambda: F.do_urlencode(d)), want, repr(d), what)
            check("urlencode", attempt(lambda: t_url.render(v=d)), want, repr(d) + " (render)", what)
            stats["distinct"].add(("urlencode-kind", repr(k), repr(v)))

    # round ---------------------------------------------------------------------------------------------------
    t_round = env.from_string("{{ v|round(p, m) }}")
    for _ in range(ctx.pick(1500, 15000)):
        v = rng.choice([rng.uniform(-1000, 1000), rng.randrange(-10 ** 6, 10 ** 6) / 100, rng.randrange(-500, 500) / 2,
                        rng.uniform(-1, 1) * 10 ** rng.randrange(-5, 12), 0.0, -0.0, 2.5, 3.5, -2.5, 42.55, 1e15 + 0.5])
        p = rng.choice([0, 0, 1, 2, 3, 5, -1, -2])
        m = rng.choice(["common", "ceil", "floor"])
        got = attempt(lambda: F.do_round(v, p, m))
        case = f"{v!r} precision={p} method={m}"
        if m == "common":
            want = round(v, p)
        else:
            want = getattr(math, m)(v * (10 ** p)) / (10 ** p)
        check("round", repr(got), repr(want), case, "builtin round / math.ceil / math.floor at the precision (float arithmetic assumed)")
        check("round", attempt(lambda: t_round.render(v=v, p=p, m=m)), str(want), case + " (render)")
        if isinstance(got, float) and math.isfinite(got):
            step = Fraction(10) ** (-p)
            fv, fg = Fraction(v), Fraction(got)
            slack = abs(fv) / 10 ** 12 + step / 10 ** 6
            if m == "ceil":
                ok = fv - slack <= fg < fv + step + slack
            elif m == "floor":
                ok = fv - step - slack < fg <= fv + slack
            else:
                ok = abs(fg - fv) <= step / 2 + slack
            scaled = fg / step
            near_int = abs(scaled - round(scaled)) <= Fraction(1, 10 ** 3) + abs(scaled) / 10 ** 12
            check("round", (ok, near_int), (True, True), case, "contract: a multiple of 10^-precision, at most one step away in the method's direction")
        stats["distinct"].add(("round", v, p, m))
    for bad in ("up", "", "COMMON", "round"):
        got = attempt(lambda: F.do_round(1.5, 0, bad))
        check("round", got, "raised:FilterArgumentError", f"method={bad!r}", "documented: method must be common, ceil or floor")

    # striptags: Lean model (comment loop, tag loop, whitespace collapse) on text without '&'; entity unescaping is Python's
    t_strip = env.from_string("{{ s|striptags }}")
    spool = ["a", "b", " ", "  ", "\n", "<", ">", "<b>", "</b>", "<!--", "-->", "-", "!", "<br/>", "<a href='x'>", "\t", "x y", "<!", "--", "\u00a0",
             "\u2028", "\u00e9"]
    stexts = strings_upto(["a", " ", "<", ">", "-", "!"], ctx.pick(5, 7))
    for _ in range(ctx.pick(1500, 15000)):
        stexts.append("".join(rng.choice(spool) for _ in range(rng.randrange(0, 14))))
    from markupsafe import Markup
    for s, rep in zip(stexts, core.driver_batch([[Atom("fs"), Atom("striptags"), s] for s in stexts])):
        if rep[0] != "ok":
            stats["oom"] += 1
            continue
        want = canon(rep[1])
        what = "the model (comments removed, then tags, whitespace collapsed; its contract is proved)"
        check("striptags", str(F.do_striptags(s)), want, repr(s), what)
        check("striptags", str(F.do_striptags(Markup(s))), want, f"Markup({s!r})", what)
        check("striptags", t_strip.render(s=s), want, repr(s) + " (render)", what)
        stats["distinct"].add(("striptags", s))
    check("striptags", str(F.do_striptags("<p>a &amp; b</p>  <i>c&lt;d</i>")), "a & b c<d", "entities", "entities are unescaped after stripping (html.unescape assumed)")

    # format: Lean model for positional arguments and %s / %d / %% (str() and %d rendering of each argument are sent along)
    t_fmt = env.from_string("{{ f|format(*a) }}")
    fpool = ["%s", "%d", "%%", "a", " ", ", ", "!", "x=", "%s%s", "-%d-", "%", "s", "d"]
    fcases, freqs = [], []
    for _ in range(ctx.pick(1500, 15000)):
        fmt = "".join(rng.choice(fpool) for _ in range(rng.randrange(0, 7)))
        ndir = len(re.findall(r"%[sd]", fmt.replace("%%", "")))
        nargs = max(0, ndir + rng.choice([0, 0, 0, 0, -1, 1]))
        args = [rng.choice([rng.randrange(-50, 50), True, "w", "", "\u00e9", 3, None, 2.5, "%s", -7.9, 10 ** 25]) for _ in range(nargs)]
        enc = []
        for v in args:
            try:
                d = "%d" % v
            except TypeError:
                d = Atom("none")
            enc.append([str(v), d])
        fcases.append((fmt, args))
        freqs.append([Atom("fs"), Atom("format"), fmt, enc])
    fdist = {}
    for (fmt, args), rep in zip(fcases, core.driver_batch(freqs)):
        if rep[0] == "oom":
            stats["oom"] += 1
            continue
        want = canon(rep[1]) if rep[0] == "ok" else "raised:" + str(rep[1])
        fdist["ok" if rep[0] == "ok" else str(rep[1])] = fdist.get("ok" if rep[0] == "ok" else str(rep[1]), 0) + 1
        what = "the model of printf-style %s/%d/%% substitution (its contract is proved)"
        check("format", attempt(lambda: F.do_format(fmt, *args)), want, f"{fmt!r} % {args!r}", what)
        check("format", attempt(lambda: t_fmt.render(f=fmt, a=args)), want, f"{fmt!r} % {args!r} (render)", what)
        stats["distinct"].add(("format", fmt, repr(args)))
    stats["dist"]["format_outcomes"] = fdist
    check("format", attempt(lambda: F.do_format("%(a)s-%(b)d", a="x", b=3)), "x-3", "keyword arguments", "Python's % with a mapping (not modelled)")
    check("format", attempt(lambda: F.do_format("%s", 1, a=2)), "raised:FilterArgumentError", "positional and keyword arguments together",
          "documented: can't handle positional and keyword arguments at the same time")

    # wordcount on non-ASCII text (re's \w assumed) -------------------------------------------------------------
    for _ in range(ctx.pick(300, 3000)):
        s = rand_text(rng, 40)
        words, inw = 0, False
        for ch in s:
            w = ch.isalnum() or ch == "_"
            if w and not inw:
                words += 1
            inw = w
        if any(unicodedata_category(ch) in ("Mn", "Mc", "No", "Nl") for ch in s):
            continue        # \w and str.isalnum differ on marks / other numbers; not part of the claim
        check("wordcount", F.do_wordcount(s), words, repr(s), "number of maximal runs of alphanumeric/underscore characters")
        stats["distinct"].add(("wordcount-u", s))
    stats["dist"]["reference_checks"] = filt_counts
    return n


def unicodedata_category(ch):
    import unicodedata
    return unicodedata.category(ch)



# --------------------------------------------------------------------------------------------------------------
# every filter is a function of its arguments only: the same cases in two orders (one of them in a fresh interpreter),
# each case twice, among equal-valued arguments of different type, against the model / definition
# --------------------------------------------------------------------------------------------------------------

def _twins():
    from markupsafe import Markup
    return [True, 1, 1.0, False, 0, 0.0, -0.0, "1", "1.0", "True", Markup("a"), "a", (1,), [1], None, "a b", Markup("a b"), "0", "-0.0"]


def history_cases():
    """(filter, args) pairs; args are plain picklable values"""
    from markupsafe import Markup
    T = _twins()
    cases = []
    for v in T:
        for f in ("upper", "lower", "capitalize", "title", "striptags", "wordcount"):
            cases.append((f, (v,)))
        cases.append(("trim", (v, None)))
        cases.append(("trim", (v, "1a")))
        cases.append(("center", (v, 7)))
        cases.append(("urlencode", (v,)))
    for v in ("a b c d e f", Markup("a b c d e f"), "a", Markup("a"), "x\ny", Markup("x\ny")):
        cases.append(("truncate", (v, 5, False, "...", 0)))
        cases.append(("truncate", (v, 5, True, ".", 0)))
        cases.append(("indent", (v, 2, True, False)))
        cases.append(("indent", (v, "  ", True, True)))
        cases.append(("wordwrap", (v, 3, True, None, True)))
    for sv in (1.0, True, "1.0", "a", Markup("a"), 1, "True", 0.0, -0.0, False):
        for old in (1, "1", True, "a", 0, 0.0, "0"):
            for new in ("x", 0, 0.0, False):
                cases.append(("replace", (sv, old, new, None)))
    nums = [True, 1, 1.0, False, 0, 0.0, -0.0, "1", "0", "1.0", 1000, 1000.0, "1000", 2.5, "2.5"]
    for a in nums:
        cases.append(("format", ("%s", (a,))))
        cases.append(("format", ("%d", (a,))))
        for b in (True, 1.0, 0, -0.0):
            cases.append(("format", ("%s|%s", (a, b))))
        for binary in (False, True, 0, 1):
            cases.append(("filesizeformat", (a, binary)))
        for d in (0, 0.0, False, 7):
            cases.append(("int", (a, d, 10)))
            cases.append(("float", (a, d)))
        if not isinstance(a, str):
            for prec in (0, 1, True, False):
                for m in ("common", "ceil", "floor"):
                    cases.append(("round", (a, prec, m)))
    vals = _twins() + [[1, 2], {"a": 1}, b"a b", b"/x", Markup("a&b"), (1, [2]), "a/b c", 2.5, [], ""]
    for v in vals:
        cases.append(("urlencode", ({"n": v},)))
        cases.append(("urlencode", ([("n", v)],)))
        cases.append(("urlencode", ([(v, "n")],)))
        cases.append(("urlencode", ((("k", v), (v, v)),)))
        try:
            cases.append(("urlencode", ({v: "x"},)))
        except TypeError:
            pass
    cases.append(("urlencode", ({"ids": [1, 2], "q": "a b", "n": {"x": [1]}},)))
    return cases


def history_eval(cases, order):
    """evaluate the cases in `order`, then once more in `order`; returns two lists of canonical results (by case index)"""
    jinja2 = core.import_jinja()
    from jinja2 import filters as F
    env = jinja2.Environment()
    ectx = jinja2.nodes.EvalContext(env)

    def one(filt, a):
        try:
            if filt in ("upper", "lower", "capitalize", "title", "striptags", "wordcount", "urlencode"):
                r = getattr(F, "do_" + filt)(*a)
            elif filt == "trim":
                r = F.do_trim(*a)
            elif filt == "center":
                r = F.do_center(*a)
            elif filt == "truncate":
                r = F.do_truncate(env, *a)
            elif filt == "indent":
                r = F.do_indent(*a)
            elif filt == "wordwrap":
                r = F.do_wordwrap(env, *a)
            elif filt == "replace":
                r = F.do_replace(ectx, *a)
            elif filt == "format":
                r = F.do_format(a[0], *a[1])
            elif filt == "filesizeformat":
                r = F.do_filesizeformat(*a)
            elif filt == "int":
                r = F.do_int(*a)
            elif filt == "float":
                r = F.do_float(*a)
            elif filt == "round":
                r = F.do_round(*a)
            else:
                raise KeyError(filt)
        except Exception as e:  # noqa
            return exc_name(e)
        return str(r) if isinstance(r, str) else repr(r)

    rounds = []
    for _ in range(2):
        out = [None] * len(cases)
        for i in order:
            out[i] = one(*cases[i])
        rounds.append(out)
    return rounds


def history_worker():
    """entry point of the fresh interpreter: cases and order on stdin (pickle, base64), results as JSON"""
    cases, order = pickle.loads(base64.b64decode(sys.stdin.buffer.read()))
    json.dump(history_eval(cases, order), sys.stdout)


def history_other_process(cases, order):
    code = ("import sys; sys.path.insert(0, %r); sys.dont_write_bytecode = True; "
            "from harness.props import c23; c23.history_worker()" % str(core.VERIF))
    p = subprocess.run([sys.executable, "-B", "-c", code], input=base64.b64encode(pickle.dumps((cases, order))),
                       capture_output=True, timeout=600, env=dict(os.environ))
    if p.returncode != 0:
        raise core.HarnessError("history worker failed: " + p.stderr.decode()[-1500:])
    return json.loads(p.stdout.decode())


def history_expected(cases):
    """what each case must give, as a function of its arguments only: the Lean model where there is one (on the text form
    of the receiver), the executable definitions of this file otherwise"""
    reqs, slots, want = [], [], [None] * len(cases)

    def ask(i, req, post=lambda x: x):
        reqs.append(req)
        slots.append((i, post))

    for i, (filt, a) in enumerate(cases):
        if filt == "upper":
            want[i] = str(a[0]).upper()
        elif filt == "lower":
            want[i] = str(a[0]).lower()
        elif filt == "capitalize":
            want[i] = str(a[0]).capitalize()
        elif filt == "title":
            want[i] = ref_title(str(a[0]))
        elif filt == "striptags":
            ask(i, [Atom("fs"), Atom("striptags"), str(a[0])])
        elif filt == "wordcount":
            ask(i, [Atom("fs"), Atom("wordcount"), str(a[0])], str)
        elif filt == "trim":
            ask(i, [Atom("fs"), Atom("trim"), str(a[0]), Atom("none") if a[1] is None else a[1]])
        elif filt == "center":
            ask(i, [Atom("fs"), Atom("center"), str(a[0]), a[1]])
        elif filt == "truncate":
            ask(i, [Atom("fs"), Atom("truncate"), str(a[0]), a[1], a[2], a[3], a[4]])
        elif filt == "indent":
            ask(i, [Atom("fs"), Atom("indent"), str(a[0]), a[1] if isinstance(a[1], str) else " " * a[1], a[2], a[3]])
        elif filt == "wordwrap":
            want[i] = "\n".join("\n".join(textwrap.wrap(line, width=a[1], expand_tabs=False, replace_whitespace=False,
                                                        break_long_words=a[2], break_on_hyphens=a[4])) for line in str(a[0]).splitlines())
        elif filt == "replace":
            ask(i, [Atom("fs"), Atom("replace"), str(a[0]), str(a[1]), str(a[2]), -1])
        elif filt == "format":
            enc = []
            for v in a[1]:
                try:
                    d = "%d" % v
                except TypeError:
                    d = Atom("none")
                enc.append([str(v), d])
            ask(i, [Atom("fs"), Atom("format"), a[0], enc])
        elif filt == "filesizeformat":
            fr = Fraction(float(a[0]))
            names = BIN if a[1] else DEC
            ask(i, [Atom("fs"), Atom("filesize"), fr.numerator, fr.denominator, bool(a[1])],
                lambda u, a=a, names=names: "1 Byte" if u[0] == "byte1" else f"{u[1]} Bytes" if u[0] == "bytes" else
                f"{(1024 if a[1] else 1000) * float(a[0]) / (1024 if a[1] else 1000) ** (u[1] + 2):.1f} {names[u[1]]}")
        elif filt == "int":
            want[i] = repr(ref_int(a[0], a[1], a[2]))
        elif filt == "float":
            want[i] = repr(ref_float(a[0], a[1]))
        elif filt == "round":
            v, prec, m = a
            want[i] = repr(round(v, prec) if m == "common" else getattr(math, m)(v * (10 ** prec)) / (10 ** prec))
        elif filt == "urlencode":
            v = a[0]
            if isinstance(v, str) or not hasattr(v, "__iter__"):
                want[i] = ref_quote(v, False)
            else:
                items = v.items() if isinstance(v, dict) else v
                try:            # an iterable whose items are not pairs cannot be unpacked (Python's own error)
                    want[i] = "&".join(f"{ref_quote(k, True)}={ref_quote(x, True)}" for k, x in items)
                except (TypeError, ValueError) as e:
                    want[i] = exc_name(e)
    for (i, post), rep in zip(slots, core.driver_batch(reqs)):
        if rep[0] == "ok":
            want[i] = post(canon(rep[1]))
        elif rep[0] == "err":
            want[i] = "raised:" + str(rep[1]) if str(rep[1]) != "AssertionError" else "raised:AssertionError"
        else:
            want[i] = None          # out of model: only order-independence is checked
    return want


def run_history(ctx, res, stats):
    cases = history_cases()
    rng = ctx.rng("history")
    order_a = list(range(len(cases)))
    rng.shuffle(order_a)
    order_b = list(reversed(order_a))
    a1, a2 = history_eval(cases, order_a)                 # this process: must come before any other use of the filters
    b1, b2 = history_other_process(cases, order_b)        # a fresh interpreter, opposite order
    want = history_expected(cases)
    per = {}
    for i, (filt, a) in enumerate(cases):
        got = [a1[i], a2[i], b1[i], b2[i]]
        stats["evaluations"] += 4
        per[filt] = per.get(filt, 0) + 1
        stats["distinct"].add(("history", filt, repr(a)))
        what_case = f"{filt}{_short_args(a)}"
        if len(set(got)) > 1:
            res.violate(f"C23:{filt}:history-dependent",
                        f"{what_case} is not a function of its arguments: {a1[i]!r} / {a2[i]!r} (first / second evaluation, this order) but "
                        f"{b1[i]!r} / {b2[i]!r} in a fresh interpreter with the cases in the opposite order; by its definition {want[i]!r}. "
                        "The case list interleaves equal-valued arguments of different type (True/1/1.0, 0/0.0/-0.0/False, Markup/str, tuple/list)",
                        {"history": True, "filter": filt, "index": i, "args": repr(a), "results": got, "expected": want[i]})
        elif want[i] is not None and got[0] != want[i]:
            res.violate(f"C23:{filt}:pure:definition",
                        f"{what_case} gives {got[0]!r} in every order; the model / definition (a function of the arguments) gives {want[i]!r}",
                        {"history": True, "filter": filt, "index": i, "args": repr(a), "results": got, "expected": want[i]})
    stats["dist"]["history_cases"] = per


def _short_args(a):
    r = repr(tuple(a))
    return r if len(r) < 160 else r[:150] + "…)"


# --------------------------------------------------------------------------------------------------------------

def run(ctx, res):
    jinja2 = core.import_jinja()
    impl = Impl(jinja2)
    stats = {"evaluations": 0, "distinct": set(), "dist": {}, "oom": 0}
    run_history(ctx, res, stats)       # first: nothing has called a filter yet in this process
    n_small = run_grids(ctx, res, impl, stats)
    run_random(ctx, res, impl, stats)
    run_charclass(ctx, res, stats)
    run_filesize(ctx, res, impl, stats)
    run_convert(ctx, res, impl, stats)
    nref = run_reference(ctx, res, jinja2, impl, stats)
    suspects = canon(core.driver_batch([[Atom("fs"), Atom("suspect-workers")]])[0][1])
    stats["dist"]["memoised_or_unknown_decorators_on_workers"] = [f"{m}.{n}: {d} (filters {f})" for m, n, d, f in suspects]
    res.coverage.update({
        "evaluations": stats["evaluations"],
        "distinct_nontrivial": len(stats["distinct"]),
        "rule": (f"modelled filters: every string of length <= {n_small} over {{a,b,' ','\\n','-','<'}} (indent: {{a,' ','\\n','\\r',U+2028}}; "
                 "longer for cheaper filters) x the full argument grid of each filter (a distinct case = filter x string; each is "
                 "evaluated for every grid cell, directly and rendered, and compared with the Lean model whose contracts are the "
                 "theorems); random Unicode texts up to 400 characters with wide arguments; the whitespace / line-break tables of the "
                 "model against str.isspace / str.splitlines for every code point; filesizeformat on ints around every power of the "
                 "base, floats, numeric strings (model: unit selection; mantissa against exact rationals); int/float on every row of "
                 "the measured table (direct and rendered) plus random numeric spellings against the documented conversion; "
                 "wordwrap against the model fed with textwrap's output; striptags and format(%s,%d,%%) against their Lean models; title/capitalize/upper/lower/urlencode/round against executable reference definitions "
                 "and documented contracts (correspondence only)"),
        "samples": [
            {"filter": "truncate", "request": core.sx(grid_request("truncate", "a b-a")), "cells": len(grid_cells("truncate"))},
            {"filter": "indent", "request": core.sx(grid_request("indent", "a\r\na\n")), "cells": len(grid_cells("indent"))},
            {"filter": "int", "sample": "float-inf", "template": "{{ v|int(d, b) }}"},
        ],
        "exhaustive_part": "small strings x grids (complete enumeration); conversion table rows (complete)",
        "out_of_model": stats["oom"],
        "distribution": stats["dist"],
        "reference_checks": nref,
        "partial": "wordwrap is proved relative to textwrap's contract only; title/capitalize/upper/lower, urlencode, round, striptags entities, format beyond %s/%d/%% and non-ASCII wordcount are "
                   "correspondence-only (Python stdlib behaviour assumed); convert_total is about the sampled value classes",
    })


def replay(ctx, case):
    """re-run one recorded case on the implementation"""
    jinja2 = core.import_jinja()
    impl = Impl(jinja2)
    c = case["case"]
    f = c.get("filter")
    if c.get("history"):
        cases = history_cases()
        order_a = list(range(len(cases)))
        core.rng_for(case.get("seed", ctx.seed), ID, "history").shuffle(order_a)
        a1, a2 = history_eval(cases, order_a)
        b1, b2 = history_other_process(cases, list(reversed(order_a)))
        i = c["index"]
        return {"case": {"filter": cases[i][0], "args": repr(cases[i][1])}, "this_order": [a1[i], a2[i]],
                "opposite_order_fresh_interpreter": [b1[i], b2[i]], "expected": history_expected(cases)[i],
                "how": f"all {len(cases)} history cases are evaluated in the recorded (seeded) order and in the opposite order"}
    if f in ("int", "float") and "sample" in c:
        kind, mk = tr_conv.samples()[c["sample"]]
        F = impl.F
        thunk = (lambda: F.do_int(mk(), INT_SENT, c.get("base", 10))) if f == "int" else (lambda: F.do_float(mk(), FLOAT_SENT))
        return {"case": c, "value": _short(mk()), "observed": classify(thunk, INT_SENT if f == "int" else FLOAT_SENT),
                "expected": "value or default (never an exception)"}
    if f in ("int", "float"):
        F = impl.F
        s = c["s"]
        try:
            got = F.do_int(s, INT_SENT, c.get("base", 10)) if f == "int" else F.do_float(s, FLOAT_SENT)
        except Exception as e:  # noqa
            got = exc_name(e)
        return {"case": c, "observed": repr(got), "expected": repr(ref_int(s, INT_SENT, c.get("base", 10)) if f == "int" else ref_float(s, FLOAT_SENT))}
    if f in impl.t and "args" in c:
        args = dict(c["args"])
        if "s" in c:
            args["s"] = c["s"]
        return {"case": c, "observed": impl.call(c.get("route", "direct"), f, **args), "expected": c.get("model")}
    return {"case": c, "note": "reference-definition case; see `what` for the input"}
