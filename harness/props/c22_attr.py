"""C22, attribute paths (used by harness/props/c22.py): every collection filter that takes `attribute` against the Lean model of
make_attrgetter / make_multi_attrgetter / _prepare_attribute_parts (Model/FiltColl.lean `attrget`, `mapAttr`, `groupbyAttr`, …).

The oracle is the Lean driver (request `attr`); Python only builds the values, calls the real code and canonicalises:
  * items: dicts, plain objects, dicts in objects / objects in dicts, lists (integer parts), strings (integer part = a character),
    scalars and None where a container is expected; the path has 1-3 parts, names and integers; on SOME items the first / a middle
    / the last part is missing;
  * default: absent, None, falsy (0, ''), truthy scalars, and containers that themselves have a part of the path;
  * undefined kind of the environment: Undefined, ChainableUndefined, StrictUndefined; sync and async environment.
Routes: `_prepare_attribute_parts` and `make_attrgetter(...)(item)` directly; `Environment.call_filter` for map, groupby, unique, sort
(also multi-attribute), min, max, sum, join, selectattr, rejectattr; templates for map / groupby / sum / join on JSON-able items.
Names are taken from a pool that avoids method names of dict/list/str (`items`, `keys`, `count`, … are found by getattr on the builtin
type: outside the model's domain).
"""
from __future__ import annotations

import asyncio
import inspect
import json

from harness import core
from harness.core import Atom

NAMES = ["a", "b", "c", "addr", "city", "rows"]
STRS = ["a", "B", "b", "A", "ab", "Ab", "zz", "ZZ", "10", "9"]
UMS = ["default", "chainable", "strict"]


class O:
    """a plain object: attributes only, not subscriptable"""

    def __init__(self, attrs):
        self.__dict__.update(attrs)


# ------------------------------------------------------------------------------------------------------------ value specs
def build(spec):
    t = spec[0]
    if t == "i":
        return spec[1]
    if t == "s":
        return spec[1]
    if t == "n":
        return None
    if t == "d":
        return {k: build(v) for k, v in spec[1]}
    if t == "o":
        return O({k: build(v) for k, v in spec[1]})
    if t == "l":
        return [build(v) for v in spec[1]]
    raise ValueError(spec)


def enc(spec):
    t = spec[0]
    if t in ("i", "s"):
        return [Atom(t), spec[1]]
    if t == "n":
        return [Atom("n")]
    if t in ("d", "o"):
        return [Atom(t)] + [[k, enc(v)] for k, v in spec[1]]
    if t == "l":
        return [Atom("l")] + [enc(v) for v in spec[1]]
    raise ValueError(spec)


def from_py(o, undefined_cls):
    if isinstance(o, undefined_cls):
        return "undef"
    if isinstance(o, bool):
        return ["?", "bool"]
    if isinstance(o, int):
        return ["i", o]
    if isinstance(o, str):
        return ["s", str(o)]
    if o is None:
        return ["n"]
    if isinstance(o, dict):
        return ["d", [[k, from_py(v, undefined_cls)] for k, v in o.items()]]
    if isinstance(o, O):
        return ["o", [[k, from_py(v, undefined_cls)] for k, v in o.__dict__.items()]]
    if isinstance(o, list):
        return ["l", [from_py(v, undefined_cls) for v in o]]
    return ["?", type(o).__name__]


def from_lean(x):
    """a Val / Res as parsed from the driver's reply -> the spec shape"""
    if not isinstance(x, list):
        return str(x)       # undef / err / none
    t = str(x[0])
    if t == "val":
        return from_lean(x[1])
    if t in ("i", "s"):
        return [t, x[1]]
    if t == "n":
        return ["n"]
    if t in ("d", "o"):
        return [t, [[kv[0], from_lean(kv[1])] for kv in x[1:]]]
    if t == "l":
        return ["l", [from_lean(v) for v in x[1:]]]
    raise ValueError(x)


def to_json_value(spec):
    """a spec without objects -> the Python value json.loads gives for its tojson rendering"""
    return build(spec)


def sort_spec(x):
    """dict items in key order (tojson sorts keys)"""
    if isinstance(x, list) and x and x[0] in ("d", "o") and len(x) == 2 and isinstance(x[1], list):
        return [x[0], sorted([[k, sort_spec(v)] for k, v in x[1]], key=lambda kv: kv[0])]
    if isinstance(x, list):
        return [sort_spec(v) for v in x]
    return x


def has_obj(spec):
    if spec[0] == "o":
        return True
    if spec[0] in ("d",):
        return any(has_obj(v) for _, v in spec[1])
    if spec[0] == "l":
        return any(has_obj(v) for v in spec[1])
    return False


# -------------------------------------------------------------------------------------------------------------- generator
def gen_path(rng):
    n = rng.choice([1, 1, 2, 2, 2, 3, 3])
    parts = []
    for j in range(n):
        if rng.random() < (0.12 if j == 0 else 0.3):
            parts.append(rng.choice(["0", "1", "2"]))
        else:
            parts.append(rng.choice(NAMES))
    return parts


def gen_leaf(rng, kind):
    if kind == "str":
        return ["s", rng.choice(STRS)]
    if kind == "int":
        return ["i", rng.randrange(-3, 9)]
    if kind == "mixed":
        return rng.choice([["s", rng.choice(STRS)], ["i", rng.randrange(0, 5)], ["n"]])
    return rng.choice([["d", [["k", ["i", 1]]]], ["l", [["i", 1], ["s", "x"]]], ["l", []], ["d", []], ["s", ""], ["i", 0]])


def filler(rng):
    return rng.choice([["i", rng.randrange(0, 4)], ["s", rng.choice(STRS)], ["n"], ["l", []], ["d", []]])


def gen_item(rng, parts, leaf_kind, missing, idx, root_kinds):
    """nested value providing parts[0..] down to a leaf; `missing` = the level whose part is absent (None: complete)"""
    def level(j):
        if j == len(parts):
            return gen_leaf(rng, leaf_kind)
        part = parts[j]
        gone = missing == j
        if gone and j > 0 and rng.random() < 0.35:      # a scalar / None where a container is expected
            return rng.choice([["i", 5], ["n"], ["s", ""], ["s", "xy"] if not part.isdigit() else ["i", 3]])
        if part.isdigit():
            k = int(part)
            if gone:
                n = rng.randrange(0, k + 1)
                xs = [filler(rng) for _ in range(n)]
                if rng.random() < 0.3:       # a dict / object where a list is expected
                    return [rng.choice("do"), [[rng.choice(NAMES), filler(rng)]]]
                return ["l", xs]
            if j == len(parts) - 1 and leaf_kind == "str" and rng.random() < 0.15:      # a string indexed by an integer
                s = "".join(rng.choice("abAB") for _ in range(k + 1 + rng.randrange(0, 2)))
                return ["s", s]
            xs = [filler(rng) for _ in range(k)] + [level(j + 1)] + [filler(rng) for _ in range(rng.randrange(0, 2))]
            return ["l", xs]
        kind = rng.choice(root_kinds if j == 0 else "do")
        if kind == "l":         # a list where a name is looked up: always missing
            if gone:
                return ["l", [filler(rng)]]
            kind = "d"
        kvs = []
        for nm in rng.sample(NAMES, rng.randrange(0, 3)):
            if nm != part:
                kvs.append([nm, filler(rng)])
        if not gone:
            kvs.insert(rng.randrange(0, len(kvs) + 1), [part, level(j + 1)])
        if j == 0:
            kvs = [kv for kv in kvs if kv[0] != "id"] + [["id", ["i", idx]]]
        return [kind, kvs]
    return level(0)


def gen_default(rng, parts, leaf_kind):
    r = rng.random()
    if r < 0.22:
        return "absent"
    if r < 0.30:
        return "None"
    if r < 0.75:
        if leaf_kind == "int":
            return rng.choice([["i", 0], ["i", 7], ["i", -1]])
        return rng.choice([["s", ""], ["s", "zz"], ["s", "M"], ["s", "b"]])
    if r < 0.85:
        return rng.choice([["i", 0], ["s", ""], ["i", 7], ["s", "zz"]])
    nm = rng.choice([p for p in parts if not p.isdigit()] or NAMES)
    return rng.choice([["d", [[nm, ["s", "X"]]]], ["l", [["s", "q"], ["s", "r"]]], ["o", [[nm, ["i", 4]]]], ["n"] if False else ["l", []]])


def gen_case(rng):
    parts = gen_path(rng)
    leaf_kind = rng.choice(["str", "str", "str", "int", "int", "mixed", "container"])
    root_kinds = rng.choice(["d", "d", "do", "do", "o", "dol"])
    n = rng.choice([0, 1, 2, 3, 3, 4, 5, 6])
    some_missing = rng.random() < 0.75
    items, miss = [], []
    for i in range(n):
        missing = None
        if some_missing and rng.random() < 0.45:
            missing = rng.randrange(0, len(parts))
        miss.append(missing)
        items.append(gen_item(rng, parts, leaf_kind, missing, i, root_kinds))
    attribute = ".".join(parts)
    if len(parts) == 1 and parts[0].isdigit() and rng.random() < 0.5:
        attribute = int(parts[0])
    return {"attribute": attribute, "leaf": leaf_kind, "items": items, "missing": miss, "default": gen_default(rng, parts, leaf_kind),
            "um": rng.choice(UMS), "cs": rng.random() < 0.5, "reverse": rng.random() < 0.4, "start": rng.randrange(-2, 4),
            "sep": rng.choice([",", "", "-"]), "post": rng.random() < 0.5,
            "attribute2": ".".join(gen_path(rng)) if rng.random() < 0.35 else None}


# ---------------------------------------------------------------------------------------------------------------- requests
def enc_attr(a):
    if a is None:
        return Atom("none")
    if isinstance(a, int):
        return [Atom("i"), a]
    return [Atom("s"), a]


def enc_default(d):
    return Atom("nodefault") if d in ("absent", "None") else enc(d)


FILTERS = ["map", "groupby", "unique", "sort", "min", "max", "sum", "join", "selectattr", "rejectattr"]
TAKES_DEFAULT = {"map", "groupby"}


def request(op, c):
    d = enc_default(c["default"]) if op in TAKES_DEFAULT or op == "get" else Atom("nodefault")
    a = c["attribute"]
    if op == "sort" and c["attribute2"] and isinstance(a, str):
        a = a + "," + c["attribute2"]
    head = [Atom("attr"), Atom(op), Atom(c["um"]), d, enc_attr(a), [enc(s) for s in c["items"]]]
    if op == "get":
        return head + [c["post"]]
    if op in ("groupby", "unique", "min", "max"):
        return head + [c["cs"]]
    if op == "sort":
        return head + [c["cs"], c["reverse"]]
    if op == "sum":
        return head + [c["start"]]
    if op == "join":
        return head + [c["sep"]]
    return head


def filter_call(op, c, dval):
    """-> (args, kwargs) for Environment.call_filter"""
    a = c["attribute"]
    if op == "map":
        kw = {"attribute": a}
        if c["default"] != "absent":
            kw["default"] = dval
        return [], kw
    if op == "groupby":
        kw = {"case_sensitive": c["cs"]}
        if c["default"] != "absent":
            kw["default"] = dval
        return [a], kw
    if op == "unique":
        return [], {"attribute": a, "case_sensitive": c["cs"]}
    if op == "sort":
        if c["attribute2"] and isinstance(a, str):
            a = a + "," + c["attribute2"]
        return [], {"attribute": a, "case_sensitive": c["cs"], "reverse": c["reverse"]}
    if op in ("min", "max"):
        return [], {"attribute": a, "case_sensitive": c["cs"]}
    if op == "sum":
        return [], {"attribute": a, "start": c["start"]}
    if op == "join":
        return [c["sep"]], {"attribute": a}
    return [a], {}


def want_of(op, rep):
    """the driver's reply -> the canonical expected outcome, or None when outside the model"""
    tag = str(rep[0])
    if tag == "oom":
        return None
    if tag == "err":
        return "raised"
    if tag != "ok":
        raise core.HarnessError(f"driver reply {rep!r}")
    v = rep[1]
    if op in ("get", "map"):
        return [from_lean(x) for x in v]
    if op == "groupby":
        return [[from_lean(g[0]), list(g[1])] for g in v]
    if op in ("min", "max"):
        return "none" if isinstance(v, Atom) else v
    if op == "parts":
        return [[[str(p[0]), p[1]] for p in col] for col in v]
    return v        # index lists, int, str


async def _adrain(r):
    if inspect.isawaitable(r):
        r = await r
    if hasattr(r, "__anext__"):
        return [x async for x in r]
    if hasattr(r, "__next__"):
        return list(r)
    return r


def observe(jinja2, env, tctx, op, c):
    objs = [build(s) for s in c["items"]]
    pos = {id(o): i for i, o in enumerate(objs)}
    U = jinja2.Undefined
    dval = None if c["default"] in ("absent", "None") else build(c["default"])
    args, kwargs = filter_call(op, c, dval)
    try:
        r = env.call_filter(op, objs, args, kwargs, context=tctx)
        r = asyncio.run(_adrain(r)) if env.is_async else (list(r) if hasattr(r, "__next__") else r)
        if op == "map":
            return [from_py(x, U) for x in r]
        if op == "groupby":
            return [[from_py(g[0], U), [pos.get(id(x), -1) for x in g[1]]] for g in r]
        if op in ("unique", "sort", "selectattr", "rejectattr"):
            return [pos.get(id(x), -1) for x in r]
        if op in ("min", "max"):
            return "none" if isinstance(r, U) else pos.get(id(r), -1)
        if op == "join":
            return str(r)
        return r if isinstance(r, int) and not isinstance(r, bool) else ["?", type(r).__name__]
    except jinja2.UndefinedError:
        return "raised"
    except Exception as e:  # noqa
        return f"exception:{type(e).__name__}"


def observe_get(jinja2, env, c):
    from jinja2 import filters as F
    U = jinja2.Undefined
    dval = None if c["default"] in ("absent", "None") else build(c["default"])
    out = []
    for s in c["items"]:
        getter = F.make_attrgetter(env, c["attribute"], postprocess=F.ignore_case if c["post"] else None, default=dval)
        try:
            out.append(from_py(getter(build(s)), U))
        except jinja2.UndefinedError:
            out.append("err")
        except Exception as e:  # noqa
            out.append(f"exception:{type(e).__name__}")
    return out


def observe_parts(jinja2, attribute):
    from jinja2 import filters as F
    cols = attribute.split(",") if isinstance(attribute, str) else [attribute]
    return [[["idx", p] if isinstance(p, int) else ["name", p] for p in F._prepare_attribute_parts(col)] for col in cols]


TEMPLATES = {
    "map": "{%% for v in xs|map(attribute=a%s) %%}{{ 'U' if v is undefined else v|tojson }}|{%% endfor %%}",
    "groupby": "{%% for g, vs in xs|groupby(a%s, case_sensitive=cs) %%}{{ 'U' if g is undefined else g|tojson }}:{{ vs|map(attribute='id')|join(',') }}|{%% endfor %%}",
    "sum": "{{ xs|sum(attribute=a, start=st) }}",
    "join": "{{ xs|join(sep, attribute=a) }}",
}


def observe_template(jinja2, tpls, env, op, c):
    dflt = "" if c["default"] == "absent" or op not in TAKES_DEFAULT else ", default=d"
    src = TEMPLATES[op] % dflt if "%s" in TEMPLATES[op] else TEMPLATES[op]
    data = {"xs": [build(s) for s in c["items"]], "a": c["attribute"], "cs": c["cs"], "st": c["start"], "sep": c["sep"],
            "d": None if c["default"] in ("absent", "None") else build(c["default"])}
    key = (id(env), src)
    try:
        t = tpls.get(key)
        if t is None:
            t = tpls[key] = env.from_string(src)
        out = asyncio.run(t.render_async(**data)) if env.is_async else t.render(**data)
    except jinja2.UndefinedError:
        return src, "raised"
    except Exception as e:  # noqa
        return src, f"exception:{type(e).__name__}"
    try:
        if op == "map":
            return src, [("undef" if p == "U" else from_py(json.loads(p), jinja2.Undefined)) for p in out.split("|")[:-1]]
        if op == "groupby":
            res = []
            for p in out.split("|")[:-1]:
                g, _, ids = p.rpartition(":")
                res.append(["undef" if g == "U" else from_py(json.loads(g), jinja2.Undefined), [int(i) for i in ids.split(",") if i]])
            return src, res
        if op == "sum":
            return src, int(out)
        return src, out
    except Exception as e:  # noqa
        return src, f"unparsed:{out!r}:{type(e).__name__}"


def json_roots(c):
    """template route: JSON-able items whose `id` is their index (dict roots, no objects)"""
    return all(s[0] == "d" and not has_obj(s) and ["id", ["i", i]] in s[1] for i, s in enumerate(c["items"])) and (c["default"] in ("absent", "None") or not has_obj(c["default"]))


def make_envs(jinja2):
    cls = {"default": jinja2.Undefined, "chainable": jinja2.ChainableUndefined, "strict": jinja2.StrictUndefined}
    envs = {}
    for um, u in cls.items():
        for mode in ("sync", "async"):
            e = jinja2.Environment(undefined=u, enable_async=(mode == "async"))
            envs[(um, mode)] = (e, e.from_string("").new_context())
    return envs


# --------------------------------------------------------------------------------------------------------------------- run
def run_attr(ctx, res, jinja2):
    rng = ctx.rng("attr")
    envs = make_envs(jinja2)
    boost = 3 if any("AttrGetter" in g for g in ctx.gen_changed) or ctx.proof_broken else 1
    n_cases = ctx.pick(500, 4000) * boost
    cases = [gen_case(rng) for _ in range(n_cases)]
    reqs, slots = [], []
    for ci, c in enumerate(cases):
        a = c["attribute"]
        multi = (a + "," + c["attribute2"]) if (c["attribute2"] and isinstance(a, str)) else a
        reqs.append([Atom("attr"), Atom("parts"), enc_attr(multi)])
        slots.append((ci, "parts"))
        for op in ["get"] + FILTERS:
            reqs.append(request(op, c))
            slots.append((ci, op))
    replies = core.driver_batch(reqs)
    stats = {"cases": n_cases, "evaluations": 0, "oom": 0, "expected_raise": 0, "by_op": {}, "missing_levels": {}, "defaults": {},
             "um": {}, "path_lengths": {}, "default_used": 0, "templates": 0, "samples": []}
    distinct = set()
    reported = set()
    tpls = {}

    def violate(key, what, case):
        if key not in reported:
            reported.add(key)
            res.violate(key, what, case)

    for (ci, op), rep in zip(slots, replies):
        c = cases[ci]
        if str(rep[0]) == "bad-request":
            raise core.HarnessError(f"driver rejected {core.sx(reqs[0])[:200]}")
        want = want_of(op, rep)
        if op == "parts":
            a = c["attribute"]
            multi = (a + "," + c["attribute2"]) if (c["attribute2"] and isinstance(a, str)) else a
            got = observe_parts(jinja2, multi)
            stats["evaluations"] += 1
            if got != want:
                violate("C22:attr:parts", f"_prepare_attribute_parts per column of {multi!r} gives {got}; model {want}",
                        {"mode": "attr", "op": "parts", "case": c, "observed": got, "expected": want})
            stats["path_lengths"][len(want[0])] = stats["path_lengths"].get(len(want[0]), 0) + 1
            stats["um"][c["um"]] = stats["um"].get(c["um"], 0) + 1
            for m in c["missing"]:
                lab = "complete" if m is None else "only" if len(want[0]) == 1 else "first" if m == 0 else "last" if m == len(want[0]) - 1 else "middle"
                stats["missing_levels"][lab] = stats["missing_levels"].get(lab, 0) + 1
            dk = c["default"] if isinstance(c["default"], str) else c["default"][0] + ("-falsy" if c["default"] in (["i", 0], ["s", ""], ["l", []]) else "")
            stats["defaults"][dk] = stats["defaults"].get(dk, 0) + 1
            continue
        if want is None:
            stats["oom"] += 1
            continue
        if want == "raised":
            stats["expected_raise"] += 1
        stats["by_op"][op] = stats["by_op"].get(op, 0) + 1
        if op == "get":
            if c["default"] not in ("absent", "None") and c["default"] in want:
                stats["default_used"] += 1
            for mode in ("sync",):
                e, _ = envs[(c["um"], mode)]
                got = observe_get(jinja2, e, c)
                stats["evaluations"] += 1
                distinct.add(("get", json.dumps(c, sort_keys=True)))
                if got != want:
                    bad = next((i for i, (g, w) in enumerate(zip(got, want)) if g != w), 0)
                    violate(f"C22:attr:get:{c['um']}", f"make_attrgetter(env[{c['um']}], {c['attribute']!r}, postprocess={'ignore_case' if c['post'] else None}, "
                            f"default={c['default']}) on item {json.dumps(c['items'][bad]) if c['items'] else None} gives {got[bad] if got else got}; "
                            f"model {want[bad] if want else want}",
                            {"mode": "attr", "op": "get", "case": c, "observed": got, "expected": want})
            continue
        for mode in ("sync", "async"):
            e, tctx = envs[(c["um"], mode)]
            got = observe(jinja2, e, tctx, op, c)
            stats["evaluations"] += 1
            distinct.add((op, mode, json.dumps(c, sort_keys=True)))
            if got != want:
                violate(f"C22:attr:{op}:{c['um']}:{mode}", f"{mode} env[{c['um']}] {op} with attribute={c['attribute']!r}"
                        + (f",{c['attribute2']}" if op == "sort" and c["attribute2"] else "")
                        + (f" default={c['default']}" if op in TAKES_DEFAULT else "") + f" on {json.dumps(c['items'])} gives "
                        f"{json.dumps(got)}; model {json.dumps(want)}",
                        {"mode": "attr", "op": op, "env": mode, "case": c, "observed": got, "expected": want})
            if op in TEMPLATES and json_roots(c):
                src, tgot = observe_template(jinja2, tpls, e, op, c)
                stats["templates"] += 1
                stats["evaluations"] += 1
                if sort_spec(tgot) != sort_spec(want):
                    violate(f"C22:attr:tpl:{op}:{c['um']}:{mode}", f"{mode} env[{c['um']}] {src!r} with a={c['attribute']!r} d={c['default']} "
                            f"xs={json.dumps(c['items'])} gives {json.dumps(tgot)}; model {json.dumps(want)}",
                            {"mode": "attr", "op": op, "env": mode, "template": True, "src": src, "case": c, "observed": tgot, "expected": want})
        if len(stats["samples"]) < 5 and op == "groupby" and c["items"]:
            stats["samples"].append({"attribute": c["attribute"], "default": c["default"], "um": c["um"], "items": c["items"][:2]})
    stats["distinct"] = len(distinct)
    stats["oom_rate"] = round(stats["oom"] / max(1, len(replies)), 3)
    return stats


def replay_attr(jinja2, rec):
    c, op = rec["case"], rec["op"]
    if op == "parts":
        a = c["attribute"]
        return {"observed": observe_parts(jinja2, (a + "," + c["attribute2"]) if (c["attribute2"] and isinstance(a, str)) else a)}
    envs = make_envs(jinja2)
    rep = core.driver_batch([request(op, c)])[0]
    want = want_of(op, rep)
    if op == "get":
        return {"observed": observe_get(jinja2, envs[(c["um"], "sync")][0], c), "model": want}
    e, tctx = envs[(c["um"], rec.get("env", "sync"))]
    if rec.get("template"):
        src, got = observe_template(jinja2, {}, e, op, c)
        return {"src": src, "observed": got, "model": want}
    return {"observed": observe(jinja2, e, tctx, op, c), "model": want}
