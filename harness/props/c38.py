"""C38 — exceptions from data propagate unchanged and leave the engine usable.

Proof side: Props/C38.lean over Gen/ExceptSites.lean (every `except` handler of src/jinja2, READ on every run).
Tie: fault injection end to end.  Every hook of the data objects (attribute, item, call, iteration, str, html, len, bool,
comparison, hash, int/float conversion, await, async iteration) counts as one event; a clean render counts the events, then
for each k the k-th event raises one private exception object.  The hook records the stack of engine frames it was
reached through (module, function, line, generator kind); the Lean driver answers from that (a) the documented
expectation (Spec/ExceptPolicy.lean: same object / documented signal / PEP 479) and (b) what the handlers READ from the
source do with that class at those lines (Model/ExnFlow.lean).  Python only compares.
After every faulted render the same and another template are rendered cleanly on the same Environment and compared with
a fresh environment's output.
"""
from __future__ import annotations

import asyncio
import collections.abc
import inspect
import sys
from pathlib import Path

from harness import core
from translate import except_sites as tr_sites

ID = "C38"
GEN = [tr_sites.gen]
LEAN_MODULES = ["JinjaV.Props.C38"]
LEVEL = "proof"
TRUSTED = [
    "translator translate/except_sites.py: handler kinds are classified from a fixed list of body shapes (anything else is "
    "`other`, treated as a swallow); 'call into data' is syntactic",
    "Spec/ExceptPolicy.lean: the documented signal sites were written by hand from the documentation; which functions are "
    "outside the render path (compile/load/extraction) is a hand-written list, everything unnamed counts as render time",
    "Model/ExnFlow.lean: one fault per render, constructs without handlers are plain sequencing; exceptions consumed by the "
    "interpreter itself (iterator protocol, hasattr, PEP 479) are outside the model (declined, judged by the Spec only)",
    "the stack walk of the harness (sys._getframe, co_qualname, f_lineno) identifies the active try bodies",
]
ASSUMPTIONS = [
    "a StopIteration (StopAsyncIteration) leaving a generator (async generator) frame becomes RuntimeError with __cause__ "
    "set to it (PEP 479): Python semantics, accepted as 'propagated'",
    "after a documented signal the render may continue or fail with any other exception (only engine usability is checked)",
]
CLAIM = dict(
    category="proof",
    technique="Lean 4: decide +kernel over the table of all except handlers regenerated from src/jinja2/*.py (policy "
              "containment, broad-handler allow-list, handle_exception shape) + induction proof of exception transparency "
              "for a propagation model whose handlers are looked up in that table + end-to-end fault injection at every "
              "data event with a stack-frame oracle evaluated by the Lean driver",
    text="Theorems (Props/C38.lean): handle_exception re-raises the current exception object (shape of "
         "Environment.handle_exception and debug.rewrite_traceback_stack read from source); every render-time except handler "
         "re-raises the same object or catches only classes documented as signals at exactly that site "
         "(handlers_within_policy); every handler catching Exception/BaseException/everything at render time re-raises the "
         "same object or is one of three allow-listed sites (test_sequence, _filter_test_common, fake_traceback) "
         "(broad_handlers_ok at full strength, with counterexample finder broadOffenders); policy rows naming "
         "data hooks sit on handlers that do guard a call into data; in the propagation model, for every construct tree of "
         "render-time guards, every entry point, every fault position k and every exception whose class is outside the "
         "documented signal sets of the guards enclosing event k, the render result is exactly that object "
         "(exn_transparent, private_exception_transparent); a clean run raises nothing (clean_run_no_raise); the module-cache "
         "state left by a failed render equals the state left by a successful render of the completed part — a module is "
         "cached only if its body was evaluated to the end (engine_state_after_error_reachable). Tie: Gen table "
         "regenerated each run; fault injection at every event k of generated templates (all statement kinds, ~290 "
         "expression forms, ~60 filters/tests) x 12 exception classes x render/generate/stream/async entry points x "
         "Environment/Sandboxed/Native, identity (`is`) oracle from the Spec evaluated in Lean on the recorded frame stack, "
         "model prediction from the source table compared with the observed outcome, clean re-renders on the same "
         "environment compared with a fresh one.",
    note="Trusted: Lean kernel; translator (body-shape classification); hand-written policy table and render-path list; "
         "frame-stack capture. Former finding F15 (str(argument) of a str-subclass key swallowing every exception, key "
         "C38:swallow:getitem-str-argument) is repaired in /repo 9a4c10c; the str-subclass key stays among the probes. "
         "The engine-state theorem covers the module cache (`_module`); template/lexer caches are covered end to end only.",
    design_ref="§5 C38",
)

# --------------------------------------------------------------------------------------------------------------------
# private exception classes (hierarchy variants probing the signal set)
# --------------------------------------------------------------------------------------------------------------------


class Boom(Exception): pass                     # noqa: E701
class BoomBase(BaseException): pass             # noqa: E701
class BoomKey(KeyError): pass                   # noqa: E701
class BoomIndex(IndexError): pass               # noqa: E701
class BoomLookup(LookupError): pass             # noqa: E701
class BoomAttr(AttributeError): pass            # noqa: E701
class BoomType(TypeError): pass                 # noqa: E701
class BoomValue(ValueError): pass               # noqa: E701
class BoomOverflow(OverflowError): pass         # noqa: E701
class BoomStop(StopIteration): pass             # noqa: E701
class BoomStopAsync(StopAsyncIteration): pass   # noqa: E701
class BoomRuntime(RuntimeError): pass           # noqa: E701


EXC = [Boom, BoomBase, BoomKey, BoomIndex, BoomLookup, BoomAttr, BoomType, BoomValue, BoomOverflow, BoomStop,
       BoomStopAsync, BoomRuntime]
EXC_BY_NAME = {c.__name__: c for c in EXC}


def bases_of(cls):
    return [c.__name__ for c in cls.__mro__ if c.__module__ == "builtins" and c is not object]


# --------------------------------------------------------------------------------------------------------------------
# the fault plan and the stack capture
# --------------------------------------------------------------------------------------------------------------------

_JDIR = None
_GEN_FLAGS = inspect.CO_GENERATOR | inspect.CO_COROUTINE | inspect.CO_ASYNC_GENERATOR | inspect.CO_ITERABLE_COROUTINE
_HERE = str(Path(__file__).resolve())


def _gen_kind(code):
    fl = code.co_flags
    if fl & inspect.CO_ASYNC_GENERATOR:
        return "agen"
    if fl & (inspect.CO_COROUTINE | inspect.CO_ITERABLE_COROUTINE):
        return "coro"
    if fl & inspect.CO_GENERATOR:
        return "gen"
    return "none"


def capture_stack():
    """engine frames between the hook and the harness, innermost first: (module, qualname, line, genKind)"""
    out = []
    f = sys._getframe(2)
    seen_engine = False
    while f is not None:
        code = f.f_code
        fn = code.co_filename
        if fn.startswith(_JDIR):
            out.append((Path(fn).stem, code.co_qualname.replace("<locals>.", ""), f.f_lineno, _gen_kind(code)))
            seen_engine = True
        elif "__jinja_template__" in f.f_globals:
            out.append(("<template>", code.co_name, f.f_lineno, _gen_kind(code)))
            seen_engine = True
        elif fn == _HERE:
            if seen_engine and code.co_name in ("run_entry", "_arun"):
                break
        elif code.co_flags & _GEN_FLAGS:
            out.append(("<other>", code.co_name, 0, _gen_kind(code)))
        f = f.f_back
    return out


class Plan:
    """the current fault plan; all probes report to the one installed in CUR"""

    def __init__(self, k=None, exc=None):
        self.n = 0
        self.k = k
        self.exc = exc
        self.fired = None
        self.kinds = []

    def ev(self, hook):
        i = self.n
        self.n += 1
        if self.k is None:
            self.kinds.append(hook)
        elif i == self.k:
            self.fired = (hook, capture_stack())
            raise self.exc


class IdlePlan:
    k = None
    exc = None
    n = 0

    def ev(self, hook):
        pass


class _Cur:
    plan = IdlePlan()


def ev(hook):
    _Cur.plan.ev(hook)


# --------------------------------------------------------------------------------------------------------------------
# data objects: every protocol method is a hook
# --------------------------------------------------------------------------------------------------------------------

class PNum:
    def __init__(self, v): self._v = v                                     # noqa: E704
    def __int__(self): ev("int"); return int(self._v)                      # noqa: E702,E704
    def __float__(self): ev("float"); return float(self._v)                # noqa: E702,E704
    def __index__(self): ev("index"); return int(self._v)                  # noqa: E702,E704
    def __str__(self): ev("str"); return str(self._v)                      # noqa: E702,E704
    def __repr__(self): return f"PNum({self._v})"                          # noqa: E704
    def __bool__(self): ev("bool"); return bool(self._v)                   # noqa: E702,E704
    def __hash__(self): ev("hash"); return hash(self._v)                   # noqa: E702,E704
    def _o(self, other): return other._v if isinstance(other, PNum) else other   # noqa: E704
    def __eq__(self, other): ev("eq"); return self._v == self._o(other)    # noqa: E702,E704
    def __ne__(self, other): ev("eq"); return self._v != self._o(other)    # noqa: E702,E704
    def __lt__(self, other): ev("lt"); return self._v < self._o(other)     # noqa: E702,E704
    def __le__(self, other): ev("lt"); return self._v <= self._o(other)    # noqa: E702,E704
    def __gt__(self, other): ev("lt"); return self._v > self._o(other)     # noqa: E702,E704
    def __ge__(self, other): ev("lt"); return self._v >= self._o(other)    # noqa: E702,E704
    def __add__(self, other): ev("add"); return self._v + self._o(other)   # noqa: E702,E704
    def __radd__(self, other): ev("add"); return self._o(other) + self._v  # noqa: E702,E704
    def __mul__(self, other): ev("add"); return self._v * self._o(other)   # noqa: E702,E704
    def __mod__(self, other): ev("add"); return self._v % self._o(other)   # noqa: E702,E704
    def __neg__(self): ev("add"); return -self._v                          # noqa: E702,E704


class PStr:
    def __init__(self, s): self._s = s                                     # noqa: E704
    def __str__(self): ev("str"); return self._s                           # noqa: E702,E704
    def __html__(self): ev("html"); return self._s.replace("<", "&lt;")    # noqa: E702,E704
    def __repr__(self): return f"PStr({self._s!r})"                        # noqa: E704
    def __len__(self): ev("len"); return len(self._s)                      # noqa: E702,E704
    def __hash__(self): ev("hash"); return hash(self._s)                   # noqa: E702,E704
    def _o(self, other): return other._s if isinstance(other, PStr) else other   # noqa: E704
    def __eq__(self, other): ev("eq"); return self._s == self._o(other)    # noqa: E702,E704
    def __lt__(self, other): ev("lt"); return self._s < self._o(other)     # noqa: E702,E704
    def __gt__(self, other): ev("lt"); return self._s > self._o(other)     # noqa: E702,E704
    def __bool__(self): ev("bool"); return bool(self._s)                   # noqa: E702,E704


class KStr(str):
    """a str subclass key whose __str__ is a hook (F15 probe)"""
    def __str__(self): ev("str"); return str.__str__(self)                 # noqa: E702,E704
    __hash__ = str.__hash__


class PIterator:
    def __init__(self, items): self._items = list(items); self._i = 0      # noqa: E702,E704
    def __iter__(self): return self                                        # noqa: E704
    def __repr__(self): return "PIterator"                                 # noqa: E704

    def __next__(self):
        ev("next")
        if self._i >= len(self._items):
            raise StopIteration
        self._i += 1
        return self._items[self._i - 1]


class PSeq:
    def __init__(self, items): self._items = list(items)                   # noqa: E704
    def __iter__(self): ev("iter"); return PIterator(self._items)          # noqa: E702,E704
    def __len__(self): ev("len"); return len(self._items)                  # noqa: E702,E704
    def __getitem__(self, i): ev("getitem"); return self._items[i]         # noqa: E702,E704
    def __bool__(self): ev("bool"); return bool(self._items)               # noqa: E702,E704
    def __contains__(self, x): ev("contains"); return any(x == y for y in self._items)   # noqa: E702,E704
    def __repr__(self): return f"PSeq({self._items!r})"                    # noqa: E704


class PIter:
    """iterator only: no len, no getitem"""
    def __init__(self, items): self._it = PIterator(items)                 # noqa: E704
    def __iter__(self): ev("iter"); return self._it                        # noqa: E702,E704
    def __repr__(self): return "PIter"                                     # noqa: E704


class PMap(collections.abc.Mapping):
    def __init__(self, d): self._d = dict(d)                               # noqa: E704
    def __getitem__(self, k): ev("getitem"); return self._d[k]             # noqa: E702,E704
    def __iter__(self): ev("iter"); return PIterator(self._d)              # noqa: E702,E704
    def __len__(self): ev("len"); return len(self._d)                      # noqa: E702,E704
    def __repr__(self): return f"PMap({self._d!r})"                        # noqa: E704
    __hash__ = None


class PObj:
    """attributes only through __getattr__ (names in the table are events, anything else a plain AttributeError)"""
    def __init__(self, **attrs): self.__dict__["_attrs"] = attrs           # noqa: E704

    def __getattr__(self, name):
        attrs = self.__dict__["_attrs"]
        if name not in attrs:
            raise AttributeError(name)
        ev("getattr")
        return attrs[name]

    def __repr__(self): return "PObj"                                      # noqa: E704


class PBoth(PObj):
    """attribute hook and item hook (not iterable: no old-style sequence iteration through __getitem__)"""
    __iter__ = None

    def __getitem__(self, k):
        ev("getitem")
        return self.__dict__["_attrs"][k]


class PFn:
    def __init__(self, rv=None): self._rv = rv                             # noqa: E704
    def __call__(self, *a, **kw): ev("call"); return a[0] if (a and self._rv is None) else self._rv   # noqa: E702,E704
    def __repr__(self): return "PFn"                                       # noqa: E704


class _AwIt:
    def __init__(self, v): self._v = v                                     # noqa: E704
    def __iter__(self): return self                                        # noqa: E704
    def __next__(self): ev("await"); raise StopIteration(self._v)          # noqa: E702,E704


class PAwaitable:
    def __init__(self, v): self._v = v                                     # noqa: E704
    def __repr__(self): return "PAwaitable"                                # noqa: E704
    def __await__(self): return _AwIt(self._v)                             # noqa: E704


class PAsyncFn:
    def __init__(self, rv): self._rv = rv                                  # noqa: E704
    def __call__(self, *a, **kw): ev("call"); return PAwaitable(self._rv)  # noqa: E702,E704
    def __repr__(self): return "PAsyncFn"                                  # noqa: E704


class _AIt:
    def __init__(self, items): self._items = list(items); self._i = 0      # noqa: E702,E704
    def __aiter__(self): return self                                       # noqa: E704
    def __repr__(self): return "AIt"                                       # noqa: E704

    def __anext__(self):
        ev("anext")
        if self._i >= len(self._items):
            raise StopAsyncIteration
        self._i += 1
        return PAwaitable(self._items[self._i - 1])


class PASeq:
    def __init__(self, items): self._items = list(items)                   # noqa: E704
    def __aiter__(self): ev("aiter"); return _AIt(self._items)             # noqa: E702,E704
    def __repr__(self): return "PASeq"                                     # noqa: E704


def make_data(is_async):
    d = dict(
        o=PObj(a=PNum(4), b=PStr("b<x>"), items=PSeq([PNum(2), PNum(1)]), sub=PObj(c=PNum(7), f=PFn(PNum(9))), f=PFn(PStr("r")),
               name=PStr("nm")),
        ob=PBoth(a=PNum(1), b=PStr("two")),
        xs=PSeq([PNum(3), PNum(1), PNum(2)]),
        ys=PSeq([PStr("b"), PStr("a"), PStr("b")]),
        e=PSeq([]),
        it=PIter([PNum(1), PNum(2), PNum(3)]),
        d=PMap({"k": PNum(1), "j": PStr("v")}),
        f=PFn(),
        g=PFn(PSeq([PNum(1), PNum(2)])),
        s=PStr("he<l>lo wo"),
        n=PNum(5),
        z=PNum(0),
        objs=PSeq([PObj(g=PNum(1), v=PStr("x")), PObj(g=PNum(2), v=PStr("y")), PObj(g=PNum(1), v=PStr("z"))]),
        ks=KStr("k"),
        km=KStr("missing"),
        pd={"k": PNum(8), "q": PSeq([PNum(1)])},
        pl=[PNum(2), PNum(1), PNum(2)],
    )
    if is_async:
        d.update(af=PAsyncFn(PNum(6)), axs=PASeq([PNum(1), PNum(2)]), aw=PAwaitable(PStr("w")))
    return d


# --------------------------------------------------------------------------------------------------------------------
# template generator
# --------------------------------------------------------------------------------------------------------------------

EXPRS = [
    "o.a", "o.b", "o.missing", "o['a']", "o['missing']", "o.sub.c", "o.sub.f()", "o.f()", "o.items[0]", "o.items[5]",
    "ob.a", "ob['b']", "ob.missing", "ob['missing']", "ob[km]", "o[ks]", "d[ks]", "d[km]", "pd[ks]", "pd[km]", "pd.k", "pd['q'][0]",
    "d.k", "d['j']", "d.missing", "d['missing']", "xs[0]", "xs[9]", "xs[n]", "xs.missing", "pl[n]", "pl[z]",
    "f(n)", "f(o.a)", "g()", "f(s)", "f(missing)", "n + 1", "n + n", "n * 2", "n % 2", "-n", "n ~ s", "s ~ o.b",
    "n > 3", "n < z", "n == 5", "n != z", "s == 'x'", "n in xs", "n not in pl", "s in ys", "z in pl",
    "(n if z else s)", "((n and z) or s)", "(not z)", "xs|length", "xs|count", "s|length", "d|length",
    "xs|sort|join(',')", "xs|sort(reverse=true)|first", "ys|sort|join", "ys|unique|join(',')", "xs|unique|list|length",
    "xs|sum", "xs|sum(start=n)", "objs|sum(attribute='g')", "xs|join('-')", "ys|join(s)", "objs|join(',', attribute='v')",
    "xs|first", "xs|last", "e|first", "e|last", "it|first", "xs|min", "xs|max", "e|min", "objs|max(attribute='g')",
    "xs|list|length", "it|list|length", "xs|reverse|list|length", "it|reverse|length", "s|reverse", "n|reverse",
    "xs|batch(2)|list|length", "xs|slice(2)|list|length", "xs|map('int')|list", "xs|map('string')|join", "ys|map('upper')|join",
    "objs|map(attribute='v')|join", "objs|map(attribute='zz')|join", "objs|map(attribute='g')|sum",
    "xs|select|list|length", "xs|select('odd')|list|length", "xs|reject('gt', 1)|list|length", "xs|select('eq', n)|list|length",
    "objs|selectattr('g')|list|length", "objs|selectattr('g', 'eq', 1)|list|length", "objs|rejectattr('g', 'gt', 1)|list|length",
    "objs|groupby('g')|length", "objs|groupby('g')|map('first')|join", "objs|groupby(attribute='g', default=0)|list|length",
    "d|dictsort|length", "d|dictsort(by='value')|length" , "pd|dictsort|first|first", "d|items|list|length", "d|list|join",
    "o.missing|default('dflt')", "z|default(s, true)", "o.missing|d(n)", "n|int", "s|int", "s|int(n)", "n|float|int", "o|int", "o|float(1.5)|int",
    "n|string", "s|string", "s|upper", "s|lower", "s|title", "s|capitalize", "s|trim", "s|replace('l', n)", "s|e", "s|escape",
    "s|safe", "s|striptags", "s|truncate(4)", "s|wordcount", "s|center(12)", "s|indent(2)", "s|urlencode", "s|first", "s|list|length",
    "'%s-%s'|format(n, s)", "n|abs", "n|round|int", "xs|attr('missing')", "o|attr('a')", "o|attr('missing')", "d|attr('k')",
    "n|filesizeformat", "s|forceescape", "s|wordwrap(3)", "d|xmlattr", "pd|xmlattr", "xs|pprint|length", "s|urlize",
    "o is defined", "o.missing is defined", "o.a is undefined", "n is none", "xs is sequence", "it is sequence", "o is sequence",
    "s is sequence", "xs is iterable", "o is iterable", "it is iterable", "d is mapping", "pd is mapping", "f is callable", "o is callable",
    "s is string", "n is number", "n is odd", "n is even", "n is divisibleby 5", "n is divisibleby(z + 5)", "n is sameas n",
    "n is eq 5", "n is lt 9", "n is ge z", "n is in xs", "s is lower", "s is upper", "n is integer", "n is float", "n is boolean",
    "xs is filter", "'sort' is filter", "n is test", "range(n)|list|length", "range(z, n)|sum", "dict(a=n, b=s)|length",
    "dict(a=n).a", "cycler(n, s).next()", "joiner(s)()", "namespace(a=n).a", "[n, z, s]|length", "[n, z]|sort|first",
    "(n, s)|last", "{'a': n, s: z}|length", "{'a': n}['a']", "{'a': n}.a", "xs[1:]|length", "xs[::2]|length", "o.items[z:n]|length",
    "self.__class__.__name__|length", "loop is defined", "caller is defined", "varargs is defined",
]
ASYNC_EXPRS = ["af()", "af(n)", "aw", "af() + 1", "axs|list|length", "axs|first", "axs|join(',')", "axs|map('int')|list|length",
               "axs|select|list|length", "axs|sum", "axs|length", "axs|sort|first", "axs|unique|list|length", "axs|groupby('real')|length",
               "axs|batch(1)|list|length", "axs|slice(1)|list|length", "axs|min", "axs|last", "axs|reverse|list|length", "axs is iterable",
               "n in axs", "axs|map('string')|join"]
ITERS = ["xs", "ys", "it", "e", "objs", "d", "d.items()", "d|dictsort", "o.items", "g()", "pl", "pd", "pd|items", "xs|sort", "xs|reverse",
         "xs|map('int')", "xs|select", "objs|groupby('g')", "xs|batch(2)", "range(n)", "o.missing", "xs[1:]", "s", "ys|unique"]
ASYNC_ITERS = ["axs", "axs|map('int')", "axs|select", "af()"]
LOOPVARS = ["loop.index", "loop.index0", "loop.revindex", "loop.revindex0", "loop.first", "loop.last", "loop.length", "loop.depth",
            "loop.previtem", "loop.nextitem", "loop.cycle(n, s)", "loop.changed(x)", "x", "x|string"]


def gen_expr(r, is_async):
    pool = EXPRS + (ASYNC_EXPRS * 3 if is_async else [])
    return "(" + r.choice(pool) + ")"


def gen_body(r, is_async, depth, in_loop=False):
    parts = []
    for _ in range(r.randint(1, 3 if depth else 4)):
        parts.append(gen_stmt(r, is_async, depth, in_loop))
    return "".join(parts)


def gen_stmt(r, is_async, depth, in_loop=False):
    E = lambda: gen_expr(r, is_async)  # noqa: E731
    B = lambda il=in_loop: gen_body(r, is_async, depth - 1, il) if depth > 0 else "{{ %s }}" % E()  # noqa: E731
    kinds = ["out", "out", "out", "out2", "if", "for", "set", "setblock", "with", "filterblock", "macro", "call", "autoescape",
             "include", "import", "from", "ifelse", "forelse", "forif", "forif", "recfor", "raw", "comment", "ns", "loopvar", "cond",
             "includectx", "fromctx", "includelist", "text"]
    if depth <= 0:
        kinds = ["out", "out", "out2", "set", "text", "cond", "loopvar"]
    k = r.choice(kinds)
    if k == "loopvar" and not in_loop:
        k = "out"
    if k == "out":
        return "{{ %s }}" % E()
    if k == "out2":
        return "[{{ %s }}|{{ %s }}]" % (E(), E())
    if k == "text":
        return r.choice(["txt ", "<b>", "\n", "x"])
    if k == "cond":
        return "{{ '%s' if %s else %s }}" % (r.choice("ab"), E(), E())
    if k == "loopvar":
        return "{{ %s }}" % r.choice(LOOPVARS)
    if k == "if":
        return "{%% if %s %%}%s{%% endif %%}" % (E(), B())
    if k == "ifelse":
        return "{%% if %s %%}%s{%% elif %s %%}%s{%% else %%}%s{%% endif %%}" % (E(), B(), E(), B(), B())
    its = ITERS + (ASYNC_ITERS * 4 if is_async else [])
    if k == "for":
        return "{%% for x in %s %%}%s{%% endfor %%}" % (r.choice(its), B(True))
    if k == "forelse":
        return "{%% for x in %s %%}%s{%% else %%}%s{%% endfor %%}" % (r.choice(its), B(True), B())
    if k == "forif":
        it = r.choice(its)
        if r.random() < 0.5:    # an iterable *expression* with events of its own (call / attribute / item / filter)
            it = r.choice(["f(%s)" % it, "f(o.items)", "o.items", "g()", "ob['a']|list", "pd['q']", "(%s)|list" % it, "o.sub.f()|string"])
        rec = " recursive" if r.random() < 0.15 else ""
        return "{%% for x in %s if %s%s %%}%s{{ loop.length }}{%% endfor %%}" % (it, r.choice(["x", "x != 1", "x is defined", "n"]), rec, B(True))
    if k == "recfor":
        return "{%% for x in %s recursive %%}{{ loop.depth }}{%% if loop.depth < 2 %%}{{ loop(%s) }}{%% endif %%}{%% endfor %%}" % (
            r.choice(["xs", "objs", "it", "pl"]), r.choice(["xs", "e", "pl"]))
    if k == "set":
        return "{%% set v%d = %s %%}{{ v%d }}" % (depth, E(), depth)
    if k == "setblock":
        return "{%% set sb%s %%}%s{%% endset %%}{{ sb }}" % (r.choice(["", " | upper", " | trim | length"]), B())
    if k == "with":
        return "{%% with w = %s, w2 = %s %%}%s{{ w }}{%% endwith %%}" % (E(), E(), B())
    if k == "filterblock":
        return "{%% filter %s %%}%s{%% endfilter %%}" % (r.choice(["upper", "trim", "replace('a', n)", "indent(1)", "length", "center(n)"]), B())
    if k == "macro":
        nm = "m%d%d" % (depth, r.randint(0, 9))
        return "{%% macro %s(p, q=%s) %%}%s{{ p }}{{ q }}{{ varargs|length }}{%% endmacro %%}{{ %s(%s) }}{{ %s(%s, %s, %s) }}" % (
            nm, E(), B(False), nm, E(), nm, E(), E(), E())
    if k == "call":
        nm = "c%d%d" % (depth, r.randint(0, 9))
        return "{%% macro %s(p) %%}<{{ caller(p) }}>{%% endmacro %%}{%% call(cv) %s(%s) %%}%s{{ cv }}{%% endcall %%}" % (nm, nm, E(), B(False))
    if k == "autoescape":
        return "{%% autoescape %s %%}%s{{ s }}{%% endautoescape %%}" % (r.choice(["true", "false", "n", "z"]), B())
    if k == "include":
        return "{%% include '%s' %%}" % r.choice(["inc_a", "inc_b"])
    if k == "includectx":
        return "{%% include '%s' %s %%}" % (r.choice(["inc_a", "inc_b"]), r.choice(["with context", "without context", "ignore missing"]))
    if k == "includelist":
        return "{%% include ['nope', %s] ignore missing %%}" % r.choice(["'inc_a'", "o.missing", "'inc_b'", "'nope2'"])
    if k == "import":
        return "{%% import 'lib' as lib %%}{{ lib.lm(%s) }}{{ lib.gv }}" % E()
    if k == "from":
        return "{%% from 'lib' import lm, gv as gv2 %%}{{ lm(%s) }}{{ gv2 }}" % E()
    if k == "fromctx":
        return "{%% from 'libctx' import cm with context %%}{{ cm(%s) }}" % E()
    if k == "raw":
        return "{% raw %}{{ o.a }}{% endraw %}"
    if k == "comment":
        return "{# {{ o.a }} #}"
    if k == "ns":
        return "{%% set ns = namespace(c=%s) %%}{%% for x in xs %%}{%% set ns.c = x %%}{%% endfor %%}{{ ns.c }}{{ ns.nope }}" % E()
    raise AssertionError(k)


# always rendered (environment 0 and 1): the replays of the findings ledger and one template per documented signal site
FIXED = [
    "[{{ d[ks] }}]", "[{{ pd[km] }}]", "[{{ o[ks] }}]", "[{{ ob[km] }}]",                     # F15
    "{{ f(n) }}{{ o.sub.f() }}{{ g()|length }}",                                              # Context.call
    "{% macro m(p) %}{{ p.a }}{{ o.items|first }}{% endmacro %}{{ m(o) }}{{ m(ob) }}",          # nested under Context.call
    "{{ xs is sequence }}{{ it is sequence }}{{ o is sequence }}{{ xs is iterable }}{{ o is iterable }}{{ d is mapping }}",
    "{{ o.a }}{{ o.missing }}{{ ob.missing }}{{ ob['missing'] }}{{ d.k }}{{ d.missing }}{{ xs[0] }}{{ xs[9] }}{{ pl[n] }}",
    "{% for x in it %}{{ loop.length }}{{ loop.last }}{{ x }}{% endfor %}{% for x in xs %}{{ loop.revindex }}{% endfor %}",
    "{{ xs|first }}{{ e|first }}{{ xs|last }}{{ e|last }}{{ xs|min }}{{ e|max }}{{ it|first }}",
    "{{ n|int }}{{ s|int }}{{ o|int }}{{ n|float }}{{ s|float(1.0) }}{{ xs|reverse|list|length }}{{ it|reverse|length }}",
    "{{ o|attr('a') }}{{ o|attr('missing') }}{{ xs|sort|join }}{{ objs|groupby('g')|length }}{{ ys|unique|join }}{{ xs|sum }}",
    # filtered for-loops: the *iterable expression* (call / attribute / item / filter in the `in …` part) is a fault position
    # of its own — in async mode the loop filter is a generator guarded by try/finally (compiler.py visit_For)
    "{% for x in f(xs) if x %}{{ x }}{% endfor %}|{% for x in o.items if x > 0 %}{{ x }}{% else %}-{% endfor %}",
    "{% for x in g() if x is defined %}{{ x }}{% endfor %}|{% for x in pd['q'] if x %}{{ x }}{% endfor %}|{% for x in ob['a']|list if x %}{% endfor %}",
    "{% for x in xs|map('int') if x %}{{ x }}{% endfor %}|{% for x in objs|map(attribute='g') if x %}{{ x }}{% endfor %}|{% for x in o.sub.f()|string if x %}{{ x }}{% endfor %}",
    "{% for x in o.items if x recursive %}{{ loop.depth }}{% if loop.depth < 2 %}{{ loop(g()) }}{% endif %}{% endfor %}",
    "{% for y in f(xs) if y %}{% for x in f(o.items) if x %}{{ x }}{% endfor %}{% for x in d.j|list if x %}{{ x }}{% endfor %}{% endfor %}",
    "{% macro m(p) %}{% for x in p.items if x %}{{ x }}{% endfor %}{% for x in g() if x %}{{ x }}{% endfor %}{% endmacro %}{{ m(o) }}",
    "{% set sb %}{% for x in g() if x %}{{ x }}{% endfor %}{% endset %}{{ sb }}{% filter upper %}{% for x in f(ys) if x %}{{ x }}{% endfor %}{% endfilter %}",
    "{% macro c() %}<{{ caller() }}>{% endmacro %}{% call c() %}{% for x in f(xs) if x %}{{ x }}{% endfor %}{% for x in o.items if x %}{{ x }}{% endfor %}{% endcall %}",
    "{% for x in xs|select if f(x) %}{{ loop.index }}{% endfor %}|{% for k, v in d|dictsort if v %}{{ k }}{% endfor %}|{% for x in o.missing if x %}{% endfor %}",
]
FIXED_ASYNC = [
    "{% for x in f(axs) if x %}{{ x }}{% endfor %}|{% for x in axs|map('int') if x %}{{ x }}{% endfor %}|{% for x in af() if x %}{% endfor %}",
    "{% for y in axs if y %}{% for x in f(o.items) if x %}{{ x }}{% endfor %}{% endfor %}|{% for x in g() if af() %}{{ x }}{% endfor %}",
    "{% macro m() %}{% for x in o.items if x %}{{ x }}{% endfor %}{% endmacro %}{{ m() }}{% set sb %}{% for x in f(axs) if x %}{{ x }}{% endfor %}{% endset %}{{ sb }}",
]


def gen_templates(r, is_async):
    """one environment's worth of templates: shared partials + main templates"""
    E = lambda: gen_expr(r, is_async)  # noqa: E731
    t = {
        "inc_a": "(A{{ %s }}{{ %s }})" % (E(), E()),
        "inc_b": "(B{%% for x in %s %%}{{ x }}{%% endfor %%}{{ %s }})" % (r.choice(ITERS), E()),
        # imported without context: sees only globals (G is a probe object in env.globals)
        "lib": "{%% set gv = %s %%}{%% macro lm(p) %%}[{{ p }}{{ G.a }}{{ %s }}]{%% endmacro %%}" % (
            r.choice(["G.a", "G.b", "G.items|first", "GF(1)", "G.a + 1", "7"]), r.choice(["GF(p)", "G.items|length", "p|string", "G.missing"])),
        "libctx": "{%% macro cm(p) %%}<{{ p }}{{ %s }}>{%% endmacro %%}" % E(),
        "base": "<<{%% block head %%}H{{ %s }}{%% endblock %%}|{%% block body %%}B{{ %s }}{%% endblock %%}|{{ self.head() }}>>" % (E(), E()),
        "mid": "{%% extends 'base' %%}{%% block body %%}M{{ super() }}{{ %s }}{%% endblock %%}" % E(),
    }
    mains = []
    n_main = 5
    for i in range(n_main):
        name = "main%d" % i
        shape = r.random()
        if shape < 0.2:
            parent = r.choice(["base", "mid", "mid"])
            src = "{%% extends %s %%}{%% block head %%}%s{%% endblock %%}{%% block body %%}%s{{ super() }}{%% endblock %%}" % (
                r.choice(["'%s'" % parent, "'%s' if n else 'base'" % parent]), gen_body(r, is_async, 1), gen_body(r, is_async, 1))
        else:
            src = gen_body(r, is_async, 2)
        t[name] = src
        mains.append(name)
    return t, mains


# --------------------------------------------------------------------------------------------------------------------
# running
# --------------------------------------------------------------------------------------------------------------------

ENV_KINDS = ["plain", "plain", "sandbox", "plain-auto", "strict", "native", "immutable"]


def make_env(jinja2, kind, is_async, templates):
    from jinja2 import sandbox, nativetypes
    kw = dict(loader=jinja2.DictLoader(dict(templates)), enable_async=is_async, autoescape=(kind == "plain-auto"))
    if kind == "sandbox":
        env = sandbox.SandboxedEnvironment(**kw)
    elif kind == "immutable":
        env = sandbox.ImmutableSandboxedEnvironment(**kw)
    elif kind == "native":
        env = nativetypes.NativeEnvironment(**kw)
    else:
        if kind == "strict":
            kw["undefined"] = jinja2.StrictUndefined
        env = jinja2.Environment(**kw)
    env.globals["G"] = PObj(a=PNum(3), b=PStr("gb"), items=PSeq([PNum(1)]))
    env.globals["GF"] = PFn()
    return env


MODES_SYNC = ["render", "render", "generate", "stream", "stream-buffered"]
MODES_ASYNC = ["render", "render_async", "generate", "generate_async", "stream"]


async def _arun(t, data, mode):
    if mode == "render_async":
        return await t.render_async(**data)
    out = []
    async for piece in t.generate_async(**data):
        out.append(piece)
    return _join(out)


def _join(pieces):
    """concatenate without calling a hook (a native environment yields raw values)"""
    pieces = list(pieces)
    if all(isinstance(p, str) for p in pieces):
        return "".join(pieces)
    return "native-pieces:" + repr(pieces)


def run_entry(env, name, mode, is_async):
    """render through one public entry point; fresh data every time"""
    t = env.get_template(name)
    data = make_data(is_async)
    if mode == "render":
        return t.render(**data)
    if mode == "generate":
        return _join(t.generate(**data))
    if mode == "stream":
        return _join(t.stream(**data))
    if mode == "stream-buffered":
        st = t.stream(**data)
        st.enable_buffering(3)
        return _join(st)
    if mode == "render_async_shared_loop":
        # clean re-renders only: one long-lived event loop instead of a new one per render (asyncio.run is expensive)
        return _shared_loop().run_until_complete(_arun(t, data, "render_async"))
    return asyncio.run(_arun(t, data, mode))


_LOOP = []


def _shared_loop():
    if not _LOOP or _LOOP[0].is_closed():
        _LOOP[:] = [asyncio.new_event_loop()]
    return _LOOP[0]


def observe(env, name, mode, is_async, plan):
    """returns (category, detail, exception or None)"""
    _Cur.plan = plan
    try:
        try:
            out = run_entry(env, name, mode, is_async)
            return ("completed", canon_out(out), None)
        except BaseException as x:  # noqa: B036 — the point of the exercise
            if isinstance(x, (KeyboardInterrupt, SystemExit, MemoryError)):
                raise
            if plan.exc is not None and x is plan.exc:
                return ("same", type(x).__name__, x)
            linked = False
            if plan.exc is not None:
                seen, y = 0, x
                while y is not None and seen < 8:
                    if y.__cause__ is plan.exc or y.__context__ is plan.exc:
                        linked = True
                        break
                    y = y.__cause__ or y.__context__
                    seen += 1
            cause_is = plan.exc is not None and x.__cause__ is plan.exc
            return ("other-cause" if cause_is else ("other-linked" if linked else "other"), type(x).__name__, x)
    finally:
        _Cur.plan = IdlePlan()


_ADDR = __import__("re").compile(r"(?i) at 0x[0-9a-f]+")


def canon_out(out):
    return _ADDR.sub("", out if isinstance(out, str) else "native:" + repr(out))


def frames_sx(stack):
    return [[m, f, ln, g] for (m, f, ln, g) in stack]


def inner_site(stack):
    for (m, f, ln, g) in stack:
        if m not in ("<other>",):
            return f"{m}.{f}"
    return "<direct>"


def run(ctx, res):
    global _JDIR
    jinja2 = core.import_jinja()
    _JDIR = str(Path(jinja2.__file__).resolve().parent) + "/"
    import warnings
    warnings.simplefilter("ignore", SyntaxWarning)   # NativeEnvironment feeds rendered text to ast.parse
    warnings.simplefilter("ignore", RuntimeWarning)  # awaitables abandoned by an injected fault

    # ---- the source table against the policy: counterexample finders ------------------------------------------------
    audit = core.driver_batch([[core.Atom("c38-audit")]])[0]
    broad_off, policy_off, hook_off, stale, n_sites, n_render, swallowing = audit[1]
    offenders = list(broad_off) + [s for s in policy_off if s not in broad_off]
    target_words = set()
    for s in offenders:
        fn = str(s[1]).split(".")[-1]
        for pre in ("sync_do_", "do_", "test_", "prepare_", "async_"):
            if fn.startswith(pre):
                fn = fn[len(pre):]
        target_words.add(fn)
    intensify = bool(offenders or ctx.proof_broken or ctx.tie_broken)

    n_envs = ctx.pick(14, 160) * (3 if intensify and ctx.quick else 1)
    max_k = ctx.pick(40, 120)
    exc_per_k = ctx.pick(2, 4)

    cases = []          # (meta, observed)
    req_index = {}      # request key -> index into reqs
    reqs = []
    evaluations = 0
    clean_runs = 0
    not_fired = 0
    usable_checks = 0
    hook_hist, exc_hist, mode_hist, envkind_hist, obs_hist = {}, {}, {}, {}, {}
    events_hist = []
    distinct = set()
    samples = []
    clean_failing = 0

    for ei in range(n_envs):
        r = ctx.rng("env", ei)
        is_async = r.random() < 0.4
        kind = r.choice(ENV_KINDS)
        templates, mains = gen_templates(r, is_async)
        fixed_env = ei < 3
        if fixed_env:
            is_async, kind = (ei >= 1), ("sandbox" if ei == 1 else "plain")
            mains = []
            for j, src in enumerate(FIXED + (FIXED_ASYNC if is_async else [])):
                templates["fixed%d" % j] = src
                mains.append("fixed%d" % j)
        if target_words:   # steer towards the offending site named by the finder
            extra = [e for e in EXPRS + ASYNC_EXPRS if any(w in e for w in target_words)]
            if extra:
                for j in range(3):
                    templates["main_t%d" % j] = "".join("{{ %s }}" % r.choice(extra) for _ in range(3))
                    mains.append("main_t%d" % j)
        try:
            env = make_env(jinja2, kind, is_async, templates)
            fresh = make_env(jinja2, kind, is_async, templates)
            for nm in templates:
                env.get_template(nm)
        except jinja2.TemplateSyntaxError as x:
            raise core.HarnessError(f"generator produced a template that does not compile: {x} in {templates}")
        envkind_hist[kind + ("+async" if is_async else "")] = envkind_hist.get(kind + ("+async" if is_async else ""), 0) + 1
        ref = {}
        for nm in mains:
            ref[nm] = observe(fresh, nm, "render", is_async, Plan())[:2]
        for mi, nm in enumerate(mains):
            modes = MODES_ASYNC if is_async else MODES_SYNC
            # clean run on the shared environment counts the events
            p0 = Plan()
            c0 = observe(env, nm, "render", is_async, p0)
            clean_runs += 1
            if c0[:2] != ref[nm]:
                res.violate("C38:clean-render-differs", f"clean render of {nm} on the shared environment gives {c0[:2]!r}, a fresh "
                            f"environment {ref[nm]!r}", dict(templates=templates, main=nm, env=kind, is_async=is_async, seed=ctx.seed))
            if c0[0] != "completed":
                clean_failing += 1
            n_ev = p0.n
            events_hist.append(n_ev)
            ks = list(range(n_ev))
            if n_ev > max_k:
                ks = sorted(r.sample(ks, max_k))
            for k in ks:
                # the fixed corpus always gets the two classes that are signals nowhere, plus one other
                for cls in ([Boom, BoomBase] + r.sample(EXC[2:], 1) if fixed_env else r.sample(EXC, exc_per_k)):
                    mode = r.choice(modes)
                    exc = cls("injected")
                    plan = Plan(k, exc)
                    ob = observe(env, nm, mode, is_async, plan)
                    evaluations += 1
                    if plan.fired is None:
                        not_fired += 1
                        continue
                    hook, stack = plan.fired
                    bases = bases_of(cls)
                    key = (hook, tuple(bases), tuple(stack))
                    if key not in req_index:
                        req_index[key] = len(reqs)
                        reqs.append([core.Atom("c38-case"), hook, bases, frames_sx(stack)])
                    meta = dict(env=kind, is_async=is_async, main=nm, mode=mode, exc=cls.__name__, k=k, hook=hook,
                                site=inner_site(stack), templates=templates, seed=ctx.seed)
                    diffs = []
                    cases.append((meta, ob[:2], req_index[key], diffs))
                    hook_hist[hook] = hook_hist.get(hook, 0) + 1
                    exc_hist[cls.__name__] = exc_hist.get(cls.__name__, 0) + 1
                    mode_hist[mode] = mode_hist.get(mode, 0) + 1
                    distinct.add((hook, cls.__name__, inner_site(stack), mode, tuple((m, f) for (m, f, _l, _g) in stack)))
                    # engine still usable: same template and another one, clean, on the same environment
                    other = mains[(mi + 1 + k) % len(mains)]
                    for again in (nm, other):
                        got = observe(env, again, "render_async_shared_loop" if is_async else "render", is_async, Plan())[:2]
                        usable_checks += 1
                        if got != ref[again]:
                            diffs.append((again, got, ref[again]))
            # the module cache after the faults
            try:
                t = env.get_template(nm)
                if not is_async and kind != "native":
                    _Cur.plan = IdlePlan()
                    m1 = canon_out(str(t.module))
                    m2 = canon_out(str(fresh.get_template(nm).module))
                    usable_checks += 1
                    if m1 != m2:
                        res.violate("C38:engine-state:module", f"template.module of {nm} after faulted renders is {m1!r}, fresh {m2!r}",
                                    dict(templates=templates, main=nm, env=kind, seed=ctx.seed))
            except Exception as x:  # noqa: BLE001 — module evaluation may fail naturally; both sides must agree
                try:
                    str(fresh.get_template(nm).module)
                    res.violate("C38:engine-state:module", f"template.module of {nm} raises {type(x).__name__} only after faulted renders",
                                dict(templates=templates, main=nm, env=kind, seed=ctx.seed))
                except Exception:  # noqa: BLE001
                    pass
            finally:
                _Cur.plan = IdlePlan()

    # ---- faults during the first evaluation of an imported module (fresh environment per position) -------------------
    import_faults = 0
    cache_obs = []
    for ii in range(ctx.pick(6, 40)):
        r = ctx.rng("imp", ii)
        is_async = r.random() < 0.35
        kind = r.choice(["plain", "sandbox", "plain-auto"])
        full, _m = gen_templates(r, is_async)
        templates = {"lib": full["lib"], "libctx": full["libctx"],
                     "imp": r.choice(["{% import 'lib' as lib %}{{ lib.lm(n) }}{{ lib.gv }}", "{% from 'lib' import lm, gv %}{{ lm(s) }}{{ gv }}",
                                      "{% from 'libctx' import cm with context %}{{ cm(n) }}{% import 'lib' as l2 %}{{ l2.gv }}"]),
                     "other": "{% import 'lib' as q %}{{ q.gv }}|{{ q.lm(1) }}"}
        fresh = make_env(jinja2, kind, is_async, templates)
        ref = {nm: observe(fresh, nm, "render", is_async, Plan())[:2] for nm in ("imp", "other")}
        p0 = Plan()
        observe(make_env(jinja2, kind, is_async, templates), "imp", "render", is_async, p0)
        for k in range(min(p0.n, max_k)):
            cls = r.choice(EXC)
            env = make_env(jinja2, kind, is_async, templates)
            mode = r.choice(MODES_ASYNC if is_async else MODES_SYNC)
            plan = Plan(k, cls("injected"))
            ob = observe(env, "imp", mode, is_async, plan)
            evaluations += 1
            import_faults += 1
            if plan.fired is None:
                not_fired += 1
                continue
            hook, stack = plan.fired
            bases = bases_of(cls)
            key = (hook, tuple(bases), tuple(stack))
            if key not in req_index:
                req_index[key] = len(reqs)
                reqs.append([core.Atom("c38-case"), hook, bases, frames_sx(stack)])
            meta = dict(env=kind, is_async=is_async, main="imp", mode=mode, exc=cls.__name__, k=k, hook=hook,
                        site=inner_site(stack), templates=templates, seed=ctx.seed, fresh_env_per_fault=True)
            diffs = []
            cases.append((meta, ob[:2], req_index[key], diffs))
            distinct.add((hook, cls.__name__, inner_site(stack), mode, tuple((m, f) for (m, f, _l, _g) in stack)))
            # the module cache right after the fault, against the model (Model/ExnFlow.runSt): cached iff the body completed
            in_module = any(f in ("Template.make_module", "Template.make_module_async", "TemplateModule.__init__")
                            for (_m, f, _l, _g) in stack)
            if templates["imp"].startswith(("{% import 'lib'", "{% from 'lib'")):
                lib_cached = env.get_template("lib")._module is not None
                if ob[0] in ("same", "other-cause") and in_module:
                    cache_obs.append((0, lib_cached, meta))
                elif ob[0] in ("same", "other-cause") and not in_module:
                    cache_obs.append((1, lib_cached, meta))
                elif ob[0] == "completed":
                    cache_obs.append((9, lib_cached, meta))
            for again in ("imp", "other", "imp"):
                got = observe(env, again, "render_async_shared_loop" if is_async else "render", is_async, Plan())[:2]
                usable_checks += 1
                if got != ref[again]:
                    diffs.append((again, got, ref[again]))

    # ---- module cache after a fault: model (Props/C38 engine_state_after_error_reachable) vs implementation ----------------
    cache_model = {k: core.driver_batch([[core.Atom("c38-cache"), k]])[0][1] for k in (0, 1, 9)}
    for k, lib_cached, meta in cache_obs:
        want = "lib" in [str(x) for x in cache_model[k][1]]
        if want != lib_cached:
            res.violate("C38:engine-state:module-cache",
                        f"{meta['exc']} injected at event {meta['k']} ({meta['hook']} hook, {'inside' if k == 0 else 'after'} the first "
                        f"evaluation of the imported module 'lib', via {meta['mode']}): lib._module is "
                        f"{'set' if lib_cached else 'None'} afterwards; the model caches a module iff its body completed "
                        f"({'cached' if want else 'not cached'})", meta)

    # ---- judge ------------------------------------------------------------------------------------------------------
    replies = core.driver_batch(reqs)
    verdicts = {"same": 0, "signal": 0, "signalHere": 0}
    model_hist = {}
    oom = 0
    for meta, ob, ri, diffs in cases:
        rep = replies[ri]
        if rep[0] != "ok":
            raise core.HarnessError(f"driver reply {rep!r} for {reqs[ri]!r}")
        spec, model, guards = rep[1]
        spec = str(spec)
        model = "translated" if isinstance(model, list) else str(model)
        verdicts[spec] += 1
        model_hist[model] = model_hist.get(model, 0) + 1
        obs_hist[ob[0]] = obs_hist.get(ob[0], 0) + 1
        what_ctx = (f"{meta['exc']} injected at event {meta['k']} ({meta['hook']} hook, innermost engine frame {meta['site']}, "
                    f"active guards {list(map(str, guards))}) rendering {meta['main']} via {meta['mode']} "
                    f"({meta['env']}{'+async' if meta['is_async'] else ''}): observed {ob[0]} {ob[1]!r:.80}")
        if len(samples) < 6 and (len(samples) < 3 or spec != "same"):
            samples.append(dict(template=meta["templates"][meta["main"]][:160], exc=meta["exc"], k=meta["k"], hook=meta["hook"],
                                site=meta["site"], mode=meta["mode"], expected=spec, model=model, observed=ob[0]))
        if spec == "same" and ob[0] != "same":
            if meta["hook"] == "str" and meta["site"].endswith(".getitem"):
                # the key of the former finding F15 (repaired in /repo 9a4c10c): a regression is reported under its own name
                res.violate("C38:swallow:getitem-str-argument", "F15 regression: " + what_ctx + "; documented: the same object is "
                            "raised", meta)
            else:
                res.violate(f"C38:{'swallowed' if ob[0] == 'completed' else 'replaced'}:{meta['site']}:{meta['hook']}",
                            what_ctx + "; documented: render raises that very object", meta)
        elif spec == "signalHere" and (ob[0] == "same" or (ob[0] == "other-cause" and ob[1] == "RuntimeError")):
            res.violate(f"C38:signal-not-taken:{meta['site']}:{meta['hook']}",
                        what_ctx + "; documented: this class is a signal at this site (undefined / false / default / fallback), "
                        "the object must not leave the render", meta)
        # engine still usable (judged where the exception has to propagate; after a documented signal the render went on with
        # an undefined/false/default value, and e.g. a module evaluated that way is legitimately cached)
        if diffs and spec == "same":
            again, got, want = diffs[0]
            res.violate(f"C38:engine-state:{meta['site']}",
                        what_ctx + f"; afterwards a clean render of {again} on the same environment gives {got!r:.120}, a fresh "
                        f"environment gives {want!r:.120}", dict(meta, again=again))
        # model (source table) vs implementation
        if model == "oom":
            oom += 1
        elif (model == "same") != (ob[0] == "same"):
            if not (spec == "same" and ob[0] != "same"):    # already reported with the failing input above
                res.violate(f"C38:model-drift:{meta['site']}:{meta['hook']}",
                            f"the handlers read from the source predict '{model}' but the implementation shows '{ob[0]}': " + what_ctx,
                            dict(meta, correspondence="Model/ExnFlow.eval over Gen/ExceptSites vs observed outcome"), no_input=True)
    # (positions of the clean count that are not reached later are expected: an imported module is evaluated once per
    # environment and cached, so later renders have fewer events; counted in the evidence)

    # proof or tie broke: name the offending rows (main.py adds the `C38:tie` verdict if no concrete input was found above)
    for s in offenders:
        res.notes.append(f"offending handler: {s[0]}.{s[1]}#{s[2]} line {s[3]} catches {list(map(str, s[4]))} kind {s[5]}")
    res.coverage.update({
        "evaluations": evaluations,
        "distinct_nontrivial": len(distinct),
        "rule": "templates generated from ~290 expression forms and 29 statement forms (partials, imports with/without context, "
                "inheritance, macros, call blocks, loops, filters, tests) over probe objects whose every protocol method is an "
                "event; a clean render counts events, then each event k (all, or a sample of max_k) raises one object of "
                f"{exc_per_k} of 12 private classes; distinct = (hook, class, innermost engine frame, entry point, frame stack); "
                "non-trivial = the fault fired and the driver judged it",
        "samples": samples,
        "exhaustive": False,
        "clean_runs": clean_runs, "clean_runs_failing_naturally": clean_failing,
        "events_per_template": {"min": min(events_hist or [0]), "max": max(events_hist or [0]),
                                "mean": round(sum(events_hist) / max(1, len(events_hist)), 1)},
        "hooks": hook_hist, "classes": exc_hist, "entry_points": mode_hist, "environments": envkind_hist,
        "expected": verdicts, "observed": obs_hist, "model_prediction": model_hist, "out_of_model": oom,
        "out_of_model_rate": round(oom / max(1, len(cases)), 3),
        "engine_usable_checks": usable_checks, "positions_not_reached_after_module_caching": not_fired,
        "faults_during_first_import": import_faults, "module_cache_states_compared": len(cache_obs),
        "table": {"handlers": int(n_sites), "render_time": int(n_render), "render_time_not_reraising": len(swallowing),
                  "broad_offenders": len(broad_off), "policy_offenders": len(policy_off), "hook_rows_without_data_call": len(hook_off),
                  "stale_policy_rows": [str(x) for x in stale]},
        "intensified": intensify,
    })


def replay(ctx, case):
    global _JDIR
    jinja2 = core.import_jinja()
    case = case.get("case", case)      # a replay file wraps the case
    _JDIR = str(Path(jinja2.__file__).resolve().parent) + "/"
    if "templates" not in case or "k" not in case:
        return {"note": "not an input case", "case": case}
    env = make_env(jinja2, case["env"], case["is_async"], case["templates"])
    cls = EXC_BY_NAME[case["exc"]]
    plan = Plan(case["k"], cls("injected"))
    ob = observe(env, case["main"], case["mode"], case["is_async"], plan)
    out = {"template": case["templates"][case["main"]], "observed": ob[:2], "fired": None}
    if plan.fired:
        hook, stack = plan.fired
        rep = core.driver_batch([[core.Atom("c38-case"), hook, bases_of(cls), frames_sx(stack)]])[0]
        out["fired"] = {"hook": hook, "stack": stack}
        out["driver"] = repr(rep)
    again = observe(env, case.get("again", case["main"]), "render", case["is_async"], Plan())[:2]
    fresh = observe(make_env(jinja2, case["env"], case["is_async"], case["templates"]), case.get("again", case["main"]), "render",
                    case["is_async"], Plan())[:2]
    out["clean_after"] = again
    out["clean_fresh"] = fresh
    return out
