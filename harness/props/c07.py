"""C07 — LoopContext / AsyncLoopContext ≡ loop specification (L-unit exhaustive + L-e2e)."""
from __future__ import annotations

import asyncio
import itertools

from harness import core
from harness.core import Atom

ID = "C07"
LEAN_MODULES = ["JinjaV.Props.C07"]
LEVEL = "proof"
TRUSTED = [
    "Model/Loop.lean is a hand transcription of runtime.py:394-659, tied by this correspondence run",
    "the for-loop driver in generated code (visit_For) is exercised end-to-end only, not modelled",
]
ASSUMPTIONS = ["items are plain values (ints); the iterable's own __len__/__iter__ are consistent with each other"]

QUERIES = ["length", "revindex", "revindex0", "first", "last", "previtem", "nextitem", "index", "index0",
           "depth", "cycle", "changed"]


def enc_op(op):
    if isinstance(op, tuple):
        return [Atom(op[0]), *op[1:]]
    return Atom(op)


def canon(o):
    if isinstance(o, list):
        return [canon(x) for x in o]
    return str(o) if isinstance(o, Atom) else o


def classify(v, Undefined, missing):
    if isinstance(v, Undefined):
        return "undef"
    if v is missing:
        return "missing"
    if isinstance(v, bool):
        return ["bool", v]
    return None


def do_query(lc, q, Undefined, missing):
    """one attribute query on a real (sync) LoopContext"""
    name = q[0] if isinstance(q, tuple) else q
    if name == "cycle":
        try:
            return ["val", lc.cycle(*q[1:])]
        except TypeError:
            return "typeError"
    if name == "changed":
        return ["bool", lc.changed(*q[1:])]
    v = getattr(lc, name)
    c = classify(v, Undefined, missing)
    if c is not None:
        return c
    if name in ("previtem", "nextitem"):
        return ["val", v]
    return ["int", v]


async def do_query_async(lc, q, Undefined, missing):
    name = q[0] if isinstance(q, tuple) else q
    if name == "cycle":
        try:
            return ["val", lc.cycle(*q[1:])]
        except TypeError:
            return "typeError"
    if name == "changed":
        return ["bool", lc.changed(*q[1:])]
    v = getattr(lc, name)
    if asyncio.iscoroutine(v):
        v = await v
    c = classify(v, Undefined, missing)
    if c is not None:
        return c
    if name in ("previtem", "nextitem"):
        return ["val", v]
    return ["int", v]


FORMS = ["list", "tuple", "iter", "gen"]


def make_iterable(form, xs):
    if form == "list":
        return list(xs)
    if form == "tuple":
        return tuple(xs)
    if form == "iter":
        return iter(list(xs))
    if form == "gen":
        return (x for x in list(xs))
    if form == "agen":
        async def ag():
            for x in list(xs):
                yield x
        return ag()
    raise AssertionError(form)


def run_sync(form, xs, ops, depth0):
    from jinja2.runtime import LoopContext, Undefined
    from jinja2.utils import missing

    lc = LoopContext(make_iterable(form, xs), Undefined, None, depth0)
    outs = []
    for op in ops:
        try:
            if op == "next":
                try:
                    v, lc2 = next(lc)
                    outs.append(["item", v] if lc2 is lc else "bad-self")
                except StopIteration:
                    outs.append("stop")
            else:
                outs.append(do_query(lc, op, Undefined, missing))
        except Exception as e:  # noqa
            outs.append(f"raised:{type(e).__name__}")
    return outs


async def run_async(form, xs, ops, depth0):
    from jinja2.runtime import AsyncLoopContext, Undefined
    from jinja2.utils import missing

    lc = AsyncLoopContext(make_iterable(form, xs), Undefined, None, depth0)
    outs = []
    for op in ops:
        try:
            if op == "next":
                try:
                    v, lc2 = await lc.__anext__()
                    outs.append(["item", v] if lc2 is lc else "bad-self")
                except StopAsyncIteration:
                    outs.append("stop")
            else:
                outs.append(await do_query_async(lc, op, Undefined, missing))
        except Exception as e:  # noqa
            outs.append(f"raised:{type(e).__name__}")
    return outs


def concrete(q, x):
    if q == "cycle":
        return ("cycle", 1, 2, 3)
    if q == "changed":
        return ("changed", (x if x is not None else 0) % 2)
    return q


def build_ops(xs, pattern, only_at, extra_next=1):
    """next, queries, next, queries, … ; `only_at` = None (every iteration) | j (only in iteration j, -1 = before
    the first next)"""
    ops = []
    if only_at == -1:
        ops += [concrete(q, None) for q in pattern]
    for j, x in enumerate(xs):
        ops.append("next")
        if only_at is None or only_at == j:
            ops += [concrete(q, x) for q in pattern]
    ops += ["next"] * extra_next
    if only_at is None:
        ops += [concrete(q, None) for q in pattern]  # queries after exhaustion
        ops.append("next")
    return ops


def item_lists(maxlen):
    out = []
    for n in range(maxlen + 1):
        out.append(list(range(10, 10 + n)))
    out += [[5, 5], [5, 5, 6, 6, 5], [0, 0, 0]]
    return out


TEMPLATE_EXPR = {
    "length": "loop.length", "revindex": "loop.revindex", "revindex0": "loop.revindex0", "first": "loop.first",
    "last": "loop.last", "previtem": "loop.previtem|default('U')", "nextitem": "loop.nextitem|default('U')",
    "index": "loop.index", "index0": "loop.index0", "depth": "loop.depth", "cycle": "loop.cycle(1, 2, 3)",
    "changed": "loop.changed(x % 2)",
}


# (name, template around the expression E) — E is evaluated exactly once per iteration in each of them, except in
# nested-filter (twice: in the iterable, which is this loop's scope, and in the filter; equal values print it once)
PLACEMENTS = [
    ("plain", "{{ E }}"),
    ("if", "{% if true %}{{ E }}{% endif %}"),
    ("with", "{% with w = E %}{{ w }}{% endwith %}"),
    ("set-block", "{% set w %}{{ E }}{% endset %}{{ w }}"),
    ("filter-block", "{% filter upper %}{{ E }}{% endfilter %}"),
    ("call-block", "{% call wrap() %}{{ E }}{% endcall %}"),
    ("nested-else", "{% for y in [] %}{{ y }}{% else %}{{ E }}{% endfor %}"),
    ("nested-else-deep", "{% if true %}{% for y in () %}-{% else %}{% if true %}{{ E }}{% endif %}{% endfor %}{% endif %}"),
    ("nested-iter", "{% for y in [E] %}{{ y }}{% endfor %}"),
    ("nested-filter", "{% for y in [E] if (E)|string == y|string %}{{ y }}{% endfor %}"),
]


def fmt(o):
    if o == "undef":
        return "U"
    if isinstance(o, list):
        return str(o[1])
    return str(o)


def run(ctx, res):
    jinja2 = core.import_jinja()
    maxlen = ctx.pick(4, 6)
    qlen = ctx.pick(2, 3)
    patterns = [()]
    for n in range(1, qlen + 1):
        patterns += list(itertools.product(QUERIES, repeat=n))
    lists = item_lists(maxlen)
    cases = []   # (mode, form, xs, ops, depth0)
    rng = ctx.rng("unit")
    for xs in lists:
        for pi, pat in enumerate(patterns):
            # every form sees every short pattern; long patterns are spread round-robin over forms
            forms = FORMS if len(pat) <= 1 else [FORMS[(pi + len(xs)) % 4]]
            for form in forms:
                cases.append(("sync", form, xs, build_ops(xs, pat, None), 0))
                if pat:
                    for j in ([-1] + list(range(len(xs)))) if len(pat) <= ctx.pick(1, 2) else [rng.randrange(-1, max(len(xs), 1))]:
                        cases.append(("sync", form, xs, build_ops(xs, pat, j), 1))
            if len(pat) <= ctx.pick(1, 2):
                for form in ("list", "agen", "gen"):
                    cases.append(("async", form, xs, build_ops(xs, pat, None), 0))
                    if pat and xs:
                        cases.append(("async", form, xs, build_ops(xs, pat, rng.randrange(len(xs))), 2))
    # random op soups (queries in arbitrary places, repeated nexts after exhaustion)
    for i in range(ctx.pick(3000, 40000)):
        xs = [rng.randrange(4) for _ in range(rng.randrange(0, 7))]
        ops = []
        for _ in range(rng.randrange(1, 25)):
            if rng.random() < 0.35:
                ops.append("next")
            else:
                q = rng.choice(QUERIES)
                if q == "cycle":
                    ops.append(("cycle", *[rng.randrange(9) for _ in range(rng.randrange(0, 4))]))
                elif q == "changed":
                    ops.append(("changed", *[rng.randrange(2) for _ in range(rng.randrange(0, 3))]))
                else:
                    ops.append(q)
        mode = "async" if i % 4 == 0 else "sync"
        form = rng.choice(FORMS if mode == "sync" else ["list", "agen", "gen", "iter"])
        cases.append((mode, form, xs, ops, rng.randrange(3)))

    reqs = [[Atom("loop"), form in ("list", "tuple"), d, xs, [enc_op(o) for o in ops]] for _, form, xs, ops, d in cases]
    replies = core.driver_batch(reqs)

    async def all_async():
        return [await run_async(form, xs, ops, d) if mode == "async" else None for mode, form, xs, ops, d in cases]

    async_outs = asyncio.run(all_async())
    qdist, nunit, mism = {}, 0, 0
    distinct = set()
    for (mode, form, xs, ops, d), rep, ao in zip(cases, replies, async_outs):
        if rep[0] != "ok":
            raise core.HarnessError(f"driver rejected {ops}: {rep}")
        model, spec = canon(rep[1][0]), canon(rep[1][1])
        impl = ao if mode == "async" else run_sync(form, xs, ops, d)
        nunit += 1
        distinct.add((mode, form, tuple(xs), tuple(ops), d))
        for o in ops:
            n = o[0] if isinstance(o, tuple) else o
            qdist[n] = qdist.get(n, 0) + 1
        if impl != spec:
            mism += 1
            k = next((i for i, (a, b) in enumerate(zip(impl, spec)) if a != b), 0)
            opn = ops[k][0] if isinstance(ops[k], tuple) else ops[k]
            key = f"C07:{'async-' if mode == 'async' else ''}unit:{opn}"
            if not any(v.key == key for v in res.violations) and len(res.violations) < 8:
                sops = shrink_ops(mode, form, xs, ops[: k + 1], d)
                res.violate(key, f"{mode} LoopContext over {form}{xs}: ops {sops} -> {run_any(mode, form, xs, sops, d)[-1]!r}, "
                                 f"documented value {spec_of(form, xs, sops, d)[-1]!r}",
                            {"mode": mode, "form": form, "xs": xs, "ops": [list(o) if isinstance(o, tuple) else o for o in sops], "depth0": d})
        elif impl != model:
            res.violate("C07:model-drift", f"model differs from implementation (spec agrees) on {mode} {form}{xs} {ops}",
                        {"mode": mode, "form": form, "xs": xs, "ops": ops, "impl": impl, "model": model}, no_input=True)

    # L-e2e -------------------------------------------------------------------
    e2e = run_e2e(ctx, res, jinja2)

    res.coverage.update({
        "evaluations": nunit + e2e["renders"],
        "distinct_nontrivial": len(distinct) + e2e["distinct"],
        "rule": (f"L-unit: item lists of length 0-{maxlen} (plus duplicates) as list/tuple/iterator/generator "
                 f"(async: list/generator/async generator) x every query pattern of length <= {qlen} over the "
                 f"12 loop attributes, applied at every iteration / at exactly one iteration / before the first "
                 f"next, with nexts after exhaustion; plus random operation soups. L-e2e: {e2e['rule']}. "
                 "non-trivial = at least one next and one query"),
        "samples": [{"mode": c[0], "form": c[1], "xs": c[2], "ops": [list(o) if isinstance(o, tuple) else o for o in c[3]]}
                    for c in (cases[7], cases[len(cases) // 3], cases[-1])] + e2e["samples"],
        "query_distribution": qdist,
        "unit_cases": nunit,
        "mismatches": mism,
        "e2e": {k: v for k, v in e2e.items() if k not in ("samples", "rule")},
    })


def run_any(mode, form, xs, ops, d):
    if mode == "async":
        return asyncio.run(run_async(form, xs, ops, d))
    return run_sync(form, xs, ops, d)


def spec_of(form, xs, ops, d):
    rep = core.driver_batch([[Atom("loop"), form in ("list", "tuple"), d, xs, [enc_op(o) for o in ops]]])[0]
    return canon(rep[1][1])


def shrink_ops(mode, form, xs, ops, d):
    cur = list(ops)
    changed = True
    while changed and len(cur) > 1:
        changed = False
        for i in range(len(cur) - 1):
            cand = cur[:i] + cur[i + 1:]
            if run_any(mode, form, xs, cand, d)[-1:] != spec_of(form, xs, cand, d)[-1:]:
                cur, changed = cand, True
                break
    return cur


def run_e2e(ctx, res, jinja2):
    rng = ctx.rng("e2e")
    env = jinja2.Environment()
    aenv = jinja2.Environment(enable_async=True)
    n_templates = ctx.pick(120, 1200)
    renders, distinct, samples = 0, set(), []
    jobs = []
    for t in range(n_templates):
        pat = [rng.choice(QUERIES) for _ in range(rng.randrange(1, 5))]
        filt = rng.choice([None, None, "x % 3 != 0", "x > 11", "x < 0"])
        # where the attribute is read: every place that belongs to the scope of THIS loop — also the else branch, the
        # iterable and the filter of a nested loop, and nested non-loop scopes — must see this loop's `loop`
        places = [rng.choice(PLACEMENTS) if rng.random() < 0.45 else PLACEMENTS[0] for _ in pat]
        places = [pl if not (pl[0] == "nested-filter" and q in ("cycle", "changed")) else PLACEMENTS[0] for pl, q in zip(places, pat)]
        body = "|".join(pl[1].replace("E", TEMPLATE_EXPR[q]) for pl, q in zip(places, pat))
        src = "{%% macro wrap() %%}{{ caller() }}{%% endmacro %%}{%% for x in xs%s %%}%s;{%% else %%}E{%% endfor %%}" % (
            f" if {filt}" if filt else "", body)
        upper = [pl[0] == "filter-block" for pl in places]
        for xs in (item_lists(ctx.pick(3, 5)) if t % 6 == 0 else [rng.choice(item_lists(5))]):
            passed = [x for x in xs if filt is None or eval(filt, {"x": x})]
            ops = build_ops(passed, pat, None, extra_next=0)
            # strip the after-exhaustion tail added by build_ops
            ops = ops[: len(passed) * (1 + len(pat))]
            jobs.append((src, xs, passed, pat, ops, filt, upper))
    reqs = [[Atom("loop"), False, 0, passed, [enc_op(o) for o in ops]] for _, _, passed, _, ops, _, _ in jobs]
    # with no loop filter and a list, the real loop is over a sized iterable
    for r, j in zip(reqs, jobs):
        if j[5] is None:
            r[1] = True
    replies = core.driver_batch(reqs)
    for (src, xs, passed, pat, ops, filt, upper), rep in zip(jobs, replies):
        spec = canon(rep[1][1])
        exp = ""
        i = 0
        for _ in passed:
            i += 1  # the next
            exp += "|".join(fmt(spec[i + k]).upper() if upper[k] else fmt(spec[i + k]) for k in range(len(pat))) + ";"
            i += len(pat)
        if not passed:
            exp = "E"
        for envname, e in (("sync", env), ("async", aenv)):
            for form in (("list", "gen") if envname == "sync" else ("list", "agen")):
                if filt is None and form != "list":
                    continue  # expectation above assumes a sized iterable only without a filter; see below
                try:
                    tmpl = e.from_string(src)
                    data = make_iterable(form, xs)
                    got = tmpl.render(xs=data) if envname == "sync" else asyncio.run(tmpl.render_async(xs=data))
                except Exception as ex:  # noqa
                    got = f"raised:{type(ex).__name__}:{ex}"
                renders += 1
                distinct.add((src, tuple(xs), envname, form))
                if got != exp:
                    key = f"C07:e2e:{envname}:" + ("filter" if filt else "plain") + ("" if passed else ":else")
                    res.violate(key, f"{envname} render of {src!r} with xs={form}{xs} gave {got!r}, documented {exp!r}",
                                {"src": src, "xs": xs, "form": form, "env": envname, "got": got, "expected": exp})
        if len(samples) < 2:
            samples.append({"src": src, "xs": xs, "expected": exp})
    # unsized iterables without filter, both environments (length must still be right)
    for xs in item_lists(4):
        for form, envname, e in (("gen", "sync", env), ("iter", "sync", env), ("agen", "async", aenv), ("gen", "async", aenv)):
            src = "{% for x in xs %}{{ loop.index }}/{{ loop.length }}:{{ loop.revindex }}:{{ loop.last }}:{{ loop.nextitem|default('U') }};{% else %}E{% endfor %}"
            n = len(xs)
            exp = "".join(f"{i + 1}/{n}:{n - i}:{i == n - 1}:{xs[i + 1] if i + 1 < n else 'U'};" for i in range(n)) or "E"
            tmpl = e.from_string(src)
            try:
                got = tmpl.render(xs=make_iterable(form, xs)) if envname == "sync" else asyncio.run(tmpl.render_async(xs=make_iterable(form, xs)))
            except Exception as ex:  # noqa
                got = f"raised:{type(ex).__name__}"
            renders += 1
            distinct.add((src, tuple(xs), envname, form))
            if got != exp:
                res.violate(f"C07:e2e:{envname}:unsized", f"{envname} render over {form}{xs}: {got!r} != {exp!r}",
                            {"src": src, "xs": xs, "form": form, "env": envname, "got": got, "expected": exp})
    # recursive loops: depth at nesting level d is d+1
    rsrc = "{% for n in tree recursive %}{{ loop.depth }}.{{ loop.depth0 }}.{{ loop.index }}/{{ loop.length }}:{{ n.v }}[{{ loop(n.c) }}]{% endfor %}"

    def gen_tree(depth):
        return [{"v": rng.randrange(9), "c": gen_tree(depth - 1) if depth > 0 and rng.random() < 0.7 else []}
                for _ in range(rng.randrange(0, 4))]

    def expect(tree, d):
        return "".join(f"{d + 1}.{d}.{i + 1}/{len(tree)}:{n['v']}[{expect(n['c'], d + 1)}]" for i, n in enumerate(tree))

    for _ in range(ctx.pick(40, 400)):
        tree = gen_tree(3)
        for envname, e in (("sync", env), ("async", aenv)):
            tmpl = e.from_string(rsrc)
            try:
                got = tmpl.render(tree=tree) if envname == "sync" else asyncio.run(tmpl.render_async(tree=tree))
            except Exception as ex:  # noqa
                got = f"raised:{type(ex).__name__}"
            renders += 1
            distinct.add((rsrc, repr(tree), envname))
            if got != expect(tree, 0):
                res.violate(f"C07:e2e:{envname}:recursive", f"recursive loop over {tree}: {got!r} != {expect(tree, 0)!r}",
                            {"src": rsrc, "tree": tree, "env": envname, "got": got})
    return {"renders": renders, "distinct": len(distinct), "templates": n_templates, "samples": samples,
            "rule": (f"{n_templates} random loop bodies printing 1-4 loop attributes, each read directly or from a nested scope of the "
                     "same loop (if, with, set block, filter block, call block, else branch / iterable / filter of a nested loop), "
                     "with/without a loop filter and an "
                     "else branch, rendered in sync and async environments over lists/generators/async generators; "
                     "unsized iterables; random recursive trees (depth <= 4)")}


def replay(ctx, case):
    c = case["case"]
    if "ops" in c:
        ops = [tuple(o) if isinstance(o, list) else o for o in c["ops"]]
        return {"impl": run_any(c["mode"], c["form"], c["xs"], ops, c.get("depth0", 0)),
                "spec": spec_of(c["form"], c["xs"], ops, c.get("depth0", 0))}
    return c
