"""C07 — LoopContext / AsyncLoopContext ≡ loop specification (L-unit exhaustive + L-e2e)."""
from __future__ import annotations

import asyncio
import itertools

from harness import core
from harness.core import Atom

ID = "C07"
LEAN_MODULES = ["JinjaV.Props.C07"]
LEVEL = "proof"
TRUSTED = [
    "Model/Loop.lean is a hand transcription of runtime.py:394-659, tied by this correspondence run",
    "the for-loop driver in generated code (visit_For) is exercised end-to-end only, not modelled",
]
ASSUMPTIONS = ["items are plain values (ints); the iterable's own __len__/__iter__ are consistent with each other"]

QUERIES = ["length", "revindex", "revindex0", "first", "last", "previtem", "nextitem", "index", "index0",
           "depth", "cycle", "changed"]


def enc_op(op):
    if isinstance(op, tuple):
        return [Atom(op[0]), *op[1:]]
    return Atom(op)


def canon(o):
    if isinstance(o, list):
        return [canon(x) for x in o]
    return str(o) if isinstance(o, Atom) else o


def classify(v, Undefined, missing):
    if isinstance(v, Undefined):
        return "undef"
    if v is missing:
        return "missing"
    if isinstance(v, bool):
        return ["bool", v]
    return None


def do_query(lc, q, Undefined, missing):
    """one attribute query on a real (sync) LoopContext"""
    name = q[0] if isinstance(q, tuple) else q
    if name == "cycle":
        try:
            return ["val", lc.cycle(*q[1:])]
        except TypeError:
            return "typeError"
    if name == "changed":
        return ["bool", lc.changed(*q[1:])]
    v = getattr(lc, name)
    c = classify(v, Undefined, missing)
    if c is not None:
        return c
    if name in ("previtem", "nextitem"):
        return ["val", v]
    return ["int", v]


async def do_query_async(lc, q, Undefined, missing):
    name = q[0] if isinstance(q, tuple) else q
    if name == "cycle":
        try:
            return ["val", lc.cycle(*q[1:])]
        except TypeError:
            return "typeError"
    if name == "changed":
        return ["bool", lc.changed(*q[1:])]
    v = getattr(lc, name)
    if asyncio.iscoroutine(v):
        v = await v
    c = classify(v, Undefined, missing)
    if c is not None:
        return c
    if name in ("previtem", "nextitem"):
        return ["val", v]
    return ["int", v]


FORMS = ["list", "tuple", "iter", "gen"]


def make_iterable(form, xs):
    if form == "list":
        return list(xs)
    if form == "tuple":
        return tuple(xs)
    if form == "iter":
        return iter(list(xs))
    if form == "gen":
        return (x for x in list(xs))
    if form == "agen":
        async def ag():
            for x in list(xs):
                yield x
        return ag()
    raise AssertionError(form)


def run_sync(form, xs, ops, depth0):
    from jinja2.runtime import LoopContext, Undefined
    from jinja2.utils import missing

    lc = LoopContext(make_iterable(form, xs), Undefined, None, depth0)
    outs = []
    for op in ops:
        try:
            if op == "next":
                try:
                    v, lc2 = next(lc)
                    outs.append(["item", v] if lc2 is lc else "bad-self")
                except StopIteration:
                    outs.append("stop")
            else:
                outs.append(do_query(lc, op, Undefined, missing))
        except Exception as e:  # noqa
            outs.append(f"raised:{type(e).__name__}")
    return outs


async def run_async(form, xs, ops, depth0):
    from jinja2.runtime import AsyncLoopContext, Undefined
    from jinja2.utils import missing

    lc = AsyncLoopContext(make_iterable(form, xs), Undefined, None, depth0)
    outs = []
    for op in ops:
        try:
            if op == "next":
                try:
                    v, lc2 = await lc.__anext__()
                    outs.append(["item", v] if lc2 is lc else "bad-self")
                except StopAsyncIteration:
                    outs.append("stop")
            else:
                outs.append(await do_query_async(lc, op, Undefined, missing))
        except Exception as e:  # noqa
            outs.append(f"raised:{type(e).__name__}")
    return outs


def concrete(q, x):
    if q == "cycle":
        return ("cycle", 1, 2, 3)
    if q == "changed":
        return ("changed", (x if x is not None else 0) % 2)
    return q


def build_ops(xs, pattern, only_at, extra_next=1):
    """next, queries, next, queries, … ; `only_at` = None (every iteration) | j (only in iteration j, -1 = before
    the first next)"""
    ops = []
    if only_at == -1:
        ops += [concrete(q, None) for q in pattern]
    for j, x in enumerate(xs):
        ops.append("next")
        if only_at is None or only_at == j:
            ops += [concrete(q, x) for q in pattern]
    ops += ["next"] * extra_next
    if only_at is None:
        ops += [concrete(q, None) for q in pattern]  # queries after exhaustion
        ops.append("next")
    return ops


def item_lists(maxlen):
    out = []
    for n in range(maxlen + 1):
        out.append(list(range(10, 10 + n)))
    out += [[5, 5], [5, 5, 6, 6, 5], [0, 0, 0]]
    return out


TEMPLATE_EXPR = {
    "length": "loop.length", "revindex": "loop.revindex", "revindex0": "loop.revindex0", "first": "loop.first",
    "last": "loop.last", "previtem": "loop.previtem|default('U')", "nextitem": "loop.nextitem|default('U')",
    "index": "loop.index", "index0": "loop.index0", "depth": "loop.depth", "cycle": "loop.cycle(1, 2, 3)",
    "changed": "loop.changed(x % 2)",
}


# (name, template around the expression E) — E is evaluated exactly once per iteration in each of them, except in
# nested-filter (twice: in the iterable, which is this loop's scope, and in the filter; equal values print it once)
PLACEMENTS = [
    ("plain", "{{ E }}"),
    ("if", "{% if true %}{{ E }}{% endif %}"),
    ("with", "{% with w = E %}{{ w }}{% endwith %}"),
    ("set-block", "{% set w %}{{ E }}{% endset %}{{ w }}"),
    ("filter-block", "{% filter upper %}{{ E }}{% endfilter %}"),
    ("call-block", "{% call wrap() %}{{ E }}{% endcall %}"),
    ("nested-else", "{% for y in [] %}{{ y }}{% else %}{{ E }}{% endfor %}"),
    ("nested-else-deep", "{% if true %}{% for y in () %}-{% else %}{% if true %}{{ E }}{% endif %}{% endfor %}{% endif %}"),
    ("nested-iter", "{% for y in [E] %}{{ y }}{% endfor %}"),
    ("nested-filter", "{% for y in [E] if (E)|string == y|string %}{{ y }}{% endfor %}"),
]


def fmt(o):
    if o == "undef":
        return "U"
    if isinstance(o, list):
        return str(o[1])
    return str(o)


def run(ctx, res):
    jinja2 = core.import_jinja()
    maxlen = ctx.pick(4, 6)
    qlen = ctx.pick(2, 3)
    patterns = [()]
    for n in range(1, qlen + 1):
        patterns += list(itertools.product(QUERIES, repeat=n))
    lists = item_lists(maxlen)
    cases = []   # (mode, form, xs, ops, depth0)
    rng = ctx.rng("unit")
    for xs in lists:
        for pi, pat in enumerate(patterns):
            # every form sees every short pattern; long patterns are spread round-robin over forms
            forms = FORMS if len(pat) <= 1 else [FORMS[(pi + len(xs)) % 4]]
            for form in forms:
                cases.append(("sync", form, xs, build_ops(xs, pat, None), 0))
                if pat:
                    for j in ([-1] + list(range(len(xs)))) if len(pat) <= ctx.pick(1, 2) else [rng.randrange(-1, max(len(xs), 1))]:
                        cases.append(("sync", form, xs, build_ops(xs, pat, j), 1))
            if len(pat) <= ctx.pick(1, 2):
                for form in ("list", "agen", "gen"):
                    cases.append(("async", form, xs, build_ops(xs, pat, None), 0))
                    if pat and xs:
                        cases.append(("async", form, xs, build_ops(xs, pat, rng.randrange(len(xs))), 2))
    # random op soups (queries in arbitrary places, repeated nexts after exhaustion)
    for i in range(ctx.pick(3000, 40000)):
        xs = [rng.randrange(4) for _ in range(rng.randrange(0, 7))]
        ops = []
        for _ in range(rng.randrange(1, 25)):
            if rng.random() < 0.35:
                ops.append("next")
            else:
                q = rng.choice(QUERIES)
                if q == "cycle":
                    ops.append(("cycle", *[rng.randrange(9) for _ in range(rng.randrange(0, 4))]))
                elif q == "changed":
                    ops.append(("changed", *[rng.randrange(2) for _ in range(rng.randrange(0, 3))]))
                else:
                    ops.append(q)
        mode = "async" if i % 4 == 0 else "sync"
        form = rng.choice(FORMS if mode == "sync" else ["list", "agen", "gen", "iter"])
        cases.append((mode, form, xs, ops, rng.randrange(3)))

    reqs = [[Atom("loop"), form in ("list", "tuple"), d, xs, [enc_op(o) for o in ops]] for _, form, xs, ops, d in cases]
    replies = core.driver_batch(reqs)

    async def all_async():
        return [await run_async(form, xs, ops, d) if mode == "async" else None for mode, form, xs, ops, d in cases]

    async_outs = asyncio.run(all_async())
    qdist, nunit, mism = {}, 0, 0
    distinct = set()
    for (mode, form, xs, ops, d), rep, ao in zip(cases, replies, async_outs):
        if rep[0] != "ok":
            raise core.HarnessError(f"driver rejected {ops}: {rep}")
        model, spec = canon(rep[1][0]), canon(rep[1][1])
        impl = ao if mode == "async" else run_sync(form, xs, ops, d)
        nunit += 1
        distinct.add((mode, form, tuple(xs), tuple(ops), d))
        for o in ops:
            n = o[0] if isinstance(o, tuple) else o
            qdist[n] = qdist.get(n, 0) + 1
        if impl != spec:
            mism += 1
            k = next((i for i, (a, b) in enumerate(zip(impl, spec)) if a != b), 0)
            opn = ops[k][0] if isinstance(ops[k], tuple) else ops[k]
            key = f"C07:{'async-' if mode == 'async' else ''}unit:{opn}"
            if not any(v.key == key for v in res.violations) and len(res.violations) < 8:
                sops = shrink_ops(mode, form, xs, ops[: k + 1], d)
                res.violate(key, f"{mode} LoopContext over {form}{xs}: ops {sops} -> {run_any(mode, form, xs, sops, d)[-1]!r}, "
                                 f"documented value {spec_of(form, xs, sops, d)[-1]!r}",
                            {"mode": mode, "form": form, "xs": xs, "ops": [list(o) if isinstance(o, tuple) else o for o in sops], "depth0": d})
        elif impl != model:
            res.violate("C07:model-drift", f"model differs from implementation (spec agrees) on {mode} {form}{xs} {ops}",
                        {"mode": mode, "form": form, "xs": xs, "ops": ops, "impl": impl, "model": model}, no_input=True)

    # L-e2e -------------------------------------------------------------------
    e2e = run_e2e(ctx, res, jinja2)

    res.coverage.update({
        "evaluations": nunit + e2e["renders"],
        "distinct_nontrivial": len(distinct) + e2e["distinct"],
        "rule": (f"L-unit: item lists of length 0-{maxlen} (plus duplicates) as list/tuple/iterator/generator "
                 f"(async: list/generator/async generator) x every query pattern of length <= {qlen} over the "
                 f"12 loop attributes, applied at every iteration / at exactly one iteration / before the first "
                 f"next, with nexts after exhaustion; plus random operation soups. L-e2e: {e2e['rule']}. "
                 "non-trivial = at least one next and one query"),
        "samples": [{"mode": c[0], "form": c[1], "xs": c[2], "ops": [list(o) if isinstance(o, tuple) else o for o in c[3]]}
                    for c in (cases[7], cases[len(cases) // 3], cases[-1])] + e2e["samples"],
        "query_distribution": qdist,
        "unit_cases": nunit,
        "mismatches": mism,
        "e2e": {k: v for k, v in e2e.items() if k not in ("samples", "rule")},
    })


def run_any(mode, form, xs, ops, d):
    if mode == "async":
        return asyncio.run(run_async(form, xs, ops, d))
    return run_sync(form, xs, ops, d)


def spec_of(form, xs, ops, d):
    rep = core.driver_batch([[Atom("loop"), form in ("list", "tuple"), d, xs, [enc_op(o) for o in ops]]])[0]
    return canon(rep[1][1])


def shrink_ops(mode, form, xs, ops, d):
    cur = list(ops)
    changed = True
    while changed and len(cur) > 1:
        changed = False
        for i in range(len(cur) - 1):
            cand = cur[:i] + cur[i + 1:]
            if run_any(mode, form, xs, cand, d)[-1:] != spec_of(form, xs, cand, d)[-1:]:
                cur, changed = cand, True
                break
    return cur


def run_e2e(ctx, res, jinja2):
    rng = ctx.rng("e2e")
    env = jinja2.Environment()
    aenv = jinja2.Environment(enable_async=True)
    n_templates = ctx.pick(120, 1200)
    renders, distinct, samples = 0, set(), []
    jobs = []
    for t in range(n_templates):
        pat = [rng.choice(QUERIES) for _ in range(rng.randrange(1, 5))]
        filt = rng.choice([None, None, "x % 3 != 0", "x > 11", "x < 0"])
        # where the attribute is read: every place that belongs to the scope of THIS loop — also the else branch, the
        # iterable and the filter of a nested loop, and nested non-loop scopes — must see this loop's `loop`
        places = [rng.choice(PLACEMENTS) if rng.random() < 0.45 else PLACEMENTS[0] for _ in pat]
        places = [pl if not (pl[0] == "nested-filter" and q in ("cycle", "changed")) else PLACEMENTS[0] for pl, q in zip(places, pat)]
        body = "|".join(pl[1].replace("E", TEMPLATE_EXPR[q]) for pl, q in zip(places, pat))
        src = "{%% macro wrap() %%}{{ caller() }}{%% endmacro %%}{%% for x in xs%s %%}%s;{%% else %%}E{%% endfor %%}" % (
            f" if {filt}" if filt else "", body)
        upper = [pl[0] == "filter-block" for pl in places]
        for xs in (item_lists(ctx.pick(3, 5)) if t % 6 == 0 else [rng.choice(item_lists(5))]):
            passed = [x for x in xs if filt is None or eval(filt, {"x": x})]
            ops = build_ops(passed, pat, None, extra_next=0)
            # strip the after-exhaustion tail added by build_ops
            ops = ops[: len(passed) * (1 + len(pat))]
            jobs.append((src, xs, passed, pat, ops, filt, upper))
    reqs = [[Atom("loop"), False, 0, passed, [enc_op(o) for o in ops]] for _, _, passed, _, ops, _, _ in jobs]
    # with no loop filter and a list, the real loop is over a sized iterable
    for r, j in zip(reqs, jobs):
        if j[5] is None:
            r[1] = True
    replies = core.driver_batch(reqs)
    for (src, xs, passed, pat, ops, filt, upper), rep in zip(jobs, replies):
        spec = canon(rep[1][1])
        exp = ""
        i = 0
        for _ in passed:
            i += 1  # the next
            exp += "|".join(fmt(spec[i + k]).upper() if upper[k] else fmt(spec[i + k]) for k in range(len(pat))) + ";"
            i += len(pat)
        if not passed:
            exp = "E"
        for envname, e in (("sync", env), ("async", aenv)):
            for form in (("list", "gen") if envname == "sync" else ("list", "agen")):
                if filt is None and form != "list":
                    continue  # expectation above assumes a sized iterable only without a filter; see below
                try:
                    tmpl = e.from_string(src)
                    data = make_iterable(form, xs)
                    got = tmpl.render(xs=data) if envname == "sync" else asyncio.run(tmpl.render_async(xs=data))
                except Exception as ex:  # noqa
                    got = f"raised:{type(ex).__name__}:{ex}"
                renders += 1
                distinct.add((src, tuple(xs), envname, form))
                if got != exp:
                    key = f"C07:e2e:{envname}:" + ("filter" if filt else "plain") + ("" if passed else ":else")
                    res.violate(key, f"{envname} render of {src!r} with xs={form}{xs} gave {got!r}, documented {exp!r}",
                                {"src": src, "xs": xs, "form": form, "env": envname, "got": got, "expected": exp})
        if len(samples) < 2:
            samples.append({"src": src, "xs": xs, "expected": exp})
    # unsized iterables without filter, both environments (length must still be right)
    for xs in item_lists(4):
        for form, envname, e in (("gen", "sync", env), ("iter", "sync", env), ("agen", "async", aenv), ("gen", "async", aenv)):
            src = "{% for x in xs %}{{ loop.index }}/{{ loop.length }}:{{ loop.revindex }}:{{ loop.last }}:{{ loop.nextitem|default('U') }};{% else %}E{% endfor %}"
            n = len(xs)
            exp = "".join(f"{i + 1}/{n}:{n - i}:{i == n - 1}:{xs[i + 1] if i + 1 < n else 'U'};" for i in range(n)) or "E"
            tmpl = e.from_string(src)
            try:
                got = tmpl.render(xs=make_iterable(form, xs)) if envname == "sync" else asyncio.run(tmpl.render_async(xs=make_iterable(form, xs)))
            except Exception as ex:  # noqa
                got = f"raised:{type(ex).__name__}"
            renders += 1
            distinct.add((src, tuple(xs), envname, form))
            if got != exp:
                res.violate(f"C07:e2e:{envname}:unsized", f"{envname} render over {form}{xs}: {got!r} != {exp!r}",
                            {"src": src, "xs": xs, "form": form, "env": envname, "got": got, "expected": exp})
    # recursive loops: depth at nesting level d is d+1
    rsrc = "{% for n in tree recursive %}{{ loop.depth }}.{{ loop.depth0 }}.{{ loop.index }}/{{ loop.length }}:{{ n.v }}[{{ loop(n.c) }}]{% endfor %}"

    def gen_tree(depth):
        return [{"v": rng.randrange(9), "c": gen_tree(depth - 1) if depth > 0 and rng.random() < 0.7 else []}
                for _ in range(rng.randrange(0, 4))]

    def expect(tree, d):
        return "".join(f"{d + 1}.{d}.{i + 1}/{len(tree)}:{n['v']}[{expect(n['c'], d + 1)}]" for i, n in enumerate(tree))

    for _ in range(ctx.pick(40, 400)):
        tree = gen_tree(3)
        for envname, e in (("sync", env), ("async", aenv)):
            tmpl = e.from_string(rsrc)
            try:
                got = tmpl.render(tree=tree) if envname == "sync" else asyncio.run(tmpl.render_async(tree=tree))
            except Exception as ex:  # noqa
                got = f"raised:{type(ex).__name__}"
            renders += 1
            distinct.add((rsrc, repr(tree), envname))
            if got != expect(tree, 0):
                res.violate(f"C07:e2e:{envname}:recursive", f"recursive loop over {tree}: {got!r} != {expect(tree, 0)!r}",
                            {"src": rsrc, "tree": tree, "env": envname, "got": got})
    # recursive loops with an else clause (nested loop(children) over empty sized containers / undefined, all routes)
    rel = run_recursive_else(ctx, res, jinja2, env, aenv)
    renders += rel["renders"]
    samples = samples + rel["samples"][:1]
    return {"renders": renders, "distinct": len(distinct) + rel["distinct"], "templates": n_templates, "samples": samples,
            "recursive_else": {k: v for k, v in rel.items() if k != "samples"},
            "rule": (f"{n_templates} random loop bodies printing 1-4 loop attributes, each read directly or from a nested scope of the "
                     "same loop (if, with, set block, filter block, call block, else branch / iterable / filter of a nested loop), "
                     "with/without a loop filter and an "
                     "else branch, rendered in sync and async environments over lists/generators/async generators; "
                     "unsized iterables; random recursive trees (depth <= 4); "
                     f"recursive loops WITH an else clause over {rel['trees']} trees whose leaves pass an empty list / tuple / dict / "
                     "str / undefined to loop(children) (6 bodies x 3 else texts x optional loop filter): the nested call must "
                     "equal the same loop run at the top level over the same children (one-level unfolding, built from "
                     "top-level renders only), and sized / generator / iterator / async-generator forms of the tree must "
                     "agree, sync and async")}


# ---------------------------------------------------------------------------------------------------------------
# recursive loops WITH an else clause: a nested loop(children) call is the same loop as the top-level one
# ---------------------------------------------------------------------------------------------------------------
# abstract tree: container = {"k": kind, "c": [node, …]}, node = {"v": int, "kids": container}
#   kind of an EMPTY container: list [] | tuple () | dict {} | str '' | undef (the node has no 'kids' key; at the top level the
#   variable `tree` is not passed) ; kind of a non-empty container: list | tuple
EMPTY_KINDS = ["list", "tuple", "dict", "str", "undef"]

# (name, loop body, with @C@ standing for the nested call / the already rendered children)
REC_BODIES = [
    ("depth", "[{{ loop.depth0 + base }}:{{ n.v }}@C@]"),
    ("depth1-index", "[{{ loop.depth + base }}.{{ loop.index }}/{{ loop.length }}:{{ n.v }}@C@]"),
    ("call-first", "(@C@{{ n.v }}{{ ',' if not loop.last }})"),
    ("set", "{% set r %}@C@{% endset %}[{{ n.v }}{{ r }}{{ loop.revindex }}]"),
    ("if-guard-free", "{% if loop.first %}^{% endif %}{{ n.v }}<@C@>"),
    ("nextitem", "[{{ n.v }}>{{ (loop.nextitem|default({'v': 'U'})).v }}@C@]"),
]
# the else text must not mention `base` (the nested call keeps the render's base, only loop.depth moves) nor `loop`
REC_ELSES = ["<leaf>", "<e{{ 7 * 6 }}>", "{% if true %}-{% endif %}"]
REC_FILTERS = [None, None, None, "n.v != 0", "n.v % 2 == 1", "n.v < 0"]


def rec_sources(body, els, filt):
    """(recursive template, its one-level unfolding): the unfolding is the SAME loop without `recursive`, where the nested
    call loop(n.kids) is replaced by n.sub, the rendering of the children obtained from a top-level render"""
    head = "{%% for n in tree%s%s %%}"
    tail = "{% else %}" + els + "{% endfor %}"
    f = f" if {filt}" if filt else ""
    rec = head % (f, " recursive") + body.replace("@C@", "{{ loop(n.kids) }}") + tail
    flat = head % (f, "") + body.replace("@C@", "{{ n.sub }}") + tail
    return rec, flat


def rec_materialize(cont, form, with_sub=None):
    """abstract container -> value handed to jinja.  form: sized | gen | iter | agen.  `with_sub`: list of strings, one per node,
    stored as node['sub'] (nodes then carry no kids).  Returns `missing` marker (None) for an undefined container in sized form."""
    nodes = []
    for i, n in enumerate(cont["c"]):
        d = {"v": n["v"]}
        if with_sub is not None:
            d["sub"] = with_sub[i]
        else:
            k = rec_materialize(n["kids"], form)
            if k is not None:
                d["kids"] = k
        nodes.append(d)
    if form == "sized":
        kind = cont["k"]
        if kind == "undef":
            return None
        if not nodes:
            return {"list": [], "tuple": (), "dict": {}, "str": ""}[kind]
        return tuple(nodes) if kind == "tuple" else nodes
    return make_iterable(form, nodes)


def gen_rec_tree(rng, depth, top=False):
    n = rng.randrange(0, 4) if not top else rng.randrange(0 if rng.random() < 0.15 else 1, 4)
    if depth <= 0 or (not top and rng.random() < 0.35):
        n = 0
    nodes = [{"v": rng.randrange(5), "kids": gen_rec_tree(rng, depth - 1)} for _ in range(n)]
    return {"k": rng.choice(EMPTY_KINDS) if not nodes else rng.choice(["list", "tuple"]), "c": nodes}


def rec_size(cont):
    return 1 + sum(rec_size(n["kids"]) for n in cont["c"])


def rec_empty_kinds(cont):
    out = set()
    for n in cont["c"]:
        if not n["kids"]["c"]:
            out.add(n["kids"]["k"])
        out |= rec_empty_kinds(n["kids"])
    return out


class RecRenderer:
    def __init__(self, env, aenv):
        self.envs = {"sync": env, "async": aenv}
        self.cache = {}
        self.aloop = asyncio.new_event_loop()
        self.renders = 0

    def close(self):
        self.aloop.close()

    def render(self, envname, src, tree, base):
        key = (envname, src)
        try:
            t = self.cache.get(key)
            if t is None:
                t = self.cache[key] = self.envs[envname].from_string(src)
            kw = {"base": base}
            if tree is not None:
                kw["tree"] = tree
            self.renders += 1
            if envname == "sync":
                return t.render(**kw)
            return self.aloop.run_until_complete(t.render_async(**kw))
        except Exception as ex:  # noqa
            return f"raised:{type(ex).__name__}:{ex}"

    def full(self, envname, rec, cont, form, base=0):
        return self.render(envname, rec, rec_materialize(cont, form), base)

    def unfolded(self, envname, flat, cont, base=0):
        """the rendering of the loop over `cont` built ONLY from top-level (non-recursive) renders: children first, then this level
        with their renderings plugged in as n.sub"""
        subs = [self.unfolded(envname, flat, n["kids"], base + 1) for n in cont["c"]]
        return self.render(envname, flat, rec_materialize(cont, "sized", with_sub=subs), base)


def rec_locate(rr, envname, rec, flat, cont, base):
    """smallest sub-container on which the recursive render and its unfolding still differ"""
    for n in cont["c"]:
        k = n["kids"]
        if rr.full(envname, rec, k, "sized", base + 1) != rr.unfolded(envname, flat, k, base + 1):
            return rec_locate(rr, envname, rec, flat, k, base + 1)
    # drop siblings that are not needed
    cur = cont
    changed = True
    while changed and len(cur["c"]) > 1:
        changed = False
        for i in range(len(cur["c"])):
            cand = {"k": cur["k"], "c": cur["c"][:i] + cur["c"][i + 1:]}
            if rr.full(envname, rec, cand, "sized", base) != rr.unfolded(envname, flat, cand, base):
                cur, changed = cand, True
                break
    return cur, base


def run_recursive_else(ctx, res, jinja2, env, aenv):
    rng = ctx.rng("e2e-recursive-else")
    rr = RecRenderer(env, aenv)
    n_trees = ctx.pick(150, 1500)
    distinct, kinds_hit, leaf_calls, samples = set(), {}, 0, []
    combos = [(b, e, f) for b in REC_BODIES for e in REC_ELSES for f in REC_FILTERS]
    try:
        # every empty kind directly below a one-node top level, every body: the smallest members of the family, always run
        fixed = [{"k": "list", "c": [{"v": 1, "kids": {"k": k, "c": []}}]} for k in EMPTY_KINDS]
        fixed += [{"k": k, "c": []} for k in EMPTY_KINDS]
        work = [(t, (b, REC_ELSES[0], None)) for t in fixed for b in REC_BODIES]
        work += [(gen_rec_tree(rng, 3, top=True), rng.choice(combos)) for _ in range(n_trees)]
        for cont, ((bname, body), els, filt) in work:
            rec, flat = rec_sources(body, els, filt)
            for k in rec_empty_kinds(cont):
                kinds_hit[k] = kinds_hit.get(k, 0) + 1
            leaf_calls += sum(1 for _ in _leaves(cont))
            outs = {}
            for envname in ("sync", "async"):
                got = rr.full(envname, rec, cont, "sized")
                exp = rr.unfolded(envname, flat, cont)
                outs[(envname, "sized")] = got
                distinct.add((rec, repr(cont), envname, "sized"))
                if got != exp:
                    small, base = rec_locate(rr, envname, rec, flat, cont, 0)
                    ek = sorted(rec_empty_kinds(small))
                    key = f"C07:e2e:{envname}:recursive-else:" + (f"nested-empty-{ek[0]}" if ek else "nested")
                    sg = rr.full(envname, rec, small, "sized", base)
                    se = rr.unfolded(envname, flat, small, base)
                    res.violate(key, f"{envname} render of {rec!r} (base={base}) over tree {rec_show(small)}: nested loop(n.kids) "
                                     f"gave {sg!r}, the same loop run at the top level over the same children gives {se!r}",
                                {"rec_src": rec, "flat_src": flat, "tree": small, "base": base, "env": envname, "form": "sized",
                                 "got": sg, "expected": se})
            # the other routes: every container as generator / iterator (sync, async) and as async generator (async)
            for envname, form in (("sync", "gen"), ("sync", "iter"), ("async", "gen"), ("async", "agen")):
                outs[(envname, form)] = rr.full(envname, rec, cont, form)
                distinct.add((rec, repr(cont), envname, form))
            ref = outs[("sync", "gen")]
            for (envname, form), got in outs.items():
                if got != ref:
                    ek = sorted(rec_empty_kinds(cont))
                    key = f"C07:e2e:{envname}:recursive-else:form-{form}"
                    res.violate(key, f"{envname} render of {rec!r} over tree {rec_show(cont)} with every container as {form}: "
                                     f"{got!r}, but with every container as a generator (sync): {ref!r}"
                                     + (f" (empty sized children present: {ek})" if ek else ""),
                                {"rec_src": rec, "tree": cont, "base": 0, "env": envname, "form": form, "got": got,
                                 "expected": ref})
            if len(samples) < 2 and rec_size(cont) > 3:
                samples.append({"src": rec, "tree": rec_show(cont), "expected": ref})
    finally:
        rr.close()
    return {"renders": rr.renders, "distinct": len(distinct), "trees": len(work), "empty_kinds_hit": kinds_hit,
            "nested_calls_on_empty": leaf_calls, "samples": samples}


def _leaves(cont):
    for n in cont["c"]:
        if not n["kids"]["c"]:
            yield n
        yield from _leaves(n["kids"])


def rec_show(cont):
    """compact text of an abstract tree: v(children) ; empty containers by kind"""
    if not cont["c"]:
        return {"list": "[]", "tuple": "()", "dict": "{}", "str": "''", "undef": "<undefined>"}[cont["k"]]
    o, c = ("(", ")") if cont["k"] == "tuple" else ("[", "]")
    return o + ", ".join(f"{{v: {n['v']}, kids: {rec_show(n['kids'])}}}" for n in cont["c"]) + c


def replay(ctx, case):
    c = case["case"]
    if "ops" in c:
        ops = [tuple(o) if isinstance(o, list) else o for o in c["ops"]]
        return {"impl": run_any(c["mode"], c["form"], c["xs"], ops, c.get("depth0", 0)),
                "spec": spec_of(c["form"], c["xs"], ops, c.get("depth0", 0))}
    if "rec_src" in c:
        jinja2 = core.import_jinja()
        rr = RecRenderer(jinja2.Environment(), jinja2.Environment(enable_async=True))
        try:
            out = {"got": rr.full(c["env"], c["rec_src"], c["tree"], c["form"], c.get("base", 0))}
            if "flat_src" in c:
                out["top_level_unfolding"] = rr.unfolded(c["env"], c["flat_src"], c["tree"], c.get("base", 0))
            else:
                out["sync_generator_form"] = rr.full("sync", c["rec_src"], c["tree"], "gen", c.get("base", 0))
        finally:
            rr.close()
        return out
    return c
