"""C22 — collection filters: contracts proved on the model, model tied to filters.py."""
from __future__ import annotations

import asyncio
import itertools
import json

import translate.attr_getter
import translate.filter_mutators
from harness import core
from harness.core import Atom
from harness.props import c22_attr, c22_frame

ID = "C22"
LEAN_MODULES = ["JinjaV.Props.C22", "JinjaV.Props.C22Frame", "JinjaV.Props.C22Attr"]
GEN = [translate.filter_mutators.gen, translate.attr_getter.gen]
LEVEL = "proof"
TRUSTED = [
    "Model/FiltColl.lean is a hand transcription of do_slice, do_batch, do_unique, do_sort, do_groupby, do_min/max, "
    "do_sum (filters.py), tied by this correspondence run; Python's sorted() is modelled by the stable List.mergeSort",
    "string order: Lean's String < is taken to be Python's code-point order (keys are ASCII); the sort theorems assume a "
    "total transitive <= on keys",
    "reverse/first/last/length/list/join/map/select/reject/selectattr/rejectattr are compared with their Python "
    "definitions directly (no Lean model): correspondence only",
    "frame: the Lean models are pure functions, so 'the arguments are unchanged' is stated as the harness oracle (deep snapshot "
    "of every argument before = after; result is not the argument) in harness/props/c22_frame.py, and statically as "
    "Props/C22Frame.lean over Gen/FilterMutators.lean; the may-alias analysis of translate/filter_mutators.py (which builtins "
    "build a new container, which methods mutate) is trusted",
    "attribute paths: Val / getitem of Model/FiltColl.lean model Environment.getitem on str-keyed dicts, plain objects, lists, "
    "strings, ints and None for part names that are not methods of builtin types (hand transcription, tied by correspondence; "
    "the statement skeleton of the getters is read and pinned: Gen/AttrGetter.lean)",
]
ASSUMPTIONS = ["keys are comparable strings / ints (heterogeneous comparisons raise TypeError in Python)"]


class Obj:
    def __init__(self, k, i):
        self.k = k
        self.id = i


def canon(o):
    if isinstance(o, list):
        return [canon(x) for x in o]
    return str(o) if isinstance(o, Atom) else o


_TEMPLATES = {}


def render(env, src, **data):
    try:
        t = _TEMPLATES.get((id(env), src))      # the same source compiled once per environment (speed only)
        if t is None:
            t = _TEMPLATES[(id(env), src)] = env.from_string(src)
        if env.is_async:
            return asyncio.run(t.render_async(**data))
        return t.render(**data)
    except Exception as e:  # noqa
        return f"raised:{type(e).__name__}:{e}"


def agen(xs):
    async def g():
        for x in xs:
            yield x
    return g()


FORMS = {"list": lambda xs: list(xs), "gen": lambda xs: (x for x in list(xs)), "tuple": lambda xs: tuple(xs)}


def run(ctx, res):
    jinja2 = core.import_jinja()
    env = jinja2.Environment()
    aenv = jinja2.Environment(enable_async=True)
    rng = ctx.rng("c22")
    reqs, jobs = [], []

    def add(req, src, data_fn, kind):
        reqs.append(req)
        jobs.append((src, data_fn, kind, req))

    # slice / batch: exhaustive lengths 0-7 x sizes 1-8 x fill none/value --------------------------
    maxlen = ctx.pick(7, 10)
    for n in range(maxlen + 1):
        xs = list(range(n))
        for size in range(1, 9):
            for fill in (None, 77):
                f = Atom("none") if fill is None else fill
                fa = "" if fill is None else ", 77"
                add([Atom("filt"), Atom("slice"), xs, size, f], "{{ xs|slice(%d%s)|list|tojson }}" % (size, fa), lambda xs=xs: {"xs": xs}, "slice")
                add([Atom("filt"), Atom("batch"), xs, size, f], "{{ xs|batch(%d%s)|list|tojson }}" % (size, fa), lambda xs=xs: {"xs": xs}, "batch")
    # keyed filters over items with duplicate / mixed-case keys ---------------------------------------
    keypool = ["a", "B", "b", "A", "ab", "Ab", "c", "10", "9", "aB"]
    item_lists = [[]]
    for n in range(1, ctx.pick(4, 5)):
        for ks in itertools.product(keypool[:5], repeat=n):
            item_lists.append(list(ks))
    for _ in range(ctx.pick(400, 4000)):
        item_lists.append([rng.choice(keypool) for _ in range(rng.randrange(0, 9))])
    for ks in item_lists:
        items = [[k, i] for i, k in enumerate(ks)]
        mk = (lambda ks=ks: {"xs": [Obj(k, i) for i, k in enumerate(ks)]})
        for cs in (False, True):
            cst = "true" if cs else "false"
            add([Atom("filt"), Atom("unique"), items, cs], "{{ xs|unique(case_sensitive=%s, attribute='k')|map(attribute='id')|list|tojson }}" % cst, mk, "unique")
            for rev in (False, True):
                add([Atom("filt"), Atom("sort"), items, rev, cs],
                    "{{ xs|sort(reverse=%s, case_sensitive=%s, attribute='k')|map(attribute='id')|list|tojson }}" % ("true" if rev else "false", cst), mk, "sort")
            add([Atom("filt"), Atom("groupby"), items, cs],
                "[{% for g in xs|groupby('k', case_sensitive=" + cst + ") %}{{ g.list|map(attribute='id')|list|tojson }}{% if not loop.last %}, {% endif %}{% endfor %}]", mk, "groupby")
            add([Atom("filt"), Atom("min"), items, cs], "{%% set m = xs|min(case_sensitive=%s, attribute='k') %%}{{ (m.id if m is defined else 'none')|tojson }}" % cst, mk, "min")
            add([Atom("filt"), Atom("max"), items, cs], "{%% set m = xs|max(case_sensitive=%s, attribute='k') %%}{{ (m.id if m is defined else 'none')|tojson }}" % cst, mk, "max")
    for _ in range(ctx.pick(200, 2000)):
        xs = [rng.randrange(-5, 20) for _ in range(rng.randrange(0, 8))]
        st = rng.randrange(-3, 4)
        add([Atom("filt"), Atom("sum"), xs, st], "{{ xs|sum(start=%d)|tojson }}" % st, lambda xs=xs: {"xs": xs}, "sum")

    replies = core.driver_batch(reqs)
    kinds, evaluations, distinct = {}, 0, set()
    for (src, data_fn, kind, req), rep in zip(jobs, replies):
        if rep[0] == "err":
            want = "raised"
        else:
            want = canon(rep[1])
            if want == "none":
                want = "none"
        kinds[kind] = kinds.get(kind, 0) + 1
        for envname, e in (("sync", env), ("async", aenv)):
            forms = ["list", "gen"] if kind in ("slice", "batch", "sum", "sort", "unique") else ["list"]
            has_async = getattr(e.filters[kind], "jinja_async_variant", False)
            for form in forms + (["agen"] if envname == "async" and has_async else []):
                data = data_fn()
                data["xs"] = agen(data["xs"]) if form == "agen" else FORMS[form](data["xs"])
                out = render(e, src, **data)
                evaluations += 1
                distinct.add((src, core.sx(req), envname, form))
                if out.startswith("raised"):
                    got = "raised"
                else:
                    try:
                        got = json.loads(out)
                    except Exception:  # noqa
                        got = out
                if got != want:
                    res.violate(f"C22:{kind}:{envname}" + (":" + form if form != "list" else ""),
                                f"{envname} {src!r} on {core.sx(req[2])} ({form}) gives {out!r}; contract {want!r}",
                                {"src": src, "request": core.sx(req), "env": envname, "form": form})
    direct = run_direct(ctx, res, jinja2, env, aenv)
    frame = c22_frame.run_frame(ctx, res, jinja2, env, aenv)
    attr = c22_attr.run_attr(ctx, res, jinja2)
    res.coverage.update({
        "evaluations": evaluations + direct["evaluations"] + frame["unit_calls"] + frame["template_renders"] + attr["evaluations"],
        "distinct_nontrivial": len(distinct) + direct["distinct"] + frame["distinct"] + attr["distinct"],
        "rule": (f"slice/batch: every length 0-{maxlen} x sizes 1-8 x fill none/value (exhaustive); unique/sort/groupby/min/max: "
                 "every key list of length < 4/5 over 5 mixed-case keys plus random longer lists, case sensitive and not, "
                 "reverse; sum: random int lists; each rendered through the real filter in sync and async environments over "
                 "lists, generators and async generators, compared with the Lean model whose contracts are the theorems; "
                 "remaining filters compared with their Python definitions. FRAME: for each of the 22 collection filter names "
                 "random element lists (ints, mixed-case strings, nested lists, [key, n] pairs, records with a nested list, dict "
                 "items; length 0-8) x generated arguments (fill / start / default / test arguments also as mutable lists) x "
                 "container form (list, tuple, list subclass, dict values view, dict, generator, async generator) x sync/async "
                 "environment: every argument is deep-snapshotted before the direct call (Environment.call_filter, async variants "
                 "driven by asyncio.run) and compared after the result was consumed; new-object filters must not return the "
                 "argument and reversing/appending to the result must leave the snapshot unchanged; results equal across "
                 "variants; the same through templates that dump the variables after the filter (expr / for-loop / set+append "
                 "shapes); non-trivial = at least 2 elements; plus auto_to_list on every form. ATTRIBUTE PATHS: random cases = a "
                 "dotted path of 1-3 parts (names from a pool avoiding builtin method names, integer parts, attribute given as int) "
                 "x 0-6 items built along the path from dicts, plain objects, dicts in objects, lists, indexed strings, with the "
                 "first / a middle / the last part missing on some items (key absent, list too short, scalar or None instead of a "
                 "container) x default absent / None / falsy / truthy / a container that has a part itself x Undefined / "
                 "ChainableUndefined / StrictUndefined x case_sensitive / reverse / start / separator / second sort column; the Lean "
                 "driver (attrget, mapAttr, groupbyAttr, ...) gives the expected outcome of make_attrgetter per item and of map, "
                 "groupby, unique, sort, min, max, sum, join, selectattr, rejectattr (result, UndefinedError, or outside the model: "
                 "counted, not compared), compared with the real functions directly, through call_filter in sync and async "
                 "environments and through templates (map, groupby, sum, join on JSON-able items)"),
        "samples": [{"request": core.sx(reqs[5]), "src": jobs[5][0]}, {"request": core.sx(reqs[-1]), "src": jobs[-1][0]}],
        "filter_distribution": kinds,
        "direct": direct,
        "frame": frame,
        "attribute_paths": attr,
    })


def run_direct(ctx, res, jinja2, env, aenv):
    """filters whose contract is 'equals the Python definition'"""
    rng = ctx.rng("direct")
    evaluations, distinct = 0, set()
    cases = []
    for _ in range(ctx.pick(150, 1500)):
        xs = [rng.choice([0, 1, 2, 3, -1, 5, 8]) for _ in range(rng.randrange(0, 7))]
        cases.append(xs)
    specs = [
        ("{{ xs|reverse|list|tojson }}", lambda xs: list(reversed(xs))),
        ("{{ xs|first|default('U')|tojson }}", lambda xs: xs[0] if xs else "U"),
        ("{{ xs|last|default('U')|tojson }}", lambda xs: xs[-1] if xs else "U"),
        ("{{ xs|length|tojson }}", lambda xs: len(xs)),
        ("{{ xs|list|tojson }}", lambda xs: list(xs)),
        ("{{ xs|join('-')|tojson }}", lambda xs: "-".join(map(str, xs))),
        ("{{ xs|map('abs')|list|tojson }}", lambda xs: [abs(x) for x in xs]),
        ("{{ xs|select('odd')|list|tojson }}", lambda xs: [x for x in xs if x % 2 == 1]),
        ("{{ xs|reject('odd')|list|tojson }}", lambda xs: [x for x in xs if not x % 2 == 1]),
        ("{{ xs|select|list|tojson }}", lambda xs: [x for x in xs if x]),
        ("{{ xs|select('gt', 1)|list|tojson }}", lambda xs: [x for x in xs if x > 1]),
        ("{{ ds|selectattr('v', 'odd')|map(attribute='v')|list|tojson }}", lambda xs: [x for x in xs if x % 2 == 1]),
        ("{{ ds|rejectattr('v', 'odd')|map(attribute='v')|list|tojson }}", lambda xs: [x for x in xs if not x % 2 == 1]),
        ("{{ ds|selectattr('v')|map(attribute='v')|list|tojson }}", lambda xs: [x for x in xs if x]),
        ("{{ ds|map(attribute='v')|list|tojson }}", lambda xs: list(xs)),
        ("{{ ds|sum(attribute='v')|tojson }}", lambda xs: sum(xs)),
        ("{{ ds|join(',', attribute='v')|tojson }}", lambda xs: ",".join(map(str, xs))),
    ]
    for xs in cases:
        for src, f in specs:
            want = f(xs)
            for envname, e in (("sync", env), ("async", aenv)):
                for form in ("list", "gen") + (("agen",) if envname == "async" else ()):
                    mk = FORMS.get(form, None)
                    data = {"xs": agen(xs) if form == "agen" else mk(xs),
                            "ds": agen([{"v": x} for x in xs]) if form == "agen" else mk([{"v": x} for x in xs])}
                    if form in ("gen", "agen") and ("first" in src or "last" in src or "length" in src):
                        continue  # sized-only / documented to need sequences
                    if form == "agen" and "reverse" in src:
                        continue
                    out = render(e, src, **data)
                    evaluations += 1
                    distinct.add((src, tuple(xs), envname, form))
                    try:
                        got = json.loads(out)
                    except Exception:  # noqa
                        got = out
                    if got != want:
                        res.violate(f"C22:direct:{src.split('|')[1].split('(')[0].strip()}:{envname}:{form}",
                                    f"{envname} {src!r} on {xs} ({form}) gives {out!r}; Python definition {want!r}",
                                    {"src": src, "xs": xs, "env": envname, "form": form})
    return {"evaluations": evaluations, "distinct": len(distinct), "filters": len(specs)}


def replay(ctx, case):
    c = case["case"]
    if isinstance(c, dict) and c.get("mode") == "attr":
        return {"case": c, "now": c22_attr.replay_attr(core.import_jinja(), c)}
    if isinstance(c, dict) and c.get("mode") in ("unit", "template", "auto_to_list"):
        return {"case": c, "now": c22_frame.replay_frame(core.import_jinja(), c)}
    return c
