"""C21 — undefined types: documented operation table (finite, exhaustive), on the objects and THROUGH THE ENGINE.

Proof side: Props/C21.lean (class table of runtime.py = documented table) and Props/C21Engine.lean (the table composed
with the engine's guards — Environment/Sandbox getitem/getattr, do_attr, do_int, do_float, test_iterable, Context.call,
whose `except` tuples and the exception class hierarchy are READ from the source — equals the documented behaviour for
every access chain and every final operation; the hierarchy of exceptions.py is pinned).
"""
from __future__ import annotations

import asyncio
import copy
import logging
import pickle

from harness import core
from harness.core import Atom
from translate import exception_classes as tr_exc
from translate import undefined_table as tr_undef

ID = "C21"
GEN = [tr_undef.gen, tr_exc.gen]
LEAN_MODULES = ["JinjaV.Props.C21", "JinjaV.Props.C21Engine"]
LEVEL = "proof"
TRUSTED = [
    "translator translate/undefined_table.py (class bodies of the undefined types classified by a fixed list of body shapes)",
    "translator translate/exception_classes.py (class statements of exceptions.py, `except` tuples of nine engine functions "
    "whose body shape is compared with the transcribed one, builtin exception bases from the running interpreter)",
    "Python's special-method dispatch (reflected operators, containment falling back to iteration) as modelled in "
    "Model/UndefinedOps.lean — validated by this exhaustive run",
    "which special methods each template construct reaches (Model/UndefinedEngine.lean simpleFinal/final: print->__str__, "
    "if/not->__bool__, for->__iter__/__aiter__, |length->__len__, in->__contains__/__iter__, {x:1}->__hash__, …) and that "
    "hasattr/3-argument getattr swallow AttributeError only — validated by the end-to-end runs",
]
CLAIM = dict(
    category="proof",
    technique="Lean 4 proof by complete finite enumeration (decide +kernel) that the special-method table read from "
              "runtime.py, resolved through Python's dispatch rules, equals the documented operation table; Lean proof "
              "(finite step/final lemmas + induction over access chains) that the table composed with the engine's guards "
              "(except tuples and exception class hierarchy read from the source) equals the documented behaviour for every "
              "template expression; the exception hierarchy pinned by decide + exhaustive runs on the real classes and "
              "through templates (plain/sandboxed, sync/async)",
    text="Theorems (Props/C21.lean) undef_table_eq: for all 8 undefined kinds (default, chainable, debug, strict and their "
         "logging variants) and all 38 operations (print, truth, sync/async iteration, containment, length, equality, hash, "
         "repr, __html__, 14 arithmetic operators in both operand orders, unary, 4 comparisons, int/float/complex, attribute, "
         "dunder attribute, item, call) the outcome obtained by MRO resolution over the regenerated class table equals the "
         "documented table; the enumeration is proved complete. (Props/C21Engine.lean) engine_eq_spec: for a plain and a "
         "sandboxed environment, sync and async, every kind, EVERY chain of accesses (x.k, x['k'], x[non-string key], "
         "x[a:b], x|attr) of any length followed by any of 58 final operations (print, if, not, and, for, length, count, "
         "list, string, ~, e, trim, int, float, default, is defined/undefined/none/iterable, in/not in, ==/!= both orders, "
         "is eq, in [..], 11 binary operators both orders, unary, call, join, dict key, sum, sort) evaluates to the "
         "documented text or raises; engine_error_names_origin: whenever it raises, the error is the original undefined's "
         "(it names the missing variable/attribute/item), never a new undefined made by the engine; step_eq_spec / "
         "final_eq_spec / engine_guards_transparent: no except clause of Environment/SandboxedEnvironment getitem/getattr, "
         "do_attr, do_int, do_float, test_iterable, Context.call catches what an undefined raises; "
         "exception_hierarchy_pinned / exception_classes_listed / undefinedError_escapes_builtin_handlers / "
         "templateNotFound_is_lookup_and_io / hierarchy_closed: each class of exceptions.py is an instance of exactly the "
         "documented classes (UndefinedError of no builtin below Exception that any except clause in src/jinja2 names; "
         "TemplateNotFound of LookupError and IOError). Tie: class table, except tuples, function shapes and class "
         "statements are re-read every run; correspondence exhaustive on real objects (kinds x operations x 4 origins x 6 "
         "operands, copy/deepcopy/pickle, Environment.getitem/getattr of both environment types with 9 keys) and through "
         "templates: every (environment type, sync/async, kind, access chain of length <=1, final) with routes (missing "
         "name, attribute, int/str/tuple/variable key on list/dict/int, inline-if hint, first/last of an empty list, "
         "undefined passed in the context) and concrete keys drawn per case, plus random chains of length 2-4; real "
         "__mro__ of every exception class against the Lean ancestors; error messages must name what is missing.",
    note="Trusted: Lean kernel; translators (body-shape classification, function-shape comparison); Python's "
         "reflected-operator dispatch and the template-construct -> special-method map as modelled (validated end to "
         "end); log records of the logging variants are not part of the compared outcome; operations outside the "
         "documented table (abs, round, range(x), tojson, …) are not claimed.",
    design_ref="§5 C21, design/C21.md",
)
ASSUMPTIONS = ["left operands of reflected operators are ints/floats/None/lists (a str left operand of % formats "
               "without consulting the undefined value: Python semantics outside the engine)"]

OPS = ["str", "bool", "iter", "aiter", "len", "contains", "eq", "ne", "hash", "repr", "html", "add", "radd", "sub",
       "rsub", "mul", "rmul", "truediv", "rtruediv", "floordiv", "rfloordiv", "mod", "rmod", "pow", "rpow", "pos",
       "neg", "lt", "le", "gt", "ge", "int", "float", "complex", "getattr", "getattrDunder", "getitem", "call"]
BIN = {"add": "+", "sub": "-", "mul": "*", "truediv": "/", "floordiv": "//", "mod": "%", "pow": "**",
       "lt": "<", "le": "<=", "gt": ">", "ge": ">="}
OTHERS = [1, 2.5, None, [1], 0, -3]


class ListHandler(logging.Handler):
    def __init__(self):
        super().__init__()
        self.records = []

    def emit(self, r):
        self.records.append(r.getMessage())


def kinds(jinja2):
    from jinja2 import ChainableUndefined, DebugUndefined, StrictUndefined, Undefined, make_logging_undefined

    base = {"default": Undefined, "chainable": ChainableUndefined, "debug": DebugUndefined, "strict": StrictUndefined}
    out = {}
    for n, c in base.items():
        out[n] = (Atom(n), c, None)
    for n, c in base.items():
        lg = logging.Logger("jv-c21-" + n)
        h = ListHandler()
        lg.addHandler(h)
        lg.propagate = False
        out["logging-" + n] = ([Atom("logging"), Atom(n)], make_logging_undefined(lg, c), h)
    return out


ORIGINS = {
    "name": dict(name="missing_var"),
    "attribute": dict(obj=object(), name="nope"),
    "item": dict(obj=[1, 2], name=7),
    "hint": dict(hint="custom hint text"),
}
NEEDLE = {"name": "missing_var", "attribute": "nope", "item": "7", "hint": "custom hint text"}


def perform(cls, kw, op, other):
    """do one operation on a fresh undefined value; returns an outcome name"""
    from jinja2.exceptions import UndefinedError

    u = cls(**kw)
    try:
        if op == "str":
            s = str(u)
            return "emptyString" if s == "" else ("debugString" if s.startswith("{{") and s.endswith("}}") else f"other:{s!r}")
        if op == "bool":
            return "falseValue" if bool(u) is False else "other:True"
        if op == "iter":
            return "emptyIteration" if list(iter(u)) == [] else "other:nonempty"
        if op == "aiter":
            async def drain():
                return [x async for x in u]
            return "emptyAsyncIteration" if asyncio.run(drain()) == [] else "other:nonempty"
        if op == "len":
            return "zero" if len(u) == 0 else "other:len"
        if op == "contains":
            return "emptyIteration" if (other in u) is False else "other:contained"
        if op in ("eq", "ne"):
            same = cls(name="zzz")
            r_same = (u == same) if op == "eq" else (u != same)
            r_val = (u == other) if op == "eq" else (u != other)
            r_sub = (u == _other_kind(cls)) if op == "eq" else (u != _other_kind(cls))
            if op == "eq":
                return "typeIdentity" if (r_same, r_val, r_sub) == (True, False, False) else f"other:{(r_same, r_val, r_sub)}"
            return "notTypeIdentity" if (r_same, r_val, r_sub) == (False, True, True) else f"other:{(r_same, r_val, r_sub)}"
        if op == "hash":
            hash(u)
            return "hashable"
        if op == "repr":
            return "reprUndefined" if repr(u) == "Undefined" else f"other:{repr(u)}"
        if op == "html":
            r = u.__html__()
            return "stringOfSelf" if r == str(cls(**kw)) else "other:html"
        if op in BIN:
            eval(f"u {BIN[op]} other", {"u": u, "other": other})
            return "other:no-error"
        if op[0] == "r" and op[1:] in BIN:
            eval(f"other {BIN[op[1:]]} u", {"u": u, "other": other})
            return "other:no-error"
        if op == "pos":
            +u
            return "other:no-error"
        if op == "neg":
            -u
            return "other:no-error"
        if op in ("int", "float", "complex"):
            {"int": int, "float": float, "complex": complex}[op](u)
            return "other:no-error"
        if op == "getattr":
            r = u.some_attribute
            return "itself" if r is u else "other:getattr"
        if op == "getattrDunder":
            u.__some_dunder__
            return "other:no-error"
        if op == "getitem":
            r = u["k"]
            return "itself" if r is u else "other:getitem"
        if op == "call":
            u(1, k=2)
            return "other:no-error"
    except UndefinedError as e:
        return ("raisesUndefined", str(e))
    except AttributeError:
        return "attributeError"
    except Exception as e:  # noqa
        return f"other:{type(e).__name__}"
    return "other:unknown-op"


def _other_kind(cls):
    from jinja2 import ChainableUndefined, Undefined
    return ChainableUndefined(name="q") if cls.__mro__[0].__name__ != "ChainableUndefined" and cls is not ChainableUndefined else Undefined(name="q")


def canon(o):
    if isinstance(o, list):
        return [canon(x) for x in o]
    return str(o) if isinstance(o, Atom) else o


def run(ctx, res):
    jinja2 = core.import_jinja()
    ks = kinds(jinja2)
    reqs, meta = [], []
    for kname, (kenc, cls, handler) in ks.items():
        for op in OPS:
            reqs.append([Atom("undef"), kenc, Atom(op)])
            meta.append((kname, op))
    replies = core.driver_batch(reqs)
    table = {m: (canon(r[1][0]), canon(r[1][1])) for m, r in zip(meta, replies)}
    evaluations, distinct, dist = 0, set(), {}
    for kname, (kenc, cls, handler) in ks.items():
        for op in OPS:
            model, spec = table[(kname, op)]
            binary = op in BIN or (op[0] == "r" and op[1:] in BIN) or op in ("eq", "ne", "contains")
            for oname, kw in ORIGINS.items():
                for other in (OTHERS if binary else [None]):
                    if handler:
                        handler.records.clear()
                    got = perform(cls, kw, op, other)
                    evaluations += 1
                    distinct.add((kname, op, oname, repr(other)))
                    msg = None
                    if isinstance(got, tuple):
                        got, msg = got
                    dist[str(spec)] = dist.get(str(spec), 0) + 1
                    if got != spec:
                        res.violate(f"C21:{kname}:{op}", f"{kname} undefined ({oname} origin): operation {op}"
                                    + (f" with operand {other!r}" if binary else "") + f" gives {got!r}, documented {spec!r}",
                                    {"kind": kname, "op": op, "origin": oname, "other": repr(other)})
                    elif got != model:
                        res.violate("C21:model-drift", f"model {model!r} differs from implementation {got!r} on {kname} {op} (spec agrees)",
                                    {"kind": kname, "op": op}, no_input=True)
                    if msg is not None and NEEDLE[oname] not in msg:
                        res.violate(f"C21:message:{oname}", f"{kname} undefined from {oname}: error message {msg!r} does not name {NEEDLE[oname]!r}",
                                    {"kind": kname, "op": op, "origin": oname})
        # copy / deepcopy / pickle keep kind and message
        for oname, kw in ORIGINS.items():
            if oname == "attribute":
                kw = dict(obj="text", name="nope")
            u = cls(**kw)
            for how, f in (("copy", copy.copy), ("deepcopy", copy.deepcopy),
                           ("pickle", lambda x: pickle.loads(pickle.dumps(x, pickle.HIGHEST_PROTOCOL)))):
                if how == "pickle" and kname.startswith("logging"):
                    continue  # the logging class is local to make_logging_undefined and not importable
                evaluations += 1
                distinct.add((kname, how, oname))
                try:
                    v = f(u)
                    ok = type(v) is type(u) and v._undefined_message == u._undefined_message
                except Exception as e:  # noqa
                    ok, v = False, f"raised {type(e).__name__}: {e}"
                if not ok:
                    res.violate(f"C21:{kname}:{how}", f"{how} of a {kname} undefined ({oname}) gives {v!r}", {"kind": kname, "how": how, "origin": oname})
    e2e = run_e2e(ctx, res, jinja2, ks, table)
    api = run_api(ctx, res, jinja2, ks)
    hier = run_hierarchy(ctx, res, jinja2)
    eng = run_engine(ctx, res, jinja2, ks)
    res.coverage.update({
        "evaluations": evaluations + e2e["renders"] + api["calls"] + hier["checks"] + eng["renders"],
        "distinct_nontrivial": len(distinct) + e2e["distinct"] + api["distinct"] + eng["distinct"],
        "rule": ("exhaustive: 8 undefined types (4 + logging variants) x 38 operations x 4 origins (missing name, "
                 "attribute, item, explicit hint) x 6 other operands for binary/reflected operations, on real objects; "
                 "copy/deepcopy/pickle; templates exercising each operation through template syntax in sync and async "
                 "environments; plus is defined / default / undefined tests.  THROUGH THE ENGINE (oracle: Lean runSpec): "
                 "every (plain|sandboxed environment, sync|async, kind, access chain of length <= 1 over {x.k, x['k'], "
                 "x[non-string key], x[a:b], x|attr}, one of 58 final operations) rendered as a template, the value produced "
                 "by one of 14 routes (missing name; missing attribute of object/dict; int key on list/dict/int; str, tuple, "
                 "variable key on dict; inline-if hint; first/last of an empty list; undefined passed in the context) and the "
                 "concrete key forms (0, -1, (1, 2), none, variable, 1.5, true, map(attribute=…)) drawn from ctx.rng per case "
                 "(quick) or every route (thorough); every concrete key form once more; random "
                 "chains of length 2-4 (400 quick / 8000 thorough, x3 when a proof or the tie broke); a case is non-trivial when its (environment, mode, kind, "
                 "source) is new.  Environment.getitem/getattr of both environment types called directly with 9 keys x 4 "
                 "origins x 8 kinds.  Exception classes: real __mro__ of every class of exceptions.py and every builtin in "
                 "the tables against the Lean ancestors / documented ancestors; UndefinedError against every builtin exception"),
        "samples": [{"kind": "strict", "op": "aiter", "documented": table[("strict", "aiter")][1]},
                    {"kind": "logging-strict", "op": "iter", "documented": table[("logging-strict", "iter")][1]}] + e2e["samples"],
        "exhaustive": False,
        "exhaustive_parts": ["kinds x 38 operations x 4 origins x operands on real objects", "Environment/SandboxedEnvironment "
                             "getitem/getattr x kinds x origins x 9 keys", "(environment type, mode, kind, access chain of length <= 1, "
                             "final operation) through templates — routes and concrete key forms are sampled per case in the quick tier, "
                             "every route in the thorough tier"],
        "documented_outcome_distribution": dist,
        "e2e": {k: v for k, v in e2e.items() if k not in ("samples",)},
        "engine": {k: v for k, v in eng.items() if k not in ("samples",)},
        "engine_samples": eng["samples"],
        "api": api,
        "hierarchy": hier,
    })


TEMPLATES = [
    ("str", "[{{ X }}]"), ("bool", "{% if X %}T{% else %}F{% endif %}"), ("iter", "[{% for i in X %}{{ i }}{% endfor %}]"),
    ("contains", "{{ 1 in X }}"), ("len", "{{ X|length }}"), ("add", "{{ X + 1 }}"), ("radd", "{{ 1 + X }}"),
    ("sub", "{{ X - 1 }}"), ("rsub", "{{ 1 - X }}"), ("mul", "{{ X * 2 }}"), ("rmul", "{{ 2 * X }}"),
    ("truediv", "{{ X / 2 }}"), ("rtruediv", "{{ 2 / X }}"), ("floordiv", "{{ X // 2 }}"), ("rfloordiv", "{{ 7 // X }}"),
    ("mod", "{{ X % 2 }}"), ("rmod", "{{ 7 % X }}"), ("pow", "{{ X ** 2 }}"), ("rpow", "{{ 2 ** X }}"),
    ("pos", "{{ +X }}"), ("neg", "{{ -X }}"), ("lt", "{{ X < 1 }}"), ("le", "{{ X <= 1 }}"), ("gt", "{{ X > 1 }}"),
    ("ge", "{{ X >= 1 }}"), ("getattr", "[{{ X.attr }}]"), ("getitem", "[{{ X['k'] }}]"), ("call", "{{ X() }}"),
]
ORIGIN_EXPR = {"name": "missing_var", "attribute": "obj.nope", "item": "seq[7]"}


def run_e2e(ctx, res, jinja2, ks, table):
    class O:
        pass

    renders, distinct, samples = 0, set(), []
    for kname, (kenc, cls, handler) in ks.items():
        for is_async in (False, True):
            env = jinja2.Environment(undefined=cls, enable_async=is_async)
            for op, tsrc in TEMPLATES:
                spec = table[(kname, "aiter" if (op == "iter" and is_async) else op)][1]
                base = spec[1] if isinstance(spec, list) else spec
                for oname, oexpr in ORIGIN_EXPR.items():
                    src = tsrc.replace("X", oexpr)
                    try:
                        t = env.from_string(src)
                        data = {"obj": O(), "seq": [1, 2]}
                        out = asyncio.run(t.render_async(**data)) if is_async else t.render(**data)
                        got = "rendered"
                    except jinja2.exceptions.UndefinedError as e:
                        out, got = str(e), "raisesUndefined"
                    except Exception as e:  # noqa
                        out, got = str(e), f"other:{type(e).__name__}"
                    renders += 1
                    distinct.add((kname, is_async, op, oname))
                    want = "raisesUndefined" if base == "raisesUndefined" else "rendered"
                    # chained access on a missing attribute of a chainable undefined stays undefined (renders)
                    if got != want:
                        res.violate(f"C21:e2e:{kname}:{op}" + (":async" if is_async else ""),
                                    f"{'async' if is_async else 'sync'} template {src!r} with undefined={kname}: {got} ({out[:60]!r}), documented {want} ({spec!r})",
                                    {"src": src, "kind": kname, "async": is_async})
                    elif got == "raisesUndefined" and NEEDLE[oname] not in out:
                        res.violate(f"C21:e2e:message:{oname}", f"template {src!r} ({kname}): message {out!r} does not name {NEEDLE[oname]!r}",
                                    {"src": src, "kind": kname})
            # tests and default never raise, for every kind
            for src, exp in (("{{ missing_var is defined }}|{{ missing_var is undefined }}|{{ missing_var|default('d') }}|{{ obj.nope|default('e') }}", "False|True|d|e"),):
                t = env.from_string(src)
                try:
                    out = asyncio.run(t.render_async(obj=O())) if is_async else t.render(obj=O())
                except Exception as e:  # noqa
                    out = f"raised:{type(e).__name__}"
                renders += 1
                if out != exp:
                    res.violate(f"C21:e2e:{kname}:defined-default", f"{src!r} with undefined={kname}: {out!r} != {exp!r}", {"src": src, "kind": kname})
    samples.append({"src": TEMPLATES[2][1].replace("X", "missing_var"), "kind": "strict", "async": True})
    return {"renders": renders, "distinct": len(distinct), "samples": samples}


# ======================================================================================================================
# the operation table THROUGH THE ENGINE (oracle: Lean `UndefinedEngine.runSpec`; transcription: `UndefinedEngine.run`)
# ======================================================================================================================

P = "@@"   # placeholder of the (parenthesised) value expression
FINALS = {
    "print": "[{{ @@ }}]", "ifElse": "{% if @@ %}T{% else %}F{% endif %}", "notOp": "{{ not @@ }}",
    "andPrint": "[{{ @@ and 1 }}]", "forLoop": "[{% for i in @@ %}{{ i }}{% endfor %}]", "length": "{{ @@|length }}",
    "count": "{{ @@|count }}", "list": "{{ @@|list }}", "string": "[{{ @@|string }}]", "concat": "[{{ @@ ~ 'a' }}]",
    "escapeF": "[{{ @@|e }}]", "trim": "[{{ @@|trim }}]", "intF": "{{ @@|int }}", "floatF": "{{ @@|float }}",
    "default": "{{ @@|default('d') }}", "defaultBool": "{{ @@|d('d', true) }}", "isDefined": "{{ @@ is defined }}",
    "isUndefined": "{{ @@ is undefined }}", "isNone": "{{ @@ is none }}", "isIterable": "{{ @@ is iterable }}",
    "inOp": "{{ 1 in @@ }}", "notInOp": "{{ 1 not in @@ }}", "eqOp": "{{ @@ == 1 }}", "neOp": "{{ @@ != 1 }}",
    "eqSelf": "{{ @@ == @@ }}", "reqOp": "{{ 1 == @@ }}", "rneOp": "{{ 1 != @@ }}", "testEq": "{{ @@ is eq(1) }}",
    "inList": "{{ @@ in [1] }}", "pos": "{{ +@@ }}", "neg": "{{ -@@ }}", "call": "{{ @@(1, k=2) }}",
    "join": "[{{ @@|join(',') }}]", "hashKey": "{{ {@@: 1}|length }}", "sum": "{{ @@|sum }}", "sort": "{{ @@|sort }}",
}
BINSYM = {"add": "+", "sub": "-", "mul": "*", "truediv": "/", "floordiv": "//", "mod": "%", "pow": "**",
          "lt": "<", "le": "<=", "gt": ">", "ge": ">="}
for _o, _sym in BINSYM.items():
    FINALS[f"bin:{_o}:l"] = "{{ @@ " + _sym + " 2 }}"
    FINALS[f"bin:{_o}:r"] = "{{ 7 " + _sym + " @@ }}"


def final_enc(f):
    if f.startswith("bin:"):
        _, o, side = f.split(":")
        return [Atom("bin"), Atom(o), side == "r"]
    return Atom(f)


# how the undefined value comes into being: expression, and what its error message must name
ROUTES = {
    "name": ("missing_var", "missing_var"),
    "attrObj": ("obj.nope", "nope"),
    "attrDict": ("dct.nope", "nope"),
    "itemIntList": ("seq[7041]", "7041"),
    "itemIntDict": ("dct[7041]", "7041"),
    "itemIntNum": ("num[7041]", "7041"),
    "itemStrDict": ("dct['zk']", "zk"),
    "itemTupleDict": ("dct[(8, 9)]", "(8, 9)"),
    "itemVarKey": ("dct[vk]", "5150"),
    # docs/templates.rst "If Expression": the implicit else "evaluates into an Undefined object (regardless of what
    # undefined in the environment is set to)" (compiler.py: cond_expr_undefined = Undefined) -> kind default
    "hintIf": ("(1 if false)", "inline if-expression"),
    "filterFirst": ("([]|first)", "No first item"),
    "filterLast": ("([]|last)", "No last item"),
    "ctxHint": ("hv", "custom hint text"),
    "ctxName": ("nv", "given_name"),
}
# concrete forms of each access step (applied to an expression text)
ACC_FORMS = {
    "attr": [lambda x: f"{x}.k", lambda x: f"{x}.foo", lambda x: f"{x}.items", lambda x: f"{x}.name"],
    "itemStr": [lambda x: f"{x}['k']", lambda x: f'{x}["some key"]', lambda x: f"{x}[sk]",
                lambda x: f"[{x}]|map(attribute='k')|first"],
    "itemOther": [lambda x: f"{x}[0]", lambda x: f"{x}[-1]", lambda x: f"{x}[(1, 2)]", lambda x: f"{x}[none]",
                  lambda x: f"{x}[ik]", lambda x: f"{x}[1.5]", lambda x: f"{x}[true]",
                  lambda x: f"[{x}]|map(attribute='0')|first"],
    "slice": [lambda x: f"{x}[1:2]", lambda x: f"{x}[:1]", lambda x: f"{x}[::2]", lambda x: f"{x}[ik:]"],
    "attrFilter": [lambda x: f"{x}|attr('k')", lambda x: f"{x}|attr('foo')"],
}
ACCS = list(ACC_FORMS)


class _O:
    pass


def engine_data(cls):
    return {"obj": _O(), "dct": {}, "seq": [1, 2], "num": 42, "vk": 5150, "ik": 3, "sk": "k",
            "hv": cls(hint="custom hint text"), "nv": cls(name="given_name")}


def route_kind(route, kname):
    """the kind of the undefined value the route produces in an environment whose undefined type is `kname`"""
    return "default" if route == "hintIf" else kname


def build_src(route, forms, final):
    """route name, list of (acc, form index), final name -> template source"""
    x = ROUTES[route][0]
    for acc, fi in forms:
        x = "(" + ACC_FORMS[acc][fi](x) + ")"
    return FINALS[final].replace(P, "(" + x + ")")


class Engines:
    """one environment per (environment type, sync/async, kind); one event loop for the async renders"""

    def __init__(self, jinja2, ks):
        from jinja2.sandbox import SandboxedEnvironment
        self.jinja2 = jinja2
        self.ks = ks
        self.envs = {}
        for et, E in (("plain", jinja2.Environment), ("sandbox", SandboxedEnvironment)):
            for is_async in (False, True):
                for kname, (_kenc, cls, _h) in ks.items():
                    self.envs[(et, is_async, kname)] = E(undefined=cls, enable_async=is_async, cache_size=0)
        self.loop = asyncio.new_event_loop()
        self._code_key = self._code = None

    def close(self):
        self.loop.close()

    def code(self, et, is_async, src):
        """the module code of `src` for this environment type and mode (the generated code does not depend on the
        environment's undefined type; `shared` renders load it with Template.from_code instead of compiling again)"""
        k = (et, is_async, src)
        if self._code_key != k:
            try:
                self._code = self.envs[(et, is_async, "default")].compile(src)
            except Exception:  # noqa
                self._code = None
            self._code_key = k
        return self._code

    def render(self, et, is_async, kname, src, shared=False):
        """-> ("raises", message) | ("text", output) | ("other", class name, message)"""
        env = self.envs[(et, is_async, kname)]
        cls = self.ks[kname][1]
        h = self.ks[kname][2]
        if h:
            h.records.clear()
        try:
            code = self.code(et, is_async, src) if shared else None
            if code is not None:
                t = self.jinja2.Template.from_code(env, code, env.make_globals(None), None)
            else:
                t = env.from_string(src)
            data = engine_data(cls)
            out = self.loop.run_until_complete(t.render_async(**data)) if is_async else t.render(**data)
            return ("text", out)
        except self.jinja2.exceptions.UndefinedError as e:
            return ("raises", str(e))
        except Exception as e:  # noqa
            return ("other", type(e).__name__, str(e)[:120])


def dec_fout(r):
    """Lean FOut -> ("raises", named) | ("text", pieces, named) | ("oom",)"""
    tag = str(r[0])
    if tag == "raises":
        return ("raises", bool(r[1]))
    if tag == "text":
        return ("text", tuple("\0dbg" if isinstance(x, Atom) else x for x in r[1]), bool(r[2]))
    return ("oom",)


def conforms(expect, got, needle):
    """does the observed render conform to a Lean outcome?  -> (ok, reason)"""
    if expect[0] == "raises":
        if got[0] != "raises":
            return False, "no UndefinedError"
        if expect[1] and needle not in got[1]:
            return False, f"the error message does not name {needle!r}"
        if not expect[1] and needle in got[1]:
            return False, "the message names the origin although a new undefined is blamed"
        return True, ""
    if expect[0] == "text":
        if got[0] != "text":
            return False, "raised" if got[0] == "raises" else f"raised {got[1]}"
        out, pieces = got[1], list(expect[1])
        if "\0dbg" not in pieces:
            return (out == "".join(pieces)), "different output"
        i = pieces.index("\0dbg")
        pre, post = "".join(pieces[:i]), "".join(pieces[i + 1:])
        if not (out.startswith(pre) and out.endswith(post) and len(out) >= len(pre) + len(post)):
            return False, "different output"
        mid = out[len(pre):len(out) - len(post)]
        if not (mid.startswith("{{") and mid.endswith("}}")):
            return False, "not a debug placeholder"
        if expect[2] and needle not in mid:
            return False, f"the debug placeholder does not name {needle!r}"
        return True, ""
    return True, "oom"


def engine_cases(ctx, broken):
    """yield (env type, is_async, route, forms, final): every (env, mode, chain of length <= 1, final) with the route and
    the concrete forms drawn per case (quick) / for every route (thorough), then random longer chains (three times as
    many when a proof or the tie broke)"""
    finals = list(FINALS)
    routes = list(ROUTES)
    rng = ctx.rng("engine")
    every_route = not ctx.quick
    n = 0
    for et in ("plain", "sandbox"):
        for is_async in (False, True):
            for chain in [[]] + [[a] for a in ACCS]:
                for final in finals:
                    rs = routes if every_route else [routes[(n + rng.randrange(len(routes))) % len(routes)]]
                    for route in rs:
                        forms = [(a, rng.randrange(len(ACC_FORMS[a]))) for a in chain]
                        n += 1
                        yield et, is_async, route, forms, final
    # every concrete form of every access step at least once per environment type
    for et in ("plain", "sandbox"):
        for a in ACCS:
            for fi in range(len(ACC_FORMS[a])):
                yield et, rng.random() < 0.5, rng.choice(routes), [(a, fi)], rng.choice(["print", "isDefined", "ifElse", "length"])
    for _ in range(ctx.pick(400, 8000) * (3 if broken else 1)):
        chain = [rng.choice(ACCS) for _ in range(rng.randrange(2, 5))]
        forms = [(a, rng.randrange(len(ACC_FORMS[a]))) for a in chain]
        yield rng.choice(("plain", "sandbox")), rng.random() < 0.5, rng.choice(routes), forms, rng.choice(finals)


def run_engine(ctx, res, jinja2, ks):
    broken = bool(ctx.gen_changed or ctx.tie_broken or ctx.proof_broken)
    cases = list(engine_cases(ctx, broken))
    # 1. the Lean side: one request per distinct abstract case
    keys, reqs = {}, []
    for et, is_async, route, forms, final in cases:
        chain = tuple(a for a, _ in forms)
        for kname in ks:
            kname = route_kind(route, kname)
            k = (et, is_async, kname, chain, final)
            if k not in keys:
                keys[k] = len(reqs)
                reqs.append([Atom("undef-engine"), Atom(et), is_async, ks[kname][0], [Atom(a) for a in chain], final_enc(final)])
    replies = core.driver_batch(reqs)
    lean = {}
    for k, i in keys.items():
        r = replies[i]
        if str(r[0]) != "ok":
            raise core.HarnessError(f"undef-engine {k}: {r}")
        lean[k] = (dec_fout(r[1][0]), dec_fout(r[1][1]))
    # 2. the real engine
    eng = Engines(jinja2, ks)
    share_rng, knames = ctx.rng("engine-share"), list(ks)
    renders, distinct, seen_keys, samples = 0, set(), {}, []
    dist = {"raises": 0, "text": 0, "oom": 0, "by_route": {}, "by_chain_len": {}, "by_env": {}, "model_ne_spec": 0}
    try:
        for et, is_async, route, forms, final in cases:
            chain = tuple(a for a, _ in forms)
            src = build_src(route, forms, final)
            needle = ROUTES[route][1]
            dist["by_route"][route] = dist["by_route"].get(route, 0) + 1
            dist["by_chain_len"][len(chain)] = dist["by_chain_len"].get(len(chain), 0) + 1
            dist["by_env"][f"{et}/{'async' if is_async else 'sync'}"] = dist["by_env"].get(f"{et}/{'async' if is_async else 'sync'}", 0) + 1
            own = share_rng.choice(knames)      # quick: one kind compiles the source itself, the others load the same code
            for kname in ks:
                model, spec = lean[(et, is_async, route_kind(route, kname), chain, final)]
                got = eng.render(et, is_async, kname, src, shared=ctx.quick and not broken and kname != own)
                renders += 1
                distinct.add((et, is_async, kname, src))
                dist[spec[0]] += 1
                if model != spec:
                    dist["model_ne_spec"] += 1
                if len(samples) < 4 and renders % 997 == 1:
                    samples.append({"src": src, "kind": kname, "env": et, "async": is_async, "documented": list(spec), "observed": list(got)})
                if spec[0] == "oom":
                    continue
                ok, why = conforms(spec, got, needle)
                sig = "+".join(chain) or "-"
                case = {"engine": {"src": src, "kind": kname, "env": et, "async": is_async, "route": route, "chain": list(chain),
                                   "final": final, "needle": needle, "documented": list(spec), "model": list(model), "observed": list(got)}}
                if not ok:
                    key = f"C21:engine:{kname}:{sig}:{final}" if "name" not in why else f"C21:engine:message:{kname}:{sig}"
                    seen_keys[key] = seen_keys.get(key, 0) + 1
                    if seen_keys[key] == 1 and len(seen_keys) <= 24:
                        res.violate(key, f"{et} {'async' if is_async else 'sync'} template {src!r} with undefined={kname} "
                                         f"(value from route {route}): {why}; observed {got!r}, documented {spec!r}"
                                         + (f", source model {model!r}" if model != spec else ""), case)
                elif model != spec and model[0] != "oom":
                    mok, _ = conforms(model, got, needle)
                    if not mok:
                        res.violate("C21:engine:model-drift", f"engine model {model!r} differs from the implementation {got!r} "
                                    f"on {src!r} ({kname}, {et}); the documented outcome {spec!r} holds",
                                    dict(case, correspondence="UndefinedEngine.run vs render"), no_input=True)
    finally:
        eng.close()
    if seen_keys:
        res.notes.append(f"engine: {sum(seen_keys.values())} failing renders under {len(seen_keys)} keys")
    return {"renders": renders, "distinct": len(distinct), "samples": samples, "dist": dist,
            "failing_renders": sum(seen_keys.values()), "failing_keys": len(seen_keys), "abstract_cases": len(keys)}


# keys handed to Environment.getitem directly (public API); True = the str path
API_KEYS = [("k", True), ("some key", True), (0, False), (-1, False), ((1, 2), False), (None, False), (1.5, False),
            (True, False), (slice(1, 2), False)]


def run_api(ctx, res, jinja2, ks):
    """Environment.getitem / getattr (plain and sandboxed) called directly on undefined values of every kind and origin"""
    from jinja2.sandbox import SandboxedEnvironment
    reqs, meta = [], []
    for et in ("plain", "sandbox"):
        for kname, (kenc, _c, _h) in ks.items():
            for acc in ("attr", "itemStr", "itemOther"):
                reqs.append([Atom("undef-step"), Atom(et), kenc, Atom(acc)])
                meta.append((et, kname, acc))
    steps = {m: (str(r[1][0]), str(r[1][1])) for m, r in zip(meta, core.driver_batch(reqs))}
    n, distinct = 0, set()
    for et, E in (("plain", jinja2.Environment), ("sandbox", SandboxedEnvironment)):
        for kname, (_kenc, cls, handler) in ks.items():
            env = E(undefined=cls)
            for oname, kw in ORIGINS.items():
                calls = [("attr", "getattr", "k")] + [("itemStr" if is_str else "itemOther", "getitem", key) for key, is_str in API_KEYS]
                for acc, meth, key in calls:
                    model, spec = steps[(et, kname, acc)]
                    u = cls(**kw)
                    try:
                        r = getattr(env, meth)(u, key)
                        got = "same" if r is u else ("fresh" if isinstance(r, jinja2.Undefined) else f"other:{r!r}")
                        msg = None
                    except jinja2.exceptions.UndefinedError as e:
                        got, msg = "raise", str(e)
                    except Exception as e:  # noqa
                        got, msg = f"other:{type(e).__name__}", None
                    n += 1
                    distinct.add((et, kname, oname, meth, repr(key)))
                    case = {"api": {"env": et, "kind": kname, "origin": oname, "method": meth, "key": repr(key)}}
                    if got != spec:
                        res.violate(f"C21:api:{kname}:{meth}:{acc}", f"{E.__name__}(undefined={kname}).{meth}(<undefined from {oname}>, {key!r}) "
                                    f"gives {got!r}, documented {spec!r}" + (f" (source model {model!r})" if model != spec else ""), case)
                    elif msg is not None and NEEDLE[oname] not in msg:
                        res.violate(f"C21:api:message:{oname}", f"{E.__name__}.{meth}(<{kname} undefined from {oname}>, {key!r}): message {msg!r} "
                                    f"does not name {NEEDLE[oname]!r}", case)
                    elif got != model:
                        res.violate("C21:api:model-drift", f"step model {model!r} differs from {got!r} ({et} {kname} {meth} {key!r})", case, no_input=True)
    return {"calls": n, "distinct": len(distinct)}


def run_hierarchy(ctx, res, jinja2):
    """the class tables READ from exceptions.py against the real classes, and the documented ancestors (Lean) as oracle"""
    import builtins
    import inspect
    exc = jinja2.exceptions
    real = {n: c for n, c in vars(exc).items() if inspect.isclass(c) and c.__module__ == exc.__name__}
    tables = core.driver_batch([[Atom("exc-tables")]])[0][1]
    gen_classes, gen_builtins, caught, undef_exc = list(tables[0]), list(tables[1]), list(tables[2]), tables[3]
    n = 0
    if sorted(gen_classes) != sorted(real):
        res.violate("C21:hierarchy:classes", f"classes read from exceptions.py {sorted(gen_classes)} differ from the module's {sorted(real)}",
                    {"correspondence": "Gen.ExceptionClasses.classes vs jinja2.exceptions"}, no_input=True)
    names = [c for c in gen_classes if c in real] + [b for b in gen_builtins if hasattr(builtins, b)]
    anc = core.driver_batch([[Atom("exc-ancestors"), c] for c in names])
    doc = core.driver_batch([[Atom("exc-documented"), c] for c in names])
    for c, a, d in zip(names, anc, doc):
        cls = real.get(c) or getattr(builtins, c)
        mro = sorted({k.__name__ for k in cls.__mro__})
        n += 1
        if sorted(a[1]) != mro:
            res.violate("C21:hierarchy:model-drift", f"ancestors of {c} from the tables {sorted(a[1])} differ from the real __mro__ {mro}",
                        {"class": c, "correspondence": "UndefinedEngine.ancestors vs __mro__"}, no_input=True)
        if c in real and not isinstance(d[1], Atom) and sorted(d[1]) != mro:
            extra, missing = sorted(set(mro) - set(d[1])), sorted(set(d[1]) - set(mro))
            res.violate(f"C21:hierarchy:{c}", f"jinja2.exceptions.{c} is an instance of {mro}; documented {sorted(d[1])}"
                        + (f" (gained {extra})" if extra else "") + (f" (lost {missing})" if missing else ""),
                        {"hierarchy": {"class": c, "mro": mro, "documented": sorted(d[1])}})
    # what an undefined value raises must escape every builtin handler class other than Exception / BaseException
    ue = real.get(undef_exc)
    if ue is not None:
        for bn in sorted(n_ for n_ in dir(builtins) if inspect.isclass(getattr(builtins, n_)) and issubclass(getattr(builtins, n_), BaseException)):
            b = getattr(builtins, bn)
            n += 1
            if b not in (Exception, BaseException) and issubclass(ue, b):
                res.violate(f"C21:hierarchy:{undef_exc}:{b.__name__}", f"{undef_exc} is a subclass of the builtin {b.__name__}: every `except {b.__name__}` "
                            "guarding an operation on a template value now swallows the error of an undefined value",
                            {"hierarchy": {"class": undef_exc, "builtin": b.__name__}})
    return {"checks": n, "classes": len(gen_classes), "caught_builtins": len(caught)}


def replay(ctx, case):
    jinja2 = core.import_jinja()
    c = case["case"]
    ks = kinds(jinja2)
    if "op" in c and "origin" in c:
        return {"impl": perform(ks[c["kind"]][1], ORIGINS[c["origin"]], c["op"], eval(c.get("other", "None")))}
    if "engine" in c:
        e = c["engine"]
        eng = Engines(jinja2, ks)
        try:
            got = eng.render(e["env"], e["async"], e["kind"], e["src"])
        finally:
            eng.close()
        return {"src": e["src"], "kind": e["kind"], "env": e["env"], "async": e["async"], "impl": list(got), "documented": e["documented"]}
    if "api" in c:
        from jinja2.sandbox import SandboxedEnvironment
        a = c["api"]
        cls = ks[a["kind"]][1]
        env = (SandboxedEnvironment if a["env"] == "sandbox" else jinja2.Environment)(undefined=cls)
        u = cls(**ORIGINS[a["origin"]])
        try:
            r = getattr(env, a["method"])(u, eval(a["key"]))
            return {"impl": "same" if r is u else repr(r)}
        except Exception as e:  # noqa
            return {"impl": f"raised {type(e).__name__}: {e}"}
    if "hierarchy" in c:
        h = c["hierarchy"]
        return {"class": h["class"], "mro": [k.__name__ for k in getattr(jinja2.exceptions, h["class"]).__mro__]}
    return c
