"""C21 — undefined types: documented operation table (finite, exhaustive)."""
from __future__ import annotations

import asyncio
import copy
import logging
import pickle

from harness import core
from harness.core import Atom
from translate import undefined_table as tr_undef

ID = "C21"
GEN = [tr_undef.gen]
LEAN_MODULES = ["JinjaV.Props.C21"]
LEVEL = "proof"
TRUSTED = [
    "translator translate/undefined_table.py (class bodies of the undefined types classified by a fixed list of body shapes)",
    "Python's special-method dispatch (reflected operators, containment falling back to iteration) as modelled in "
    "Model/UndefinedOps.lean — validated by this exhaustive run",
]
ASSUMPTIONS = ["left operands of reflected operators are ints/floats/None/lists (a str left operand of % formats "
               "without consulting the undefined value: Python semantics outside the engine)"]

OPS = ["str", "bool", "iter", "aiter", "len", "contains", "eq", "ne", "hash", "repr", "html", "add", "radd", "sub",
       "rsub", "mul", "rmul", "truediv", "rtruediv", "floordiv", "rfloordiv", "mod", "rmod", "pow", "rpow", "pos",
       "neg", "lt", "le", "gt", "ge", "int", "float", "complex", "getattr", "getattrDunder", "getitem", "call"]
BIN = {"add": "+", "sub": "-", "mul": "*", "truediv": "/", "floordiv": "//", "mod": "%", "pow": "**",
       "lt": "<", "le": "<=", "gt": ">", "ge": ">="}
OTHERS = [1, 2.5, None, [1], 0, -3]


class ListHandler(logging.Handler):
    def __init__(self):
        super().__init__()
        self.records = []

    def emit(self, r):
        self.records.append(r.getMessage())


def kinds(jinja2):
    from jinja2 import ChainableUndefined, DebugUndefined, StrictUndefined, Undefined, make_logging_undefined

    base = {"default": Undefined, "chainable": ChainableUndefined, "debug": DebugUndefined, "strict": StrictUndefined}
    out = {}
    for n, c in base.items():
        out[n] = (Atom(n), c, None)
    for n, c in base.items():
        lg = logging.Logger("jv-c21-" + n)
        h = ListHandler()
        lg.addHandler(h)
        lg.propagate = False
        out["logging-" + n] = ([Atom("logging"), Atom(n)], make_logging_undefined(lg, c), h)
    return out


ORIGINS = {
    "name": dict(name="missing_var"),
    "attribute": dict(obj=object(), name="nope"),
    "item": dict(obj=[1, 2], name=7),
    "hint": dict(hint="custom hint text"),
}
NEEDLE = {"name": "missing_var", "attribute": "nope", "item": "7", "hint": "custom hint text"}


def perform(cls, kw, op, other):
    """do one operation on a fresh undefined value; returns an outcome name"""
    from jinja2.exceptions import UndefinedError

    u = cls(**kw)
    try:
        if op == "str":
            s = str(u)
            return "emptyString" if s == "" else ("debugString" if s.startswith("{{") and s.endswith("}}") else f"other:{s!r}")
        if op == "bool":
            return "falseValue" if bool(u) is False else "other:True"
        if op == "iter":
            return "emptyIteration" if list(iter(u)) == [] else "other:nonempty"
        if op == "aiter":
            async def drain():
                return [x async for x in u]
            return "emptyAsyncIteration" if asyncio.run(drain()) == [] else "other:nonempty"
        if op == "len":
            return "zero" if len(u) == 0 else "other:len"
        if op == "contains":
            return "emptyIteration" if (other in u) is False else "other:contained"
        if op in ("eq", "ne"):
            same = cls(name="zzz")
            r_same = (u == same) if op == "eq" else (u != same)
            r_val = (u == other) if op == "eq" else (u != other)
            r_sub = (u == _other_kind(cls)) if op == "eq" else (u != _other_kind(cls))
            if op == "eq":
                return "typeIdentity" if (r_same, r_val, r_sub) == (True, False, False) else f"other:{(r_same, r_val, r_sub)}"
            return "notTypeIdentity" if (r_same, r_val, r_sub) == (False, True, True) else f"other:{(r_same, r_val, r_sub)}"
        if op == "hash":
            hash(u)
            return "hashable"
        if op == "repr":
            return "reprUndefined" if repr(u) == "Undefined" else f"other:{repr(u)}"
        if op == "html":
            r = u.__html__()
            return "stringOfSelf" if r == str(cls(**kw)) else "other:html"
        if op in BIN:
            eval(f"u {BIN[op]} other", {"u": u, "other": other})
            return "other:no-error"
        if op[0] == "r" and op[1:] in BIN:
            eval(f"other {BIN[op[1:]]} u", {"u": u, "other": other})
            return "other:no-error"
        if op == "pos":
            +u
            return "other:no-error"
        if op == "neg":
            -u
            return "other:no-error"
        if op in ("int", "float", "complex"):
            {"int": int, "float": float, "complex": complex}[op](u)
            return "other:no-error"
        if op == "getattr":
            r = u.some_attribute
            return "itself" if r is u else "other:getattr"
        if op == "getattrDunder":
            u.__some_dunder__
            return "other:no-error"
        if op == "getitem":
            r = u["k"]
            return "itself" if r is u else "other:getitem"
        if op == "call":
            u(1, k=2)
            return "other:no-error"
    except UndefinedError as e:
        return ("raisesUndefined", str(e))
    except AttributeError:
        return "attributeError"
    except Exception as e:  # noqa
        return f"other:{type(e).__name__}"
    return "other:unknown-op"


def _other_kind(cls):
    from jinja2 import ChainableUndefined, Undefined
    return ChainableUndefined(name="q") if cls.__mro__[0].__name__ != "ChainableUndefined" and cls is not ChainableUndefined else Undefined(name="q")


def canon(o):
    if isinstance(o, list):
        return [canon(x) for x in o]
    return str(o) if isinstance(o, Atom) else o


def run(ctx, res):
    jinja2 = core.import_jinja()
    ks = kinds(jinja2)
    reqs, meta = [], []
    for kname, (kenc, cls, handler) in ks.items():
        for op in OPS:
            reqs.append([Atom("undef"), kenc, Atom(op)])
            meta.append((kname, op))
    replies = core.driver_batch(reqs)
    table = {m: (canon(r[1][0]), canon(r[1][1])) for m, r in zip(meta, replies)}
    evaluations, distinct, dist = 0, set(), {}
    for kname, (kenc, cls, handler) in ks.items():
        for op in OPS:
            model, spec = table[(kname, op)]
            binary = op in BIN or (op[0] == "r" and op[1:] in BIN) or op in ("eq", "ne", "contains")
            for oname, kw in ORIGINS.items():
                for other in (OTHERS if binary else [None]):
                    if handler:
                        handler.records.clear()
                    got = perform(cls, kw, op, other)
                    evaluations += 1
                    distinct.add((kname, op, oname, repr(other)))
                    msg = None
                    if isinstance(got, tuple):
                        got, msg = got
                    dist[str(spec)] = dist.get(str(spec), 0) + 1
                    if got != spec:
                        res.violate(f"C21:{kname}:{op}", f"{kname} undefined ({oname} origin): operation {op}"
                                    + (f" with operand {other!r}" if binary else "") + f" gives {got!r}, documented {spec!r}",
                                    {"kind": kname, "op": op, "origin": oname, "other": repr(other)})
                    elif got != model:
                        res.violate("C21:model-drift", f"model {model!r} differs from implementation {got!r} on {kname} {op} (spec agrees)",
                                    {"kind": kname, "op": op}, no_input=True)
                    if msg is not None and NEEDLE[oname] not in msg:
                        res.violate(f"C21:message:{oname}", f"{kname} undefined from {oname}: error message {msg!r} does not name {NEEDLE[oname]!r}",
                                    {"kind": kname, "op": op, "origin": oname})
        # copy / deepcopy / pickle keep kind and message
        for oname, kw in ORIGINS.items():
            if oname == "attribute":
                kw = dict(obj="text", name="nope")
            u = cls(**kw)
            for how, f in (("copy", copy.copy), ("deepcopy", copy.deepcopy),
                           ("pickle", lambda x: pickle.loads(pickle.dumps(x, pickle.HIGHEST_PROTOCOL)))):
                if how == "pickle" and kname.startswith("logging"):
                    continue  # the logging class is local to make_logging_undefined and not importable
                evaluations += 1
                distinct.add((kname, how, oname))
                try:
                    v = f(u)
                    ok = type(v) is type(u) and v._undefined_message == u._undefined_message
                except Exception as e:  # noqa
                    ok, v = False, f"raised {type(e).__name__}: {e}"
                if not ok:
                    res.violate(f"C21:{kname}:{how}", f"{how} of a {kname} undefined ({oname}) gives {v!r}", {"kind": kname, "how": how, "origin": oname})
    e2e = run_e2e(ctx, res, jinja2, ks, table)
    res.coverage.update({
        "evaluations": evaluations + e2e["renders"],
        "distinct_nontrivial": len(distinct) + e2e["distinct"],
        "rule": ("exhaustive: 8 undefined types (4 + logging variants) x 38 operations x 4 origins (missing name, "
                 "attribute, item, explicit hint) x 6 other operands for binary/reflected operations, on real objects; "
                 "copy/deepcopy/pickle; templates exercising each operation through template syntax in sync and async "
                 "environments; plus is defined / default / undefined tests"),
        "samples": [{"kind": "strict", "op": "aiter", "documented": table[("strict", "aiter")][1]},
                    {"kind": "logging-strict", "op": "iter", "documented": table[("logging-strict", "iter")][1]}] + e2e["samples"],
        "exhaustive": True,
        "documented_outcome_distribution": dist,
        "e2e": {k: v for k, v in e2e.items() if k not in ("samples",)},
    })


TEMPLATES = [
    ("str", "[{{ X }}]"), ("bool", "{% if X %}T{% else %}F{% endif %}"), ("iter", "[{% for i in X %}{{ i }}{% endfor %}]"),
    ("contains", "{{ 1 in X }}"), ("len", "{{ X|length }}"), ("add", "{{ X + 1 }}"), ("radd", "{{ 1 + X }}"),
    ("sub", "{{ X - 1 }}"), ("rsub", "{{ 1 - X }}"), ("mul", "{{ X * 2 }}"), ("rmul", "{{ 2 * X }}"),
    ("truediv", "{{ X / 2 }}"), ("rtruediv", "{{ 2 / X }}"), ("floordiv", "{{ X // 2 }}"), ("rfloordiv", "{{ 7 // X }}"),
    ("mod", "{{ X % 2 }}"), ("rmod", "{{ 7 % X }}"), ("pow", "{{ X ** 2 }}"), ("rpow", "{{ 2 ** X }}"),
    ("pos", "{{ +X }}"), ("neg", "{{ -X }}"), ("lt", "{{ X < 1 }}"), ("le", "{{ X <= 1 }}"), ("gt", "{{ X > 1 }}"),
    ("ge", "{{ X >= 1 }}"), ("getattr", "[{{ X.attr }}]"), ("getitem", "[{{ X['k'] }}]"), ("call", "{{ X() }}"),
]
ORIGIN_EXPR = {"name": "missing_var", "attribute": "obj.nope", "item": "seq[7]"}


def run_e2e(ctx, res, jinja2, ks, table):
    class O:
        pass

    renders, distinct, samples = 0, set(), []
    for kname, (kenc, cls, handler) in ks.items():
        for is_async in (False, True):
            env = jinja2.Environment(undefined=cls, enable_async=is_async)
            for op, tsrc in TEMPLATES:
                spec = table[(kname, "aiter" if (op == "iter" and is_async) else op)][1]
                base = spec[1] if isinstance(spec, list) else spec
                for oname, oexpr in ORIGIN_EXPR.items():
                    src = tsrc.replace("X", oexpr)
                    try:
                        t = env.from_string(src)
                        data = {"obj": O(), "seq": [1, 2]}
                        out = asyncio.run(t.render_async(**data)) if is_async else t.render(**data)
                        got = "rendered"
                    except jinja2.exceptions.UndefinedError as e:
                        out, got = str(e), "raisesUndefined"
                    except Exception as e:  # noqa
                        out, got = str(e), f"other:{type(e).__name__}"
                    renders += 1
                    distinct.add((kname, is_async, op, oname))
                    want = "raisesUndefined" if base == "raisesUndefined" else "rendered"
                    # chained access on a missing attribute of a chainable undefined stays undefined (renders)
                    if got != want:
                        res.violate(f"C21:e2e:{kname}:{op}" + (":async" if is_async else ""),
                                    f"{'async' if is_async else 'sync'} template {src!r} with undefined={kname}: {got} ({out[:60]!r}), documented {want} ({spec!r})",
                                    {"src": src, "kind": kname, "async": is_async})
                    elif got == "raisesUndefined" and NEEDLE[oname] not in out:
                        res.violate(f"C21:e2e:message:{oname}", f"template {src!r} ({kname}): message {out!r} does not name {NEEDLE[oname]!r}",
                                    {"src": src, "kind": kname})
            # tests and default never raise, for every kind
            for src, exp in (("{{ missing_var is defined }}|{{ missing_var is undefined }}|{{ missing_var|default('d') }}|{{ obj.nope|default('e') }}", "False|True|d|e"),):
                t = env.from_string(src)
                try:
                    out = asyncio.run(t.render_async(obj=O())) if is_async else t.render(obj=O())
                except Exception as e:  # noqa
                    out = f"raised:{type(e).__name__}"
                renders += 1
                if out != exp:
                    res.violate(f"C21:e2e:{kname}:defined-default", f"{src!r} with undefined={kname}: {out!r} != {exp!r}", {"src": src, "kind": kname})
    samples.append({"src": TEMPLATES[2][1].replace("X", "missing_var"), "kind": "strict", "async": True})
    return {"renders": renders, "distinct": len(distinct), "samples": samples}


def replay(ctx, case):
    jinja2 = core.import_jinja()
    c = case["case"]
    ks = kinds(jinja2)
    if "op" in c and "origin" in c:
        return {"impl": perform(ks[c["kind"]][1], ORIGINS[c["origin"]], c["op"], eval(c.get("other", "None")))}
    return c
