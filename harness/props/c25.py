"""C25 — template cache: Environment.get_template/select_template vs the Lean cache model."""
from __future__ import annotations

import itertools
import os
import shutil
import tempfile

from harness import core
from harness.core import Atom

ID = "C25"
LEAN_MODULES = ["JinjaV.Props.C25"]
LEVEL = "proof"
TRUSTED = [
    "Model/TplCache.lean is a hand transcription of Environment._load_template/create_cache with the LRU replaced by the "
    "reference map of C26 (the implementation refines it: Props/C26); tied by this correspondence run",
    "loaders' up-to-date checks are modelled as 'compiled source version == current version' (DictLoader compares sources, "
    "FunctionLoader uses the supplied callable, FileSystemLoader compares mtimes, which the harness forces to change)",
]
ASSUMPTIONS = ["the loader supplies an up-to-date check (a FunctionLoader returning a bare string cannot reload: excluded by the property)"]

CLAIM = dict(
    category="proof",
    technique="Lean 4 proofs about a model of Environment._load_template over the reference LRU map (current source under "
              "auto_reload for every history, stickiness without it, capacity invariant, select_template order) + exhaustive "
              "differential histories on real environments with Dict/Function/FileSystem loaders",
    text="Theorems (Props/C25.lean): with auto_reload and an up-to-date check, after every history of get/select/modify/delete "
         "operations a get returns the template compiled from the loader's current source or TemplateNotFound "
         "(autoreload_current, autoreload_history); without auto_reload a hit returns the cached version (no_autoreload_sticky); "
         "with cache size 0 every get compiles (size0_recompiles); the cache never exceeds its capacity along any history "
         "(cache_bound, after_inv); select_template returns the first loadable name (select_first). Tie: every history of length "
         "<=4 (quick) / <=5 (thorough) over 9 operations on 3 names, plus random longer histories, x cache sizes 0/1/2/unbounded x "
         "auto_reload on/off x DictLoader/FunctionLoader/FileSystemLoader: result, cache population and loader-call count after "
         "every step equal the model's.",
    note="Trusted: Lean kernel; hand model Model/TplCache.lean (tied by correspondence); the LRU is replaced by its reference "
         "map (refinement proved in C26); file mtimes are forced to change by the harness; weakref identity of the environment "
         "in the cache key is not modelled.",
    design_ref="§5 C25",
)

NAMES = {0: "a", 1: "b", 2: "c", 3: "d", 4: "e", 5: "f"}
OPS = [("get", 0), ("get", 1), ("select", (0, 1)), ("select", (1, 0)), ("select", (2, 0)), ("put", 0), ("put", 1), ("delete", 0),
       ("delete", 1)]


def enc_ops(concrete):
    out = []
    for op in concrete:
        if op[0] == "get":
            out.append([Atom("get"), op[1]])
        elif op[0] == "select":
            out.append([Atom("select"), list(op[1])])
        elif op[0] == "put":
            out.append([Atom("put"), op[1], op[2]])
        else:
            out.append([Atom("delete"), op[1]])
    return out


def concretise(seq):
    ver = 10
    out = []
    for op in seq:
        if op[0] == "put":
            ver += 1
            out.append(("put", op[1], ver))
        else:
            out.append(op)
    return out


class Harness:
    """one loader kind under test, with load counting"""

    def __init__(self, jinja2, kind, initial, size, ar, tmp):
        self.jinja2, self.kind = jinja2, kind
        self.loads = 0
        h = self
        if kind == "dict":
            class L(jinja2.DictLoader):
                def get_source(self, env, name):
                    r = super().get_source(env, name)
                    h.loads += 1
                    return r
            self.mapping = {NAMES[k]: f"v{v}" for k, v in initial}
            self.loader = L(self.mapping)
        elif kind == "function":
            self.mapping = {NAMES[k]: f"v{v}" for k, v in initial}

            def load(name):
                if name not in self.mapping:
                    return None
                src = self.mapping[name]
                h.loads += 1
                return src, None, lambda: self.mapping.get(name) == src
            self.loader = jinja2.FunctionLoader(load)
        else:
            self.dir = tempfile.mkdtemp(dir=tmp)
            self.mtime = 1_000_000_000
            for k, v in initial:
                self._write(NAMES[k], f"v{v}")

            class L(jinja2.FileSystemLoader):
                def get_source(self, env, name):
                    r = super().get_source(env, name)
                    h.loads += 1
                    return r
            self.loader = L(self.dir)
        self.env = jinja2.Environment(loader=self.loader, cache_size=size, auto_reload=ar)

    def _write(self, name, text):
        p = os.path.join(self.dir, name)
        with open(p, "w") as f:
            f.write(text)
        # the new modification time differs from every earlier one but is not always later: restoring an older copy of a
        # file (cp -p, rsync -t, a checkout) moves it backwards, and the template must still be reloaded
        self.writes = getattr(self, "writes", 0) + 1
        self.mtime += 7 if self.writes % 2 else -3
        os.utime(p, (self.mtime, self.mtime))

    def apply(self, op):
        TNF = self.jinja2.exceptions.TemplateNotFound
        try:
            if op[0] == "get":
                return ["template", int(self.env.get_template(NAMES[op[1]]).render()[1:])]
            if op[0] == "select":
                return ["template", int(self.env.select_template([NAMES[k] for k in op[1]]).render()[1:])]
        except TNF:
            return "notFound"
        except Exception as e:  # noqa
            return f"raised:{type(e).__name__}:{e}"
        if op[0] == "put":
            if self.kind == "fs":
                self._write(NAMES[op[1]], f"v{op[2]}")
            else:
                self.mapping[NAMES[op[1]]] = f"v{op[2]}"
            return "none"
        if op[0] == "delete":
            if self.kind == "fs":
                try:
                    os.unlink(os.path.join(self.dir, NAMES[op[1]]))
                except FileNotFoundError:
                    pass
            else:
                self.mapping.pop(NAMES[op[1]], None)
            return "none"
        raise AssertionError(op)

    def cache_size(self):
        return 0 if self.env.cache is None else len(self.env.cache)


def canon(o):
    if isinstance(o, list):
        return [canon(x) for x in o]
    return str(o) if isinstance(o, Atom) else o


def run(ctx, res):
    jinja2 = core.import_jinja()
    maxlen = {"dict": ctx.pick(4, 5), "function": ctx.pick(3, 4), "fs": ctx.pick(3, 4)}
    initial = [(0, 10), (1, 10)]
    tmp = tempfile.mkdtemp(prefix="jv-c25-")
    total, distinct, mism = 0, set(), 0
    samples = []
    try:
        for kind in ("dict", "function", "fs"):
            hist = []
            for n in range(1, maxlen[kind] + 1):
                for seq in itertools.product(OPS, repeat=n):
                    if seq[-1][0] in ("get", "select"):      # histories ending in an observation
                        hist.append(concretise(seq))
            rng = ctx.rng("rand", kind)
            for _ in range(ctx.pick(300, 3000)):
                hist.append(concretise([rng.choice(OPS) for _ in range(rng.randrange(5, 14))]))
            # second family: more names than cache slots, so that recency ORDER (not just membership) decides what is evicted
            wide_initial = [(k, 10) for k in range(6)]
            wide_ops = ([("get", k) for k in range(6)] * 3 + [("select", (a, b)) for a in range(6) for b in range(6) if a != b][::5]
                        + [("put", k) for k in range(6)] + [("delete", k) for k in (0, 3)])
            wide = [concretise([rng.choice(wide_ops) for _ in range(rng.randrange(6, 22))])
                    for _ in range(ctx.pick(250, 2500) if kind != "fs" else ctx.pick(40, 400))]
            plans = [(size, ar, initial, hist) for size in (0, 1, 2, -1) for ar in (True, False)]
            plans += [(size, ar, wide_initial, wide) for size in (3, 4, 5) for ar in (True, False)]
            for size, ar, initial_, hist_ in plans:
                for _once in (0,):
                    reqs = [[Atom("tplcache"), ar, size, [[k, v] for k, v in initial_], enc_ops(h)] for h in hist_]
                    reps = core.driver_batch(reqs)
                    for h, rep in zip(hist_, reps):
                        hz = Harness(jinja2, kind, initial_, size, ar, tmp)
                        total += 1
                        distinct.add((kind, size, ar, tuple(map(str, h))))
                        for i, (op, want) in enumerate(zip(h, canon(rep[1]))):
                            got = hz.apply(op)
                            wres, wsize, wloads = want
                            ok = got == wres and hz.cache_size() == wsize and hz.loads == wloads
                            if not ok:
                                mism += 1
                                what = ("result" if got != wres else "cache-size" if hz.cache_size() != wsize else "loads")
                                key = f"C25:{kind}:size={size}:autoreload={ar}:{what}"
                                res.violate(key, f"{kind} loader, cache_size={size}, auto_reload={ar}: after {h[:i + 1]} the environment gives "
                                            f"{got!r} (cache holds {hz.cache_size()}, loader used {hz.loads}x); reference: {wres!r}, "
                                            f"{wsize} cached, {wloads} loads", {"kind": kind, "size": size, "auto_reload": ar, "history": h[:i + 1]})
                                break
                        if kind == "fs":
                            shutil.rmtree(hz.dir, ignore_errors=True)
            samples.append({"loader": kind, "history": [list(map(str, o)) for o in hist[len(hist) // 2]]})
    finally:
        shutil.rmtree(tmp, ignore_errors=True)
    res.coverage.update({
        "evaluations": total,
        "distinct_nontrivial": len(distinct),
        "rule": (f"every history of length <= {maxlen['dict']} (DictLoader) / <= {maxlen['function']} (FunctionLoader with up-to-date "
                 "callable, FileSystemLoader with forced mtime changes) over 9 operations (get a/b, select in three orders incl. a "
                 "missing name, modify a/b, delete a/b) ending in an observation, plus random histories of 5-13 operations, x "
                 "cache sizes 0, 1, 2, unbounded x auto_reload on/off; plus random histories of 6-21 operations over SIX names x cache sizes "
                 "3, 4, 5 (more names than slots: the recency order decides the eviction); after every step result, cache population and number of "
                 "loader calls must equal the Lean model's"),
        "samples": samples,
        "exhaustive": True,
        "mismatches": mism,
    })


def replay(ctx, case):
    jinja2 = core.import_jinja()
    c = case["case"]
    tmp = tempfile.mkdtemp(prefix="jv-c25-")
    try:
        hz = Harness(jinja2, c["kind"], [(0, 10), (1, 10)], c["size"], c["auto_reload"], tmp)
        return {"impl": [hz.apply(tuple(tuple(x) if isinstance(x, list) else x for x in op)) for op in c["history"]]}
    finally:
        shutil.rmtree(tmp, ignore_errors=True)
