"""C36 — async rendering always closes the generators it opens.

Three layers:
  L-sem   random GenTree programs are written out in exactly the consumption idioms the compiler / the library use
          (try/finally-aclose, async with aclosing, bare async for, awaited drain), run on a real event loop under every
          adversary (stop at the k-th chunk / cancel at the k-th await) and compared with the Lean model's `run`:
          number of generators opened, which of them stay unclosed, how the run ends.  This is what ties the model's
          semantics to CPython/asyncio.
  L-code  translation validation: the Python generated for async templates is parsed, every async-generator creation
          and every `async for` is mapped to a GenTree statement (an unclassifiable site breaks the tie), the Lean driver
          decides allBracketed and names the bare sites.  The same recognisers are run over the L-sem programs (round trip).
  L-e2e   generated template sets rendered through generate_async / render_async on a loop with asyncgen hooks; the
          consumer stops after k chunks, the task is cancelled at the k-th await, for every k; after the task has
          finished every generator seen by firstiter must be finished.
"""
from __future__ import annotations

import asyncio
import contextlib

import translate.async_sites
from harness import asyncgen, core
from harness.asyncgen import TrackLoop, site_class
from harness.core import Atom

ID = "C36"
LEAN_MODULES = ["JinjaV.Props.C36", "JinjaV.Props.C36Adv"]
GEN = [translate.async_sites.gen]
LEVEL = "proof"
TRUSTED = [
    "Model/GenTree.lean is a hand-written semantics of async-generator consumption (yield / await / bracketed and bare "
    "async-for / drain, GeneratorExit and CancelledError propagation); it is tied to CPython 3.12 + asyncio by running "
    "random programs in the emitted idioms under every adversary and comparing with the model (L-sem), not by proof",
    "harness/asyncgen.py maps generated template code to GenTree statements (Python ast); a generator creation or async "
    "iteration it cannot classify fails the tie; that each dynamic generator instance is an instance of a static site is "
    "the classifier's claim",
    "translate/async_sites.py reads the library's own async iteration sites (environment/nativetypes/runtime/async_utils)",
    "async generators created by *filters* (map/select/… in async mode) and async generators passed in as data are values, "
    "not generators 'created for the template'; they are outside the property and outside the generators",
]
ASSUMPTIONS = [
    "asyncio delivers a cancellation only at a suspension point of the task; unwinding (finally: await gen.aclose()) "
    "contains no further suspension point (generated code has no await in a finally except the aclose itself)",
    "user code called from a template does not swallow CancelledError/GeneratorExit",
    "scope of 'generators the render opens': the generators the template machinery itself creates (template roots, blocks, "
    "includes, parent templates, loop filters, generate_async). An async generator that arrives as DATA - passed in the "
    "context, returned by a user function called from the template, or produced by an async filter (map/select/...) - is "
    "iterated through auto_aiter without a bracket and is the caller's to close, exactly as with a plain Python `async for`; "
    "such generators are identified by their code object, counted in the evidence "
    "(data_generators_left_open_by_bare_data_iteration) and never reported",
]
CLAIM = dict(
    category="proof",
    technique="Lean 4 proof over a semantics of async-generator consumption with an adversary (stop+aclose at any chunk, "
              "CancelledError at any await) + that semantics validated against CPython/asyncio on random programs under "
              "every adversary + translation validation of generated template code (every generator creation / async for "
              "classified, Lean decides allBracketed) + library iteration sites read from the source and re-proved + "
              "end-to-end renders with sys.set_asyncgen_hooks for every k",
    text="Theorems (Props/C36.lean): bracketed_closed — for every generator tree in which every generator is consumed by "
         "try/finally-aclose, async-with-aclosing or a full drain, and every adversary choice sequence, when the root has "
         "finished (normally, by aclose, by cancellation) every opened generator is closed, with no finaliser in the model; "
         "bracketed_root_not_abandoned; allBracketed_iff_no_bare; no_attack_closed — without stop/cancel even bare iteration closes everything; "
         "bare_can_leak_on_stop / _on_cancel / bare_abandons_subtree — a bare open leaves the generator (and everything it "
         "opened) unclosed; (Props/C36Adv.lean) exec_payload, exec_rel, run_depends_on_first_attack, "
         "firstAttack_singleAttack, run_eq_single_attack - a run depends on the adversary only through the position of its "
         "first attack (later choices are never consumed), so the single attacks enumerated by the tie are all adversaries; "
         "library_sites_closing, entry_points_closing, library_entry_closed — over Gen/AsyncSites.lean "
         "(regenerated from environment.py, nativetypes.py, runtime.py, async_utils.py on every run) no library site "
         "iterates bare, so render_async / generate_async / make_module_async / super() over a fully bracketed template "
         "body close everything. Tie: L-sem model-vs-CPython on random programs x every attack position; L-code every "
         "generated function of generated template sets (for/else/recursive loops with and without filters, blocks, super, "
         "extends (root-level, conditional, if/else, variable), include, import, macros, call blocks, set/filter blocks, nested) classified and decided by the Lean "
         "driver; loop iterables include lists, ranges, async data generators, synchronous generators returned by callables, "
         "iter()/dict views and the generators of |batch/|slice, sync generators also feed the async filters; L-e2e stop after k "
         "chunks, cancel at the k-th await and an exception raised by the data function at the k-th await, for every k through generate_async and "
         "render_async, generators tracked by firstiter and inspected after the task has finished. Every generated function "
         "of every template set must be allBracketed (no exception: the loop-filter generator of `{% for … if … %}`, formerly "
         "iterated bare - finding F14 - is bracketed since /repo 78a2e7a; the witness template stays in the fixed corpus).",
    note="Trusted: Lean kernel; hand-written semantics Model/GenTree.lean (validated against CPython by correspondence); "
         "the ast classifier of generated code; asyncio semantics. Scope: only generators created by the template "
         "machinery (roots, blocks, includes, parents, loop filters, generate_async); async generators supplied as data "
         "(context values, results of user functions, results of async filters) are iterated bare through auto_aiter and "
         "are the caller's to close - counted in the evidence, not part of the claim. Partial: the static tree "
         "over-approximates dynamic runs by construction of the classifier, not by proof.",
    design_ref="§5 C36",
)

DATA_FILE = __file__


# --------------------------------------------------------------------------------------------------
# L-sem: GenTree programs in the emitted idioms
# --------------------------------------------------------------------------------------------------

def rand_body(rng, budget, depth):
    """random GenTree statements; budget = [remaining nodes]"""
    out = []
    n = rng.randrange(0, 4) if depth else rng.randrange(1, 5)
    for _ in range(n):
        if budget[0] <= 0:
            break
        budget[0] -= 1
        r = rng.random()
        if r < 0.3 or depth >= 3:
            out.append([Atom("y")] if rng.random() < 0.6 else [Atom("a")])
        elif r < 0.5:
            out.append([Atom("a")])
        elif r < 0.9:
            br = Atom("b") if rng.random() < 0.55 else Atom("r")
            out.append([Atom("o"), br, "s", rand_body(rng, budget, depth + 1), rand_body(rng, budget, depth + 1)])
        else:
            out.append([Atom("d"), "s", rand_body(rng, budget, depth + 1)])
    return out


class Emit:
    """GenTree statements -> Python source using the real idioms"""

    def __init__(self, rng):
        self.rng = rng
        self.funcs = []        # (name, source)
        self.n = 0
        self.expected = {}     # function name -> statements as the template classifier should see them

    def func(self, stmts):
        name = f"g{self.n}"
        self.n += 1
        lines, seen = self.body(stmts, 1)
        src = f"async def {name}(rt):\n    if 0: yield None\n" + "".join(lines)
        self.funcs.append((name, src))
        self.expected[name] = [[Atom("y")]] + seen
        return name

    def body(self, stmts, ind):
        pad = "    " * ind
        lines, seen = [], []
        for st in stmts:
            k = str(st[0])
            if k == "y":
                lines.append(f"{pad}yield 0\n")
                seen.append([Atom("y")])
            elif k == "a":
                lines.append(f"{pad}await rt.gate()\n")
                seen.append([Atom("a")])
            elif k == "d":
                child = self.func(st[2])
                lines.append(f"{pad}await rt.t['{child}'].make_module_async()\n")
                seen.append([Atom("d"), "import:make_module_async", asyncgen.EXTERNAL])
            else:
                child = self.func(st[3])
                inner, inner_seen = self.body(st[4], ind + (2 if str(st[1]) == "b" else 1))
                var = f"gen_{child}"
                create = f"rt.t['{child}'].root_render_func(rt)"
                if str(st[1]) == "b":
                    if self.rng.random() < 0.5:
                        lines += [f"{pad}{var} = {create}\n", f"{pad}try:\n", f"{pad}    async for event in {var}:\n",
                                  *(inner or [f"{pad}        pass\n"]), f"{pad}finally: await {var}.aclose()\n"]
                    else:
                        lines += [f"{pad}{var} = {create}\n", f"{pad}async with aclosing({var}):\n",
                                  f"{pad}    async for event in {var}:\n", *(inner or [f"{pad}        pass\n"])]
                    seen.append([Atom("o"), Atom("b"), "include", asyncgen.EXTERNAL, inner_seen])
                else:
                    if self.rng.random() < 0.5:
                        lines += [f"{pad}async for event in {create}:\n", *(inner or [f"{pad}    pass\n"])]
                    else:
                        lines += [f"{pad}{var} = {create}\n", f"{pad}async for event in {var}:\n",
                                  *(inner or [f"{pad}    pass\n"])]
                    seen.append([Atom("o"), Atom("r"), "include", asyncgen.EXTERNAL, inner_seen])
        return lines, seen

    def module(self, stmts):
        root = self.func(stmts)
        return root, "from contextlib import aclosing\n" + "\n".join(s for _, s in self.funcs)


class Holder:
    def __init__(self, fn):
        self.root_render_func = fn

    async def make_module_async(self):
        return [x async for x in self.root_render_func(RT.current)]


class RT:
    current = None

    def __init__(self, ns, attack):
        self.points = 0
        self.attack = attack
        self.t = {k: Holder(v) for k, v in ns.items() if k.startswith("g") and k[1:].isdigit()}
        RT.current = self

    async def gate(self):
        i = self.points
        self.points += 1
        if i == self.attack:
            asyncio.current_task().cancel()
        await asyncio.sleep(0)

    def chunk(self):
        i = self.points
        self.points += 1
        return i == self.attack


async def sem_main(rt, root):
    agen = root(rt)
    stopped = False
    try:
        async for _ in agen:
            if rt.chunk():
                stopped = True
                break
    finally:
        await agen.aclose()
    return "exited" if stopped else "done"


def run_sem_program(ns, root, attack):
    loop = TrackLoop()
    rt = RT(ns, attack)
    try:
        try:
            out = loop.run_until_complete(sem_main(rt, ns[root]))
        except asyncio.CancelledError:
            out = "raised"
        return [len(loop.seen), loop.unclosed(), out, rt.points], len(loop.finalized)
    finally:
        loop.cleanup()


def l_sem(ctx, res, cov):
    rng = ctx.rng("sem")
    fixed = [
        [[Atom("o"), Atom("r"), "s", [[Atom("y")], [Atom("y")]], [[Atom("y")]]]],
        [[Atom("o"), Atom("r"), "s", [[Atom("y")], [Atom("y")]], [[Atom("a")], [Atom("y")]]]],
        [[Atom("o"), Atom("b"), "s", [[Atom("a")], [Atom("o"), Atom("b"), "s", [[Atom("y")], [Atom("a")], [Atom("y")]], [[Atom("y")]]]],
          [[Atom("y")]]], [Atom("d"), "s", [[Atom("a")], [Atom("y")]]], [Atom("y")]],
        [[Atom("o"), Atom("r"), "s", [[Atom("o"), Atom("b"), "s", [[Atom("y")]], [[Atom("y")]]]], [[Atom("y")]]]],
    ]
    programs = list(fixed)
    for _ in range(ctx.pick(500, 5000)):
        programs.append(rand_body(rng, [rng.randrange(3, 14)], 0))
    reqs, meta = [], []
    suffix_reqs = []
    runs = 0
    shapes = set()
    mism = 0
    roundtrip = 0
    outcomes = {}
    leaks_with_bare = leaks_total = 0
    for stmts in programs:
        em = Emit(rng)
        root, src = em.module(stmts)
        ns = {}
        exec(compile(src, "<c36-sem>", "exec"), ns)  # noqa: S102 — harness-generated source
        # round trip through the template classifier: same sites, same kinds, per function
        import ast
        for fn in ast.parse(src).body:
            if isinstance(fn, ast.AsyncFunctionDef):
                ft = asyncgen.FunctionTree(fn)
                ft.verify_complete()
                roundtrip += 1
                if core.sx(ft.stmts) != core.sx(em.expected[fn.name]):
                    res.violate("C36:classifier:roundtrip", f"the classifier reads {core.sx(ft.stmts)} from the emitted "
                                f"function for {core.sx(em.expected[fn.name])}", {"source": src, "function": fn.name},
                                no_input=True)
        base, _ = run_sem_program(ns, root, None)
        total = base[3]
        for attack in [None] + list(range(total)):
            got, fin = run_sem_program(ns, root, attack)
            runs += 1
            adv = [] if attack is None else [False] * attack + [True]
            reqs.append([Atom("gentree-run"), stmts, adv])
            meta.append((stmts, attack, got, src))
            if attack is not None:      # theorem run_depends_on_first_attack, also exercised through the driver
                suffix_reqs.append(([Atom("gentree-run"), stmts, adv + [rng.random() < 0.5 for _ in range(4)]], len(reqs) - 1))
        shapes.add(core.sx(stmts))
    replies = core.driver_batch(reqs)
    for rep, (_, idx) in zip(core.driver_batch([r for r, _ in suffix_reqs]), suffix_reqs):
        if core.sx(rep[1][:3]) != core.sx(replies[idx][1][:3]):
            raise core.HarnessError(f"model: choices after the first attack change the run: {core.sx(reqs[idx])}")
    chk = core.driver_batch([[Atom("gentree-check"), s] for s in programs])
    allb = {core.sx(s): r[1][0] for s, r in zip(programs, chk)}
    for (stmts, attack, got, src), rep in zip(meta, replies):
        if rep[0] != "ok":
            raise core.HarnessError(f"driver: {rep} for {core.sx(stmts)}")
        want = [rep[1][0], list(rep[1][1]), str(rep[1][2]), rep[1][3]]
        outcomes[got[2]] = outcomes.get(got[2], 0) + 1
        if got[1]:
            leaks_total += 1
            if not allb[core.sx(stmts)]:
                leaks_with_bare += 1
        if got != want:
            mism += 1
            bracketed = allb[core.sx(stmts)]
            # the property's oracle: a fully bracketed program must not leak (theorem bracketed_closed)
            if bracketed and got[1]:
                res.violate("C36:sem:bracketed-program-leaks",
                            f"a program whose generators are all bracketed/drained leaves generators {got[1]} unclosed "
                            f"on the real event loop (attack at point {attack}); the model proves none: {core.sx(stmts)}",
                            {"layer": "L-sem", "program": core.sx(stmts), "attack": attack, "python": got, "model": want,
                             "source": src})
            else:
                res.violate("C36:sem:model-vs-cpython",
                            f"GenTree model and CPython disagree on {core.sx(stmts)} attack={attack}: model "
                            f"(opened, unclosed, outcome, points)={want}, CPython={got}",
                            {"layer": "L-sem", "program": core.sx(stmts), "attack": attack, "python": got, "model": want,
                             "source": src}, no_input=True)
    cov["sem"] = {"programs": len(programs), "distinct_programs": len(shapes), "runs": runs, "mismatches": mism,
                  "classifier_roundtrips": roundtrip, "outcomes": outcomes, "runs_with_unclosed": leaks_total,
                  "of_which_program_has_bare_site": leaks_with_bare,
                  "fully_bracketed_programs": sum(1 for v in allb.values() if v),
                  "model_runs_with_random_choices_after_the_attack_equal": len(suffix_reqs)}
    return runs, len(shapes)


# --------------------------------------------------------------------------------------------------
# template sets
# --------------------------------------------------------------------------------------------------

class Node:
    def __init__(self, v, c=()):
        self.v = v
        self.c = list(c)


class TGen:
    """random template sets over the constructs that create or consume async generators"""

    def __init__(self, rng):
        self.rng = rng
        self.n = 0
        self.features = {}

    def hit(self, f):
        self.features[f] = self.features.get(f, 0) + 1

    def fresh(self, p):
        self.n += 1
        return f"{p}{self.n}"

    def body(self, d, cx):
        return "".join(self.item(d, cx) for _ in range(self.rng.randrange(1, 4)))

    def item(self, d, cx):
        r = self.rng
        choices = ["text", "await", "const", "genfilter"]
        if d > 0:
            choices += ["for", "for", "forif", "forif", "if", "setblock", "filterblock", "macro", "callblock"]
            if cx.get("includes"):
                choices += ["include", "include"]
            if cx.get("lib"):
                choices += ["import", "fromimport"]
            if cx.get("tree"):
                choices += ["recursive"]
        if cx.get("inloop"):
            choices += ["x", "loopvar"]
        if cx.get("super") and not cx.get("inmacro"):
            choices += ["super"]
        if cx.get("selfblocks") and not cx.get("inmacro"):
            choices += ["selfblock"]
        k = r.choice(choices)
        if k == "text":
            return r.choice(["a", "b ", "-", "t"])
        if k == "await":
            self.hit("await")
            return "{{ aw(%d) }}" % r.randrange(1, 4)
        if k == "const":
            return "{{ %d }}" % r.randrange(0, 9)
        if k == "genfilter":
            self.hit("sync-generator-into-async-filter")
            return "{{ %s }}" % r.choice(["sg()|first", "sg()|list|length", "sg()|map('string')|join", "sg()|select|list|length",
                                          "sg()|sum", "it()|first", "sg()|join('-')", "sg()|batch(2)|first", "sg()|unique|list|length"])
        if k == "x":
            return "{{ x }}"
        if k == "loopvar":
            a = r.choice(["index", "last", "length", "revindex", "first", "nextitem", "previtem"])
            self.hit("loop." + a)
            return "{{ loop.%s }}" % a
        if k in ("for", "forif"):
            it = r.choice(["xs", "xs", "ax()", "range(3)", "sg()", "sg()", "it()", "dv()", "xs|batch(2)", "xs|slice(2)",
                           "sg()|batch(2)", "sg()|list", "ax()|list"])
            lists = "batch" in it or "slice" in it
            cond = ""
            if k == "forif":
                cond = " if " + r.choice(["x", "aw(x)", "true"] if lists else ["x", "x > 0", "aw(x)", "true", "x != 1"])
                self.hit("for-filter")
            else:
                self.hit("for")
            if it == "ax()":
                self.hit("for-over-async-data")
            if it.startswith(("sg()", "it()", "dv()")) or lists:
                self.hit("for-over-sync-generator-or-iterator")
            inner = self.body(d - 1, dict(cx, inloop=True))
            els = ""
            if r.random() < 0.3:
                els = "{% else %}" + self.body(d - 1, cx)
                self.hit("for-else")
            return "{%% for x in %s%s %%}%s%s{%% endfor %%}" % (it, cond, inner, els)
        if k == "recursive":
            cond = r.choice(["", " if n.v", " if aw(n.v)"])
            self.hit("recursive" + ("-filter" if cond else ""))
            inner = r.choice(["{{ n.v }}", "{{ aw(n.v) }}", "{{ loop.index }}"])
            return "{%% for n in tree%s recursive %%}(%s{%% if n.c %%}{{ loop(n.c) }}{%% endif %%}){%% endfor %%}" % (cond, inner)
        if k == "if":
            return "{%% if %s %%}%s{%% endif %%}" % (r.choice(["aw(1)", "true", "xs"]), self.body(d - 1, cx))
        if k == "setblock":
            self.hit("set-block")
            v = self.fresh("v")
            return "{%% set %s %%}%s{%% endset %%}{{ %s }}" % (v, self.body(d - 1, cx), v)
        if k == "filterblock":
            self.hit("filter-block")
            return "{%% filter upper %%}%s{%% endfilter %%}" % self.body(d - 1, cx)
        if k == "macro":
            self.hit("macro")
            m = self.fresh("m")
            return "{%% macro %s(a) %%}<{{ a }}%s>{%% endmacro %%}{{ %s(%d) }}" % (
                m, self.body(d - 1, dict(cx, inmacro=True, inloop=False)), m, r.randrange(3))
        if k == "callblock":
            self.hit("call-block")
            m = self.fresh("c")
            return "{%% macro %s() %%}[{{ caller() }}%s]{%% endmacro %%}{%% call %s() %%}%s{%% endcall %%}" % (
                m, "{{ caller() }}" if r.random() < 0.3 else "", m, self.body(d - 1, dict(cx, inmacro=True)))
        if k == "include":
            name = r.choice(cx["includes"])
            mode = r.choice(["", " without context", " ignore missing", " with context"])
            self.hit("include" + mode.replace(" ", "-"))
            if r.random() < 0.1:
                name = "missing_template"
                mode = " ignore missing"
            return '{%% include "%s"%s %%}' % (name, mode)
        if k == "import":
            self.hit("import")
            a = self.fresh("l")
            return '{%% import "lib" as %s %%}{{ %s.lm(%d) }}' % (a, a, r.randrange(3))
        if k == "fromimport":
            wc = r.choice(["", " with context"])
            self.hit("from-import" + wc.replace(" ", "-"))
            return '{%% from "lib" import lm, lc%s %%}{{ lm(1) }}{%% call lc() %%}%s{%% endcall %%}' % (
                wc, self.body(d - 1, dict(cx, inmacro=True)))
        if k == "super":
            self.hit("super")
            return "{{ super() }}"
        if k == "selfblock":
            self.hit("self.block()")
            return "{{ self.%s() }}" % r.choice(cx["selfblocks"])
        raise AssertionError(k)

    def block(self, name, d, cx, scoped=False):
        self.hit("block" + ("-scoped" if scoped else ""))
        return "{%% block %s%s %%}%s{%% endblock %%}" % (name, " scoped" if scoped else "", self.body(d, cx))

    def template_set(self):
        r = self.rng
        d = r.randrange(1, 4)
        t = {}
        t["inc2"] = self.body(d - 1, {"tree": True})
        t["inc1"] = self.body(d, {"includes": ["inc2"], "tree": True})
        t["lib"] = ("{% macro lm(a) %}<{{ a }}" + self.body(d - 1, {"inmacro": True}) + ">{% endmacro %}"
                    "{% macro lc() %}[{{ caller() }}" + self.body(d - 1, {"inmacro": True}) + "]{% endmacro %}"
                    + self.body(1, {}))
        full = {"includes": ["inc1", "inc2"], "lib": True, "tree": True}
        loopblock = "{% for x in xs %}" + self.block("item", d - 1, dict(full, inloop=True), scoped=True) + "{% endfor %}"
        t["base"] = (self.body(d, full) + self.block("b1", d, full) + self.body(1, full) + self.block("b2", d, full)
                     + (loopblock if r.random() < 0.5 else ""))
        sup = dict(full, super=True)
        t["mid"] = '{% extends "base" %}' + self.block("b1", d, sup) + (self.block("b2", d, sup) if r.random() < 0.5 else "")
        t["child"] = ('{% extends "mid" %}' + self.block("b1", d, sup)
                      + (self.block("item", d - 1, dict(sup, inloop=True), scoped=True) if "item" in t["base"] and r.random() < 0.7 else ""))
        # extends that is not at root level (has_known_extends is False: the parent call sits behind `if parent_template is not None`),
        # with the condition true and false, if/else with two parents, and the parent named by a variable
        t["condT"] = '{% if yes %}{% extends "base" %}{% endif %}' + self.body(1, full) + self.block("b1", d, sup)
        t["condF"] = '{% if no %}{% extends "base" %}{% endif %}' + self.body(1, full) + self.block("b1", d, full)
        t["condE"] = ('{% if ' + r.choice(["yes", "no"]) + ' %}{% extends "mid" %}{% else %}{% extends "base" %}{% endif %}'
                      + self.block("b2", d, sup))
        t["varext"] = "{% extends pname %}" + self.block("b1", d, sup)
        self.hit("conditional-extends")
        for i in (1, 2):
            cx = dict(full, selfblocks=["q"])
            t[f"main{i}"] = self.body(d, cx) + self.block("q", d, full) + self.body(d, cx)
        self.hit("extends")
        return t, ["base", "mid", "child", "condT", "condF", "condE", "varext", "main1", "main2", "inc1"]


FIXED_SETS = [
    ({"main": "{% for x in xs if x >= 0 %}[{{ x }}]{% endfor %}"}, ["main"]),                         # F14 witness (fixed 78a2e7a)
    ({"main": "{% for x in xs if x %}{{ aw(x) }}{% else %}E{% endfor %}"}, ["main"]),
    ({"main": "{% for x in xs %}[{{ aw(x) }}{{ loop.index }}]{% endfor %}"}, ["main"]),
    ({"main": "{% for x in ax() %}[{{ x }}]{% endfor %}"}, ["main"]),
    ({"main": "{% for n in tree recursive %}({{ aw(n.v) }}{% if n.c %}{{ loop(n.c) }}{% endif %}){% endfor %}"}, ["main"]),
    ({"main": "{% for n in tree if n.v recursive %}({{ aw(n.v) }}{% if n.c %}{{ loop(n.c) }}{% endif %}){% endfor %}"}, ["main"]),
    ({"base": "[{% block b %}base{{ aw(1) }}{% endblock %}|{% block c %}{{ aw(2) }}c{% endblock %}]",
      "mid": '{% extends "base" %}{% block b %}m{{ super() }}{{ aw(3) }}{% endblock %}',
      "child": '{% extends "mid" %}{% block b %}c{{ aw(1) }}{{ super() }}{% endblock %}{% block c %}{{ self.b() }}{% endblock %}'},
     ["base", "mid", "child"]),
    ({"inc": "I{{ aw(1) }}{{ x }}J", "main": '{% for x in xs %}{% include "inc" %}{% endfor %}{% include "inc" without context %}'
      '{% include "nope" ignore missing %}'}, ["main"]),
    ({"lib": "{% macro m(a) %}<{{ aw(a) }}>{% endmacro %}{% macro w(a) %}<{{ caller(a) }}>{% endmacro %}{{ aw(2) }}L",
      "main": '{% import "lib" as l %}{{ l.m(1) }}{% from "lib" import m with context %}{{ m(2) }}'
              '{% call(z) l.w(1) %}c{{ z }}{{ aw(z) }}{% endcall %}'}, ["main"]),
    ({"main": "{% set v %}{% for x in xs %}{{ aw(x) }}{% endfor %}{% endset %}{{ v }}{% filter upper %}a{{ aw(1) }}{% endfilter %}"},
     ["main"]),
    ({"main": "{% for x in xs %}{% block item scoped %}{{ x }}{{ aw(x) }}{% endblock %}{% endfor %}"}, ["main"]),
    # extends behind a condition / an else / a variable (the parent's root generator is opened under `if parent_template is not None`)
    ({"p": "<{% block b %}P{{ aw(1) }}{% endblock %}|{{ aw(2) }}{% block c %}C{% endblock %}>", "q": "({% block b %}Q{% endblock %}{{ aw(3) }})",
      "ct": '{% if yes %}{% extends "p" %}{% endif %}{% block b %}c{{ aw(1) }}{{ super() }}{% endblock %}',
      "cf": '{% if no %}{% extends "p" %}{% endif %}top{{ aw(1) }}{% block b %}own{{ aw(2) }}{% endblock %}',
      "ce": '{% if no %}{% extends "p" %}{% else %}{% extends "q" %}{% endif %}{% block b %}e{{ aw(1) }}{{ super() }}{% endblock %}',
      "cv": "{% extends pq %}{% block b %}v{{ super() }}{{ aw(2) }}{% endblock %}"}, ["ct", "cf", "ce", "cv", "p"]),
    # synchronous generators / iterators in every loop position and as inputs of the async filters
    ({"main": "{% for x in sg() %}[{{ x }}]{{ aw(x) }}{% endfor %}"}, ["main"]),
    ({"main": "{% for x in sg() %}{{ loop.index }}{{ aw(x) }}{{ loop.last }}{% endfor %}"}, ["main"]),
    ({"main": "{% for x in sg() if x %}{{ aw(x) }}[{{ x }}]{% else %}E{% endfor %}"}, ["main"]),
    ({"main": "{% for b in xs|batch(2) %}{{ aw(1) }}{{ b }}{% endfor %}{% for b in xs|slice(2) %}{{ b }}{{ aw(2) }}{% endfor %}"}, ["main"]),
    ({"main": "{% for x in it() %}{{ aw(x) }}{% endfor %}{% for x in dv() if x %}{{ x }}{{ aw(x) }}{% endfor %}"}, ["main"]),
    ({"main": "{{ sg()|first }}{{ aw(1) }}{{ sg()|list }}{{ sg()|map('string')|join }}{{ aw(2) }}{{ sg()|batch(2)|first }}"}, ["main"]),
    ({"inc": "{% for x in sg() %}{{ aw(x) }}i{% endfor %}", "main": '{% for y in sg() %}{% include "inc" %}{% endfor %}'}, ["main"]),
]


class Boom(Exception):
    pass


class TRT:
    """per-run attack state, reached by the templates through stable environment globals"""

    def __init__(self):
        self.reset(None, 0)

    def reset(self, mode, k):
        self.mode, self.k = mode, k
        self.awaits = 0
        self.data_gens = 0

    async def aw(self, x=1):
        self.awaits += 1
        if self.mode == "cancel" and self.awaits == self.k:
            asyncio.current_task().cancel()
        await asyncio.sleep(0)
        if self.mode == "raise" and self.awaits == self.k:
            raise Boom()         # the body raises: an ordinary exception propagating out of the render
        return x

    @staticmethod
    def sg():
        """a synchronous generator object (what a context callable or a generator passed as data hands to a loop)"""
        def sync_gen():
            for v in (2, 0, 1):
                yield v
        return sync_gen()

    @staticmethod
    def it():
        return iter([1, 0, 2])

    @staticmethod
    def dv():
        return {"a": 2, "b": 0, "c": 1}.values()

    def ax(self):
        self.data_gens += 1

        async def data_gen():
            for v in (2, 0, 1):
                yield v
        return data_gen()


def make_env(jinja2, templates, trt):
    env = jinja2.Environment(enable_async=True, loader=jinja2.DictLoader(dict(templates)))
    env.globals.update(yes=True, no=False, pname="base", pq="p", aw=trt.aw, ax=trt.ax, sg=trt.sg, it=trt.it, dv=trt.dv, xs=[1, 0, 2],
                       tree=[Node(1, [Node(2), Node(0, [Node(3)])]), Node(0), Node(4, [Node(5)])])
    return env


async def consume(tmpl, trt, consumer):
    if consumer == "render":
        return await tmpl.render_async()
    agen = tmpl.generate_async()
    n = 0
    out = []
    try:
        async for chunk in agen:
            out.append(chunk)
            n += 1
            if trt.mode == "stop" and n == trt.k:
                break
    finally:
        await agen.aclose()
    return "".join(out)


def run_template(env, name, trt, consumer, mode, k, strong=True):
    """returns (outcome, text or None, chunks, leaked classes, finalizer calls, data generators left open)"""
    for t in list(env.cache.values()) if env.cache is not None else []:
        t._module = None         # so that every run renders imported modules again (same number of awaits each run)
    trt.reset(mode, k)
    loop = TrackLoop(strong=strong)
    try:
        tmpl = env.get_template(name)
        text = None
        try:
            text = loop.run_until_complete(consume(tmpl, trt, consumer))
            outcome = "done"
        except asyncio.CancelledError:
            outcome = "cancelled"
        except Boom:
            outcome = "raised"
        leaked, data_left = [], 0
        for i in loop.unclosed():
            c = site_class(loop.names[i], (DATA_FILE,))
            if c == "data":
                data_left += 1
            else:
                leaked.append(c)
        fin = [site_class(d, (DATA_FILE,)) for d in loop.finalized]
        return outcome, text, len(loop.names), sorted(leaked), fin, data_left
    finally:
        loop.cleanup()


def static_of_cls(c):
    return {"template-root": ["include", "extends"]}.get(c, [c])


def static_check(jinja2, env, templates):
    """L-code for one template set: [(template, function, stmts, sites)], raises asyncgen.Unclassified"""
    out = []
    for name, src in templates.items():
        code = env.compile(src, name=name, raw=True)
        for fn, stmts, sites in asyncgen.template_trees(code):
            out.append((name, fn, stmts, sites))
    return out


def l_templates(ctx, res, cov, jinja2):
    rng = ctx.rng("tpl")
    g = TGen(rng)
    sets = list(FIXED_SETS)
    for _ in range(ctx.pick(14, 160)):
        sets.append(g.template_set())
    trt = TRT()
    functions = 0
    unclassified = 0
    sampled_targets = full_targets = 0
    site_kinds = {}
    static_bare = {}           # label -> example
    reqs, req_meta = [], []
    runs = 0
    distinct = set()
    outcomes = {}
    leaks = {}                 # class -> first replay
    unpredicted = {}
    data_left_total = 0
    gen_errors = []
    noattack_leaks = 0
    noattack_case = {}
    maxk = {"chunks": 0, "awaits": 0}
    finalizer_natural = {}
    for templates, targets in sets:
        env = make_env(jinja2, templates, trt)
        # L-code --------------------------------------------------------------------------------
        set_bare = set()
        set_unclassified = False
        try:
            for name, fn, stmts, sites in static_check(jinja2, env, templates):
                functions += 1
                reqs.append([Atom("gentree-check"), stmts])
                req_meta.append((templates, name, fn, stmts))
                for label, kind in sites:
                    site_kinds[f"{label}:{kind}"] = site_kinds.get(f"{label}:{kind}", 0) + 1
                    if kind == "bare":
                        set_bare.add(label)
                        static_bare.setdefault(label, {"templates": templates, "template": name, "function": fn})
        except asyncgen.Unclassified as e:
            res.violate("C36:tie:unclassified-site", f"generated async code contains an async-generator site the translation "
                        f"validation cannot classify: {e}", {"templates": templates, "error": str(e)}, no_input=True)
            unclassified += 1
            set_unclassified = True
        # L-e2e ---------------------------------------------------------------------------------
        for name in targets:
            base = run_template(env, name, trt, "generate", None, 0)
            if base[0] != "done":
                gen_errors.append((name, templates[name][:60]))
                continue
            text = base[1]
            # count chunks with a separate run (the stop consumer counts them)
            trt_chunks = _count_chunks(env, name, trt)
            awaits = trt.awaits
            maxk["chunks"] = max(maxk["chunks"], trt_chunks)
            maxk["awaits"] = max(maxk["awaits"], awaits)
            rtext = run_template(env, name, trt, "render", None, 0)
            if rtext[1] != text:
                gen_errors.append((name, "render/generate differ"))
                continue
            if base[3] or rtext[3]:
                noattack_leaks += 1
                noattack_case.setdefault("case", {"templates": templates, "template": name, "consumer": "generate" if base[3] else "render",
                                                  "mode": None, "k": 0, "unclosed": base[3] or rtext[3]})
            attacks = [("generate", "stop", k) for k in range(1, trt_chunks + 1)]
            attacks += [(c, "cancel", k) for c in ("generate", "render") for k in range(1, awaits + 1)]
            attacks += [(c, "raise", k) for c in ("generate", "render") for k in range(1, awaits + 1)]
            cap = ctx.pick(90, 400)
            if len(attacks) > cap:      # very long renders: every k <= 12 and a seeded sample of the later ones
                head = [a for a in attacks if a[2] <= 12]
                rest = [a for a in attacks if a[2] > 12]
                attacks = head + rng.sample(rest, max(0, min(len(rest), cap - len(head))))
                sampled_targets += 1
            else:
                full_targets += 1
            attacks += [("generate", None, 0), ("render", None, 0)]
            for consumer, mode, k in attacks:
                out = run_template(env, name, trt, consumer, mode, k)
                runs += 1
                distinct.add((templates[name], consumer, mode, k))
                outcomes[out[0] + ":" + str(mode)] = outcomes.get(out[0] + ":" + str(mode), 0) + 1
                data_left_total += out[5]
                if mode == "cancel" and out[0] != "cancelled":
                    raise core.HarnessError(f"cancel at await {k} of {name} did not cancel the task")
                if mode == "raise" and out[0] != "raised":
                    raise core.HarnessError(f"the exception raised at await {k} of {name} did not come out of the render")
                for c in set(out[3]):
                    case = {"templates": templates, "template": name, "consumer": consumer, "mode": mode, "k": k,
                            "unclosed": out[3]}
                    leaks.setdefault(c, case)
                    if not (set(static_of_cls(c)) & set_bare) and not set_unclassified:
                        unpredicted.setdefault(c, case)
    # natural mode (no strong references): the leak is closed by the finalizer hook only
    for c, case in list(leaks.items())[:3]:
        env = make_env(jinja2, case["templates"], trt)
        out = run_template(env, case["template"], trt, case["consumer"], case["mode"], case["k"], strong=False)
        finalizer_natural[c] = out[4]
    replies = core.driver_batch(reqs)
    bare_functions = 0
    for (templates, name, fn, stmts), rep in zip(req_meta, replies):
        if rep[0] != "ok":
            raise core.HarnessError(f"driver: {rep} for {core.sx(stmts)}")
        allb, nbare, labels = rep[1]
        if not allb:      # every generated function must be fully bracketed (theorem bracketed_closed then applies to it)
            bare_functions += 1
            for lab in (labels or ["unknown"]):
                static_bare.setdefault(lab, {"templates": templates, "template": name, "function": fn})
    static_of = {c: static_of_cls(c) for c in leaks}
    explained = set()
    for lab, where in static_bare.items():
        cls = [c for c in leaks if lab in static_of.get(c, [c])]
        if cls:
            case = leaks[cls[0]]
            explained.add(cls[0])
            how = (f"the consumer takes {case['k']} chunk(s) from generate_async() and calls aclose()" if case["mode"] == "stop"
                   else f"the task is cancelled at await #{case['k']} ({case['consumer']})" if case["mode"] == "cancel"
                   else f"the data function raises at await #{case['k']} ({case['consumer']})")
            res.violate(f"C36:bare:{lab}", f"the {lab} generator is iterated bare in generated code and a {cls[0]} generator is "
                        f"left unclosed when {how}: template {case['templates'][case['template']]!r}; only the GC finaliser "
                        f"closes it (finalizer hook calls without harness references: {finalizer_natural.get(cls[0])})", case)
        else:
            res.violate(f"C36:bare:{lab}", f"generated code iterates a {lab} generator bare (no try/finally-aclose); no render "
                        f"in this run left it unclosed", where, no_input=True)
    for c, case in leaks.items():
        if c not in explained:
            why = (f"it was suspended inside a generator that a bare site abandoned (bare sites found: {sorted(static_bare)}; "
                   f"theorem bare_abandons_subtree)" if static_bare else
                   "although every site of the template set is classified as closing")
            res.violate(f"C36:bare:{c}", f"a {c} generator is left unclosed after the task finished ({case['mode']} at "
                        f"{case['k']}, {case['consumer']}); {why}: {case['templates'][case['template']]!r}", case)
    for c, case in unpredicted.items():
        if c in explained:      # (otherwise already reported by the loop above)
            res.violate(f"C36:unpredicted-leak:{c}", f"a {c} generator leaks in a template set that has no bare site for it: "
                        f"{case['templates'][case['template']]!r}", case)
    if len(gen_errors) > max(2, (full_targets + sampled_targets) // 20):
        raise core.HarnessError(f"template generator produced too many templates that do not render: {gen_errors[:3]}")
    cov["templates"] = {
        "template_sets": len(sets), "functions_validated": functions, "site_kinds": site_kinds,
        "functions_with_bare_site": bare_functions, "template_sets_with_unclassified_site": unclassified, "runs": runs,
        "targets_with_every_k": full_targets, "targets_with_sampled_k": sampled_targets, "outcomes": outcomes,
        "leaked_generator_classes": {c: 1 for c in leaks}, "data_generators_left_open_by_bare_data_iteration": data_left_total,
        "no_attack_runs_with_leak": noattack_leaks, "max_chunks": maxk["chunks"], "max_awaits": maxk["awaits"],
        "features": g.features, "finalizer_hook_calls_natural_mode": finalizer_natural,
        "generated_templates_skipped_because_they_do_not_render": len(gen_errors),
    }
    if noattack_leaks:
        c = noattack_case["case"]
        res.violate("C36:leak-without-attack", f"a render that ran to the end left generators {c['unclosed']} unclosed: "
                    f"{c['templates'][c['template']]!r} ({c['consumer']})", c)
    return runs + functions, len(distinct)


def _count_chunks(env, name, trt):
    trt.reset("stop", -1)
    for t in list(env.cache.values()):
        t._module = None
    loop = TrackLoop()
    try:
        async def count():
            n = 0
            agen = env.get_template(name).generate_async()
            async with contextlib.aclosing(agen):
                async for _ in agen:
                    n += 1
            return n
        return loop.run_until_complete(count())
    finally:
        loop.cleanup()


def run(ctx, res):
    jinja2 = core.import_jinja()
    cov = {}
    e1, d1 = l_sem(ctx, res, cov)
    e2, d2 = l_templates(ctx, res, cov, jinja2)
    # library sites (Gen/AsyncSites.lean): if the table changed / the proof broke, name the offending sites
    if ctx.gen_changed or ctx.proof_broken or ctx.tie_broken:
        try:
            sites, _ = translate.async_sites.library_sites()
            bare = [s for s in sites if s[3] == "bare"]
            for f, q, w, _k in bare:
                res.violate(f"C36:bare:library:{q}", f"{f}.py {q} iterates {w} with a bare async for "
                            f"(theorem library_sites_closing no longer holds over the regenerated table)",
                            {"site": [f, q, w]}, no_input=not any(v.key.startswith("C36:bare:") and not v.no_input
                                                                   for v in res.violations))
        except Exception as e:  # noqa
            res.notes.append(f"library_sites: {e}")
    res.coverage.update({
        "evaluations": e1 + e2,
        "distinct_nontrivial": d1 + d2,
        "rule": "L-sem: fixed + random GenTree programs (<=13 nodes, depth<=3) emitted in the real idioms and run under "
                "every attack position 0..points plus no attack, compared with the Lean model (a case is one program x one "
                "attack; distinct = distinct programs). L-code: every generated function of fixed + random template sets "
                "(base/mid/child inheritance chain, two includes, a macro library, two free templates) classified and sent "
                "to the Lean driver. L-e2e: each renderable template x (stop after k chunks for every k) + (cancel at await k "
                "for every k, via generate_async and via render_async) + unattacked; distinct = distinct (template source, "
                "consumer, mode, k)",
        "samples": [{"program": '(o r "s" ((y) (y)) ((y)))', "attack": 0},
                    {"template": FIXED_SETS[0][0]["main"], "mode": "stop", "k": 2}],
        **cov,
    })


def replay(ctx, case):
    jinja2 = core.import_jinja()
    c = case.get("case", case)
    if c.get("layer") == "L-sem":
        ns = {}
        exec(compile(c["source"], "<c36-sem>", "exec"), ns)  # noqa: S102
        got, fin = run_sem_program(ns, "g0", c["attack"])
        return {"python": got, "model_said": c.get("model")}
    if "templates" not in c or "template" not in c or "mode" not in c:
        return c
    trt = TRT()
    env = make_env(jinja2, c["templates"], trt)
    out = run_template(env, c["template"], trt, c["consumer"], c["mode"], c["k"])
    nat = run_template(env, c["template"], trt, c["consumer"], c["mode"], c["k"], strong=False)
    return {"outcome": out[0], "generators_started": out[2], "unclosed_after_task_finished": out[3],
            "finalizer_hook_calls_without_harness_references": nat[4]}
