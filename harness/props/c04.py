"""C04 — template inheritance renders the most-derived block overrides.

Proof: lean/JinjaV/Props/C04.lean over Model/Inherit.lean (transcription of the generated inheritance code and of
Context.blocks / Context.super / BlockReference / TemplateReference) and Spec/Inherit.lean (resolver written from the docs).
Tie: the harness generates hierarchy *structures*, renders the template text from them itself, runs the real code
(DictLoader; render / render_async / generate / stream; root_render_func + Context.blocks), and sends the same structures to
the Lean driver, which answers with the model's result, the specification's result and the oracle's verdict.
"""
from __future__ import annotations

import asyncio
import itertools

import translate.dump_stores
from harness import core
from harness.core import Atom

ID = "C04"
LEAN_MODULES = ["JinjaV.Props.C04"]
GEN = [translate.dump_stores.gen]
LEVEL = "proof"
TRUSTED = [
    "Model/Inherit.lean is a hand transcription of compiler.py visit_Template/visit_Block/visit_Extends/visit_Output "
    "(826-1035, 1505-1582) and runtime.py Context.__init__/super/derived, BlockReference, TemplateReference; tied by the "
    "L-unit and L-e2e correspondence of this run, not regenerated from the source",
    "the harness's rendering of a hierarchy structure to template text (src_piece) and its mapping of exceptions to the "
    "model's error kinds",
    "CPython generator/yield-from semantics for the generated root and block functions",
    "translate/dump_stores.py (Python ast): that Gen/DumpStores.lean is the body of Symbols.dump_stores; the loop object is "
    "modelled by one pseudo-variable per attribute (index, first, last, length)",
]
ASSUMPTIONS = [
    "autoescape off, default delimiters, default Undefined; variable values are strings",
    "theorems quantify over hierarchies of the documented shape: every child starts with {% extends %} or "
    "{% if flag %}{% extends %}{% endif %}, nothing else at child top level is a second extends, template names along the "
    "chain are distinct; outside that shape (text or blocks before extends, second extends, missing templates) only the "
    "model/implementation correspondence is checked",
    "recursion budget: hierarchies whose rendering recurses without bound (self.a() inside a) are not generated",
]
CLAIM = dict(
    category="proof",
    technique="Lean 4 proof that the transcribed block-stack state machine refines the documented inheritance resolver "
              "+ L-unit/L-e2e correspondence of the state machine with the running code",
    text="Theorems (Props/C04.lean), for ALL chains c_n extends … extends c_0 of the documented shape, all block sets, all "
         "variable bindings and every recursion budget: blocks_after_chain (after the root functions have run, "
         "context.blocks[b] is the list of definitions of b most-derived first), render_chain (model render = specification: "
         "the root template's content with every block placeholder filled by its most-derived definition, nothing from the "
         "children outside blocks, also not from if/for bodies at their top level; static, conditional and variable "
         "extends), child_root_silent, super_next (super() in the i-th definition renders the (i+1)-th, super.super the "
         "(i+2)-th, undefined when absent), self_most_derived (self.b() renders blocks[b][0], raises on a required head), "
         "scoped_sees_locals (a scoped placeholder passes the loop variables, an unscoped one does not), "
         "dump_stores_innermost_wins (Symbols.dump_stores as read from idtracking.py resolves every name of the scope chain "
         "to its innermost binding; re-proved over the regenerated program each run), required_anywhere "
         "(full strength: wherever `required` is declared, rendering raises exactly when the most-derived definition of a "
         "rendered block is a required declaration), required_most_derived_raises, required_via_super_renders, "
         "required_root_iff, extends_twice (a second executed extends raises TemplateRuntimeError). Tie: L-e2e on "
         "generated DictLoader hierarchies (depth 1-4, 1-5 block names, nesting, super/super.super/self, scoped blocks in "
         "loops, required at every level, top-level loops with blocks in children, conditional/variable/Template-object "
         "extends; sync, async, generate, stream) against the model's result for the same structure sent over the wire, the "
         "specification deciding every difference; L-unit on Template.blocks, Context.blocks after the root functions, "
         "Context.super/BlockReference depth arithmetic, Context.derived(locals) (lookups = model, original context "
         "unchanged); directed probes: after a scoped block in a loop, later blocks/overrides/super targets/self calls print "
         "the loop variable's name (render variable present and absent, templates with and without a top-level "
         "assignment); exhaustive small scope (<=3 templates x <=2 block names x "
         "{absent, plain, super, required} quick; <=4 thorough).",
    note="Trusted: hand transcription of the generated code (tied by correspondence only, no L-code layer), text rendering of "
         "structures in the harness. The theorems do not cover text/blocks before extends (documented as printed), a second "
         "extends, or `with`/`filter` bodies (not in the piece language; covered by the unit tests of the repair only).",
    design_ref="§5 C04",
)

BNAMES = ["a", "b", "c", "d", "e"]
HOPS, FUEL = 8, 60


# ---------------------------------------------------------------------------------------------
# structure -> template text, structure -> wire
# ---------------------------------------------------------------------------------------------

def src_piece(p) -> str:
    k = p[0]
    if k == "t":
        return p[1]
    if k == "v":
        return "{{ %s }}" % p[1]
    if k == "b":
        return "{%% block %s%s%s %%}%s{%% endblock %%}" % (
            p[1], " scoped" if p[2] else "", " required" if p[3] else "", src_body(p[4]))
    if k == "sup":
        return "{{ super%s() }}" % (".super" * p[1])
    if k == "self":
        return "{{ self.%s() }}" % p[1]
    if k == "for":
        return "{%% for %s in [%s] %%}%s{%% endfor %%}" % (p[1], ", ".join("'%s'" % i for i in p[2]), src_body(p[3]))
    if k == "if":
        return "{%% if %s %%}%s{%% endif %%}" % (p[1], src_body(p[2]))
    if k == "with":
        return "{%% with %s = '%s' %%}%s{%% endwith %%}" % (p[1], p[2], src_body(p[3]))
    if k == "la":
        return "{{ loop.%s }}" % p[1]
    if k == "extl":
        return '{%% extends "%s" %%}' % p[1]
    if k == "extd":
        return "{%% extends %s %%}" % p[1]
    raise AssertionError(k)


def src_body(ps) -> str:
    return "".join(src_piece(p) for p in ps)


PAD_SET = "{% set zq9 = 'q' %}"


def is_ext_head(p):
    return p[0] in ("extl", "extd") or (p[0] == "if" and len(p[2]) == 1 and p[2][0][0] in ("extl", "extd"))


def case_sources(case):
    """template text of a case.  Templates named in case['sets'] additionally get a top-level assignment to a name
    that no piece reads (after the leading extends, else at the start): it changes nothing the model or the
    documentation speaks about, but makes Context.vars non-empty (other code paths in Context.get_all / derived)."""
    out = {}
    for n, body in case["tpls"]:
        if n in case.get("sets", ()):
            k = 1 if body and is_ext_head(body[0]) else 0
            out[n] = src_body(body[:k]) + PAD_SET + src_body(body[k:])
        else:
            out[n] = src_body(body)
    return out


def wire_piece(p):
    k = p[0]
    if k in ("t", "v", "self", "extl", "extd"):
        return [Atom(k), p[1]]
    if k == "b":
        return [Atom("b"), p[1], bool(p[2]), bool(p[3]), [wire_piece(q) for q in p[4]]]
    if k == "sup":
        return [Atom("sup"), p[1]]
    if k == "for":
        return [Atom("for"), p[1], list(p[2]), [wire_piece(q) for q in p[3]]]
    if k == "if":
        return [Atom("if"), p[1], [wire_piece(q) for q in p[2]]]
    if k == "with":
        return [Atom("with"), p[1], p[2], [wire_piece(q) for q in p[3]]]
    if k == "la":
        return [Atom("la"), p[1]]
    raise AssertionError(k)


def wire_case(case):
    return [Atom("inh-render"), HOPS, FUEL,
            [[n, [wire_piece(p) for p in body]] for n, body in case["tpls"]],
            [[k, v] for k, v in case["vars"]], case["main"]]


# ---------------------------------------------------------------------------------------------
# the implementation
# ---------------------------------------------------------------------------------------------

def classify(e) -> str:
    from jinja2 import exceptions as X
    if isinstance(e, X.UndefinedError):
        return "undefined"
    if isinstance(e, X.TemplateRuntimeError):
        m = str(e)
        if "Required block" in m:
            return "required"
        if "extended multiple times" in m:
            return "extendedTwice"
        return "Other:TemplateRuntimeError:" + m
    if isinstance(e, X.TemplatesNotFound):
        return "Other:TemplatesNotFound"
    if isinstance(e, X.TemplateNotFound):
        return "notFound"
    if isinstance(e, X.TemplateSyntaxError):
        return "syntax"
    if isinstance(e, RecursionError):
        return "fuel"
    return "Other:" + type(e).__name__


MODES = ("render", "generate", "stream", "render_async", "generate_async", "root_func")


def real_run(jinja2, case, modes=MODES, envs=None, tblocks=False):
    """returns {mode: ["out", s] | ["err", kind]}, plus key "blocks" = Context.blocks after root_render_func and (tblocks)
    key "tblocks" = {template: list(Template.blocks) | "syntax"}"""
    if envs is None:
        srcs = case_sources(case)
        env = jinja2.Environment(loader=jinja2.DictLoader(srcs))
        aenv = jinja2.Environment(loader=jinja2.DictLoader(srcs), enable_async=True)
    else:
        env, aenv = envs
    out = {}

    def data(e):
        d = dict(case["vars"])
        for k in case.get("tplobj", ()):
            d[k] = e.get_template(d[k])
        return d

    def attempt(mode, f):
        try:
            out[mode] = ["out", f()]
        except Exception as e:  # noqa
            out[mode] = ["err", classify(e)]

    main = case["main"]
    for mode in modes:
        if mode == "render":
            attempt(mode, lambda: env.get_template(main).render(data(env)))
        elif mode == "generate":
            attempt(mode, lambda: "".join(env.get_template(main).generate(data(env))))
        elif mode == "stream":
            attempt(mode, lambda: "".join(env.get_template(main).stream(data(env))))
        elif mode == "render_async":
            async def go():
                t = aenv.get_template(main)
                return await t.render_async(data(aenv))
            attempt(mode, lambda: asyncio.run(go()))
        elif mode == "generate_async":
            async def go2():
                t = aenv.get_template(main)
                return "".join([x async for x in t.generate_async(data(aenv))])
            attempt(mode, lambda: asyncio.run(go2()))
        elif mode == "root_func":
            def rf():
                t = env.get_template(main)
                ctx = t.new_context(data(env))
                s = "".join(t.root_render_func(ctx))
                out["blocks"] = sorted([k, [f.__globals__["name"] for f in v]] for k, v in ctx.blocks.items())
                return s
            attempt(mode, rf)
    if tblocks:
        tb = {}
        for n, _ in case["tpls"]:
            try:
                tb[n] = list(env.get_template(n).blocks)
            except jinja2.TemplateSyntaxError:
                tb[n] = "syntax"
        out["tblocks"] = tb
    return out


def canon(o):
    if isinstance(o, list):
        return [canon(x) for x in o]
    return str(o) if isinstance(o, Atom) else o


# ---------------------------------------------------------------------------------------------
# random hierarchies
# ---------------------------------------------------------------------------------------------

TEXTS = ["x", "Hello", " ", "<p>", "-", "[", "]", "ab", "1", "|", "äö", ", ", "()", "q r"]


class HG:
    """one PRNG → one hierarchy.  Block bodies refer (nested block, self.n()) only to names later in BNAMES, so that
    rendering terminates."""

    def __init__(self, rng):
        self.r = rng
        self.feat = set()

    def text(self):
        return ["t", self.r.choice(TEXTS)]

    def mkblock(self, lvl, names, i, declared, depth, in_loop, loopvars):
        r = self.r
        name = names[i]
        declared.add(name)
        scoped = r.random() < (0.5 if in_loop else 0.12)
        if r.random() < 0.09:
            self.feat.add("required@%s" % ("root" if lvl == 0 else "child"))
            return ["b", name, scoped, True, r.choice([[], [], [["t", " "]], [["t", "  "]]])]
        if scoped:
            self.feat.add("scoped" + ("-in-loop" if in_loop else ""))
        return ["b", name, scoped, False, self.block_body(lvl, names, i, declared, depth, loopvars)]

    def block_body(self, lvl, names, i, declared, depth, loopvars):
        r = self.r
        out = []
        for _ in range(r.randrange(0, 5)):
            c = r.random()
            later = [j for j in range(i + 1, len(names))]
            fresh = [j for j in later if names[j] not in declared]
            if c < 0.30:
                out.append(self.text())
            elif c < 0.42:
                out.append(["v", r.choice(["g", "x", "y"] + loopvars)])
            elif c < (0.50 if lvl == 0 else 0.72):
                k = r.choice([0, 0, 0, 0, 1, 1, 2])
                self.feat.add("super" + (".super" * k))
                out.append(["sup", k])
            elif c < 0.80 and later:
                self.feat.add("self")
                out.append(["self", names[r.choice(later)]])
            elif c < 0.90 and fresh and depth > 0:
                self.feat.add("nested")
                out.append(self.mkblock(lvl, names, r.choice(fresh), declared, depth - 1, False, loopvars))
            elif c < 0.96 and depth > 0:
                lv = r.choice(["x", "y"])
                body = []
                for _ in range(r.randrange(1, 4)):
                    fresh = [j for j in later if names[j] not in declared]
                    cc = r.random()
                    if cc < 0.3:
                        body.append(self.text())
                    elif cc < 0.55:
                        body.append(["v", lv])
                    elif cc < 0.8 and fresh:
                        body.append(self.mkblock(lvl, names, r.choice(fresh), declared, depth - 1, True, loopvars + [lv]))
                    elif cc < 0.9:
                        body.append(["sup", 0])
                    elif later:
                        body.append(["self", names[r.choice(later)]])
                out.append(["for", lv, [r.choice(["1", "2", "k", ""]) for _ in range(r.randrange(0, 4))], body])
            elif depth > 0:
                fl = r.choice(["t", "u"])
                inner = [self.text()]
                fresh = [j for j in later if names[j] not in declared]
                if fresh and r.random() < 0.5:
                    inner.append(self.mkblock(lvl, names, r.choice(fresh), declared, depth - 1, False, loopvars))
                out.append(["if", fl, inner])
        return out

    def top_body(self, lvl, names, declared, allow_loops):
        r = self.r
        out = []
        n = r.randrange(1, 6) if lvl == 0 else r.randrange(0, 5)
        for _ in range(n):
            c = r.random()
            fresh = [j for j in range(len(names)) if names[j] not in declared]
            if c < 0.25:
                out.append(self.text())
            elif c < 0.32:
                out.append(["v", r.choice(["g", "x"])])
            elif c < 0.70 and fresh:
                out.append(self.mkblock(lvl, names, r.choice(fresh), declared, 2, False, []))
            elif c < 0.78:
                self.feat.add("self-top")
                out.append(["self", r.choice(names)])
            elif c < 0.90 and allow_loops:
                lv = r.choice(["x", "y"])
                body = []
                for _ in range(r.randrange(1, 4)):
                    fresh = [j for j in range(len(names)) if names[j] not in declared]
                    cc = r.random()
                    if cc < 0.25:
                        body.append(self.text())
                    elif cc < 0.5:
                        body.append(["v", lv])
                    elif cc < 0.85 and fresh:
                        body.append(self.mkblock(lvl, names, r.choice(fresh), declared, 1, True, [lv]))
                    else:
                        body.append(["self", r.choice(names)])
                if lvl > 0 and any(p[0] == "b" for p in body):
                    self.feat.add("child-toplevel-loop-block")
                out.append(["for", lv, [r.choice(["1", "2", "k"]) for _ in range(r.randrange(0, 4))], body])
            elif c < 0.96:
                fl = r.choice(["t", "u"])
                inner = [self.text()]
                fresh = [j for j in range(len(names)) if names[j] not in declared]
                if fresh and r.random() < 0.6:
                    inner.append(self.mkblock(lvl, names, r.choice(fresh), declared, 1, False, []))
                self.feat.add("block-in-if")
                out.append(["if", fl, inner])
            elif lvl > 0:
                self.feat.add("super-outside-block")
                out.append(["sup", 0])
        return out

    def make(self):
        r = self.r
        depth = r.choice([1, 2, 2, 3, 3, 3, 4, 4])
        names = BNAMES[: r.randrange(1, 6)]
        vars_ = {"g": "G", "t": "1", "u": ""}
        if r.random() < 0.5:
            vars_["x"] = "X"
        if r.random() < 0.2:
            del vars_["u"]
        tplobj = []
        tpls = []
        for lvl in range(depth):
            declared = set()
            cname = "c%d" % lvl
            if lvl == 0:
                body = self.top_body(0, names, declared, True)
            else:
                parent = "c%d" % (lvl - 1)
                k = r.random()
                pre, post = [], []
                if k < 0.48:
                    head = [["extl", parent]]
                    self.feat.add("ext-static")
                elif k < 0.63:
                    vars_["f%d" % lvl] = "1"
                    head = [["if", "f%d" % lvl, [["extl", parent]]]]
                    self.feat.add("ext-cond-true")
                elif k < 0.70:
                    if r.random() < 0.5:
                        vars_["f%d" % lvl] = ""
                    head = [["if", "f%d" % lvl, [["extl", parent]]]]
                    self.feat.add("ext-cond-false")
                elif k < 0.84:
                    vars_["p%d" % lvl] = parent
                    head = [["extd", "p%d" % lvl]]
                    self.feat.add("ext-var-name")
                elif k < 0.96:
                    vars_["p%d" % lvl] = parent
                    tplobj.append("p%d" % lvl)
                    head = [["extd", "p%d" % lvl]]
                    self.feat.add("ext-var-template-object")
                elif k < 0.98:
                    head = [["extd", "nope%d" % lvl]]
                    self.feat.add("ext-var-undefined")
                else:
                    head = [["extl", "missing"]]
                    self.feat.add("ext-missing-template")
                q = r.random()
                if q < 0.05:
                    pre = [self.text()]
                    self.feat.add("text-before-extends")
                elif q < 0.08:
                    fresh = [j for j in range(len(names))]
                    pre = [self.mkblock(lvl, names, r.choice(fresh), declared, 1, False, [])]
                    self.feat.add("block-before-extends")
                elif q < 0.13:
                    other = r.choice(["c0", "zz"])
                    post = [r.choice([["extl", other], ["if", r.choice(["t", "u"]), [["extl", other]]]])]
                    self.feat.add("second-extends")
                body = pre + head + self.top_body(lvl, names, declared, r.random() < 0.3) + post
                if post and r.random() < 0.5:
                    body += self.top_body(lvl, names, declared, False)
            tpls.append([cname, body])
        sets = []
        if r.random() < 0.4:
            sets = self.add_probe(tpls, vars_, depth)
        if r.random() < 0.4:
            self.add_nested_scopes(tpls, vars_, depth)
        # a template outside the chain with the same block names
        zz = set()
        tpls.append(["zz", [["t", "ZZ"]] + [self.mkblock(0, names, i, zz, 0, False, []) for i in range(len(names)) if r.random() < 0.5]])
        r.shuffle(tpls)
        main = "c%d" % r.choice([depth - 1] * 4 + list(range(depth)))
        return {"tpls": tpls, "vars": sorted(vars_.items()), "main": main, "tplobj": tplobj, "sets": sets}

    def add_nested_scopes(self, tpls, vars_, depth):
        """a placeholder (scoped, or unscoped as a control) whose call site is 2-3 scopes deep (for / with) that bind the
        SAME names at several levels (loop target reused, `loop` itself, with variables); the block, its overrides in 0-2
        descendants and super() from them read those names and loop.index/first/last/length: the innermost binding
        must be the visible one."""
        r = self.r
        self.feat.add("nested-scopes")
        names = r.choice([["x"], ["x"], ["x", "y"], ["x", "w"]])
        nest = r.randrange(2, 4)
        scoped = r.random() < 0.8
        kinds = [r.choice(["for", "for", "with"]) for _ in range(nest)]
        if "for" not in kinds:
            kinds[r.randrange(nest)] = "for"
        has_for = True
        attrs = ["index", "first", "last", "length"]

        def reads(n):
            out = []
            for _ in range(n):
                c = r.random()
                if c < 0.45:
                    out.append(["v", r.choice(names)])
                elif c < 0.85 and has_for:
                    out.append(["la", r.choice(attrs)])
                else:
                    out.append(["t", r.choice([":", ";", ","])])
            return out

        inner_body = [["t", "/"]] + reads(r.randrange(2, 5)) + [["t", "\\"]]
        if not scoped:
            inner_body = [p for p in inner_body if p[0] != "la"] if r.random() < 0.7 else inner_body
            self.feat.add("nested-scopes-unscoped-control")
        piece = ["b", "n1", scoped, False, inner_body]
        cur = [piece]
        if r.random() < 0.4:
            cur = [["la", r.choice(attrs)] if kinds[-1] == "for" else ["v", r.choice(names)]] + cur
        for depth_i in range(nest - 1, -1, -1):
            nm = r.choice(names)
            if kinds[depth_i] == "for":
                items = [r.choice(["a", "b", "1", "2"]) for _ in range(r.randrange(1, 4))]
                cur = [["for", nm, items, [["t", "["]] + cur + ([["v", nm]] if r.random() < 0.3 else []) + [["t", "]"]]]]
                self.feat.add("nested-for-reused-target" if names.count(nm) and depth_i < nest - 1 else "nested-for")
            else:
                cur = [["with", nm, r.choice(["p", "q"]), [["t", "("]] + cur + [["t", ")"]]]]
                self.feat.add("nested-with")
        root = tpls[0][1]
        if r.random() < 0.3:
            root.append(["b", "w2", False, False, cur])
            self.feat.add("nested-scopes-inside-block")
        else:
            root += cur
        overrides = 0
        for lvl in range(1, depth):
            if overrides < 2 and r.random() < 0.5:
                overrides += 1
                body = [["t", "<"]] + reads(r.randrange(1, 4))
                if not scoped and r.random() < 0.7:
                    body = [p for p in body if p[0] != "la"]
                if r.random() < 0.6:
                    body.append(["sup", 0])
                    self.feat.add("nested-scopes-override-super")
                tpls[lvl][1].append(["b", "n1", False, False, body + [["t", ">"]]])
        for nm in names:
            if r.random() < 0.4:
                vars_[nm] = nm.upper() + "ctx"

    def add_probe(self, tpls, vars_, depth):
        """a scoped block called inside a loop, then blocks / overrides / super targets / self calls rendered LATER that
        print the loop variable's name (with a render variable of that name present or absent), and templates with and
        without a top-level assignment: what a block sees must not depend on what ran before it."""
        r = self.r
        self.feat.add("scoped-loop-then-probe")
        lv = r.choice(["x", "y"])
        if r.random() < 0.5:
            vars_[lv] = lv.upper() + "ctx"
            self.feat.add("probe-name-in-render-vars")
        else:
            vars_.pop(lv, None)
            self.feat.add("probe-name-undefined")
        items = [r.choice(["1", "2", "k"]) for _ in range(r.randrange(1, 4))]
        loop = ["for", lv, items, [["t", "["], ["b", "s1", True, False, [["v", lv]] + ([["sup", 0]] if r.random() < 0.1 else [])],
                                   ["t", "]"]]]
        root = tpls[0][1]
        if r.random() < 0.3:
            root.append(["b", "w1", False, False, [loop, ["v", lv]]])
            self.feat.add("probe-loop-inside-block")
        else:
            root.append(loop)
        root.append(["b", "p1", False, False, [["t", "<"], ["v", lv], ["t", ">"]]])
        if r.random() < 0.5:
            root.append(["self", "p1"])
        if r.random() < 0.5:
            root.append(["b", "p2", r.random() < 0.3, False, [["if", lv, [["t", "T"]]], ["v", lv]]])
        if r.random() < 0.3:
            root.append(["self", "s1"])
        for lvl in range(1, depth):
            body = tpls[lvl][1]
            if r.random() < 0.5:
                body.append(["b", "p1", False, False, [["t", "o%d" % lvl], ["v", lv], ["sup", 0]]])
                self.feat.add("probe-override-with-super")
            if r.random() < 0.3:
                body.append(["b", "s1", False, False, [["t", "s%d" % lvl], ["v", lv], ["sup", 0]]])
                self.feat.add("probe-scoped-placeholder-overridden")
            if r.random() < 0.2:
                body.append(["b", "p2", False, False, [["v", lv], ["self", "p1"]]])
        sets = ["c%d" % l for l in range(depth) if r.random() < 0.3]
        if sets:
            self.feat.add("probe-top-level-assignment")
        return sets


# ---------------------------------------------------------------------------------------------
# exhaustive small scope
# ---------------------------------------------------------------------------------------------

OPTS = ("absent", "plain", "super", "required")


def small_case(nt, nb, choice):
    """choice[level][block] in OPTS; template c<level> extends c<level-1>.  A template's name spells its own options and
    those of its ancestors, so that one Environment serves the whole enumeration and compiles each template once."""
    names = BNAMES[:nb]
    tpls = []
    tname = lambda lvl: "c%d_%d_%s" % (lvl, nb, ".".join("".join(o[0] for o in choice[l]) for l in range(lvl + 1)))  # noqa
    for lvl in range(nt):
        body = []
        if lvl == 0:
            body.append(["t", "["])
        else:
            body += [["extl", tname(lvl - 1)], ["t", "J%d" % lvl]]
        for bi, name in enumerate(names):
            o = choice[lvl][bi]
            if o == "plain":
                body.append(["b", name, False, False, [["t", "%d%s" % (lvl, name)]]])
            elif o == "super":
                body.append(["b", name, False, False, [["t", "(%d%s" % (lvl, name)], ["sup", 0], ["t", ")"]]])
            elif o == "required":
                body.append(["b", name, False, True, []])
            if lvl == 0:
                body.append(["t", "|"])
        if lvl == 0:
            body.append(["t", "]"])
        tpls.append([tname(lvl), body])
    return {"tpls": tpls, "vars": [], "main": tname(nt - 1), "tplobj": []}


def small_scope(max_t, max_b):
    for nt in range(1, max_t + 1):
        for nb in range(1, max_b + 1):
            per_tpl = list(itertools.product(OPTS, repeat=nb))
            for choice in itertools.product(per_tpl, repeat=nt):
                yield small_case(nt, nb, choice)


# ---------------------------------------------------------------------------------------------
# comparison
# ---------------------------------------------------------------------------------------------

def describe(case):
    return {"templates": case_sources(case), "vars": dict(case["vars"]),
            "template_object_vars": list(case.get("tplobj", ())), "main": case["main"]}


def judge(res, case, rep, impl, stats, layer):
    """rep = driver reply for the case, impl = real_run output"""
    if rep[0] == "oom":
        stats["oom"] += 1
        return
    if rep[0] != "ok":
        raise core.HarnessError(f"driver: {rep} for {describe(case)}")
    model, spec, verdict, chain, mblocks = (canon(x) for x in rep[1])
    stats["outcome"][model[0] if model[0] == "out" else model[1]] = stats["outcome"].get(
        model[0] if model[0] == "out" else model[1], 0) + 1
    stats["verdict"][verdict if isinstance(verdict, str) else "finding"] = stats["verdict"].get(
        verdict if isinstance(verdict, str) else "finding", 0) + 1
    stats["chain_len"][len(chain)] = stats["chain_len"].get(len(chain), 0) + 1
    if any(v == ["err", "fuel"] for k, v in impl.items() if k != "blocks"):
        stats["oom"] += 1
        return
    d = describe(case)
    results = {k: v for k, v in impl.items() if k != "blocks"}
    if all(v == next(iter(results.values())) for v in results.values()):
        results = {"all-modes": next(iter(results.values()))}     # one report when every entry point behaves alike
    for mode, got in results.items():
        if got == model:
            continue
        gk = got[0] if got[0] == "out" else got[1]
        mk = model[0] if model[0] == "out" else model[1]
        if spec == "none":
            res.violate(f"C04:{layer}:{mode}:model-vs-implementation:undocumented-shape",
                        f"{mode} of {d} gives {got!r}, the transcription of the generated code gives {model!r} "
                        "(hierarchy outside the documented shapes, the specification does not judge)",
                        {"case": case, "mode": mode, "impl": got, "model": model}, no_input=True)
        elif got == spec:
            res.violate(f"C04:{layer}:{mode}:model-drift",
                        f"{mode} of {d} gives {got!r} as documented, but the transcription of the generated code gives "
                        f"{model!r}: Model/Inherit.lean no longer describes the code",
                        {"case": case, "mode": mode, "impl": got, "model": model, "spec": spec}, no_input=True)
        else:
            res.violate(f"C04:{layer}:{mode}:{gk}-instead-of-{spec[0] if spec[0] == 'out' else spec[1]}",
                        f"{mode} of {d} gives {got!r}; documented result {spec!r} (model {mk})",
                        {"case": case, "mode": mode, "impl": got, "model": model, "spec": spec})
    if "blocks" in impl and mblocks != "none" and impl.get("root_func") == model:
        mb = sorted([k, v] for k, v in mblocks)
        if mb != impl["blocks"]:
            res.violate(f"C04:{layer}:context-blocks",
                        f"Context.blocks after the root functions of {d}: {impl['blocks']!r}, model {mb!r}",
                        {"case": case, "impl": impl["blocks"], "model": mb}, no_input=spec == "none")
    if all(v == model for k, v in impl.items() if k != "blocks"):
        if verdict == "unexplained":
            res.violate(f"C04:{layer}:{model[0] if model[0] == 'out' else model[1]}-instead-of-"
                        f"{spec[0] if spec[0] == 'out' else spec[1]}",
                        f"{d} renders {model!r} (model agrees); documented result {spec!r}",
                        {"case": case, "impl": model, "spec": spec})


def run(ctx, res):
    jinja2 = core.import_jinja()
    stats = {"oom": 0, "outcome": {}, "verdict": {}, "chain_len": {}}

    # ---- regression cases first: the two repaired defects (F3, block in a child's top-level loop) -------------
    f3 = {"tpls": [["c0", [["t", "["], ["b", "b", False, False, [["t", "base"]]], ["t", "]"]]],
                   ["c1", [["extl", "c0"], ["b", "b", False, True, []]]],
                   ["c2", [["extl", "c1"]]]], "vars": [], "main": "c2", "tplobj": []}
    k2 = {"tpls": [["a", [["t", "["], ["b", "b", False, False, [["t", "A"]]], ["t", "]"]]],
                   ["c", [["extl", "a"], ["for", "x", ["1", "2"], [["b", "b", True, False, [["t", "<"], ["v", "x"], ["t", ">"]]]]]]]],
          "vars": [], "main": "c", "tplobj": []}
    leak = {"tpls": [["root", [["for", "item", ["1", "2"], [["b", "row", True, False, [["t", "["], ["v", "item"], ["t", "]"]]]]],
                               ["t", "<"], ["b", "foot", False, False, [["v", "item"]]], ["t", ">"]]],
                     ["kid", [["extl", "root"]]]], "vars": [["item", "CTX"]], "main": "kid", "tplobj": []}
    cell = ["b", "cell", True, False, [["la", "index"], ["t", ":"], ["v", "i"], ["t", ";"]]]
    nest = {"tpls": [["base", [["for", "g", ["A", "B"], [["t", "["], ["for", "i", ["a", "b"], [cell]], ["t", "]"]]]]],
                     ["child", [["extl", "base"], ["b", "cell", False, False,
                                                   [["t", "<"], ["la", "index"], ["t", "/"], ["v", "i"], ["t", "|"], ["sup", 0], ["t", ">"]]]]]],
            "vars": [], "main": "child", "tplobj": []}
    reuse = {"tpls": [["base", [["for", "x", ["1", "2"], [["t", "["], ["for", "x", ["a", "b"], [["with", "x", "w", [
        ["b", "c", True, False, [["v", "x"], ["la", "index"], ["la", "length"]]]]], ["b", "d", True, False, [["v", "x"], ["la", "last"]]]]],
                                 ["t", "]"]]]]], ["child", [["extl", "base"], ["b", "d", False, False, [["v", "x"], ["sup", 0]]]]]],
             "vars": [["x", "CTX"]], "main": "child", "tplobj": []}
    fixed = [nest, dict(nest, main="base"), reuse, dict(reuse, main="base"), f3, dict(f3, main="c1"), k2, leak, dict(leak, vars=[]), dict(leak, sets=["kid"]), dict(leak, main="root")]

    # ---- exhaustive small scope -------------------------------------------------------------------------
    small = list(small_scope(ctx.pick(3, 4), 2))
    # ---- random hierarchies ---------------------------------------------------------------------------
    n = ctx.pick(700, 15000)
    rnd, feats = [], {}
    for i in range(n):
        g = HG(ctx.rng("e2e", i))
        c = g.make()
        c["sub"] = i
        rnd.append(c)
        for f in g.feat:
            feats[f] = feats.get(f, 0) + 1

    evaluations = 0
    distinct = set()
    tb_jobs = []

    class Lazy(dict):
        """DictLoader mapping filled per case (the small-scope enumeration shares one Environment)"""

    lazy = Lazy()
    shared = (jinja2.Environment(loader=jinja2.DictLoader(lazy)),
              jinja2.Environment(loader=jinja2.DictLoader(lazy), enable_async=True))
    for layer, cases, modes in (("fixed", fixed, MODES), ("small", small, ("render", "render_async", "root_func")),
                                ("e2e", rnd, MODES)):
        replies = core.driver_batch([wire_case(c) for c in cases])
        for c, rep in zip(cases, replies):
            if layer == "small":
                for nme, body in c["tpls"]:
                    if nme not in lazy:
                        lazy[nme] = src_body(body)
                impl = real_run(jinja2, c, modes, envs=shared)
            else:
                impl = real_run(jinja2, c, modes, tblocks=True)
                tb_jobs.append((c, impl.pop("tblocks")))
            evaluations += len(modes)
            if len(c["tpls"]) > 1:
                distinct.add(repr((c["tpls"], c["vars"], c["main"])))
            judge(res, c, rep, impl, stats, layer)

    unit = run_unit(ctx, res, jinja2, tb_jobs)
    res.coverage.update({
        "evaluations": evaluations + unit["evaluations"],
        "distinct_nontrivial": len(distinct) + unit["distinct"],
        "rule": (f"L-e2e: {n} hierarchies from one PRNG (chain depth 1-4, 1-5 block names, nested blocks, super / "
                 "super.super / super.super.super / self calls, scoped and unscoped blocks inside loops, required blocks at "
                 "every level, static / conditional (true and false) / variable-name / Template-object extends, rarely: text "
                 "or a block before extends, a second extends, a missing parent, an undefined parent variable, a top-level "
                 "loop with blocks in a child, a same-named distractor template; in 40% of the cases a directed probe: a scoped "
                 "block called in a loop of the root, then blocks / overrides with super / self calls that print the loop "
                 "variable's name, the name present or absent among the render variables, some templates padded with a "
                 "top-level assignment to an unread name; in 40% a placeholder (scoped, or unscoped as control) 2-3 scopes deep in "
                 "for/with scopes binding the same names at several levels, read together with loop.index/first/last/length in "
                 "the block, in overrides of 0-2 descendants and through super()), each rendered by render, generate, stream, "
                 "render_async, generate_async and root_render_func and compared with the Lean model's result for the same "
                 f"structure; exhaustive small scope: all {len(small)} hierarchies with <= {ctx.pick(3, 4)} templates x <= 2 "
                 "block names x {absent, plain, super, required} per template and block (render, render_async, "
                 "root_render_func + Context.blocks); L-unit: " + unit["rule"] + "; non-trivial = more than one template"),
        "samples": [describe(rnd[0]), describe(rnd[1]), describe(small[len(small) // 2])],
        "exhaustive": True,
        "outcome_distribution": stats["outcome"],
        "oracle_verdicts": stats["verdict"],
        "chain_length_distribution(0 = specification does not judge)": stats["chain_len"],
        "features_hit": dict(sorted(feats.items())),
        "out_of_model": stats["oom"],
        "unit": {k: v for k, v in unit.items() if k != "rule"},
    })


# ---------------------------------------------------------------------------------------------
# L-unit: Template.blocks, Context.super / BlockReference / TemplateReference
# ---------------------------------------------------------------------------------------------

def run_unit(ctx, res, jinja2, cases):
    from jinja2.runtime import BlockReference, Context, TemplateReference, Undefined
    from jinja2.exceptions import UndefinedError

    evaluations, distinct = 0, set()
    # (a) Template.blocks keys, document order
    reqs, tp = [], []
    for c, tb in cases:
        for name, body in c["tpls"]:
            reqs.append([Atom("inh-blocks"), [name, [wire_piece(p) for p in body]]])
            tp.append((name, body, tb[name]))
    replies = core.driver_batch(reqs)
    for (name, body, tbn), rep in zip(tp, replies):
        src = src_body(body)
        got = ["err", "syntax"] if tbn == "syntax" else ["ok", tbn]
        evaluations += 1
        distinct.add(src)
        if canon(rep) != got:
            res.violate("C04:unit:template-blocks", f"Template.blocks of {src!r}: {got!r}, model {canon(rep)!r}",
                        {"source": src, "impl": got, "model": canon(rep)}, no_input=True)

    # (b) Context.super followed by k x BlockReference.super, on stacks of 1..N functions (an id may repeat)
    nmax = ctx.pick(4, 5)
    stacks = []
    for ln in range(1, nmax + 1):
        stacks += [list(range(ln))]
    rng = ctx.rng("unit-super")
    for _ in range(ctx.pick(30, 300)):
        ln = rng.randrange(2, nmax + 2)
        stacks.append([rng.randrange(0, ln - 1) for _ in range(ln)])
    jobs = []
    for st in stacks:
        for cur in sorted(set(st)):
            for k in range(0, nmax + 1):
                jobs.append((st, cur, k))
    replies = core.driver_batch([[Atom("inh-super"), st, cur, k] for st, cur, k in jobs])
    for async_ in (False, True):
        e = jinja2.Environment(enable_async=async_)
        for (st, cur, k), rep in zip(jobs, replies):
            fns = {}
            for i in set(st):
                if async_:
                    async def f(context, i=i):
                        yield str(i)
                else:
                    def f(context, i=i):
                        yield str(i)
                fns[i] = f
            c = Context(e, {}, "t", {})
            c.blocks = {"b": [fns[i] for i in st]}
            try:
                ref = c.super("b", fns[cur])
                for _ in range(k):
                    ref = ref.super
                if isinstance(ref, Undefined):
                    got = "none"
                else:
                    assert isinstance(ref, BlockReference)
                    v = asyncio.run(ref()) if async_ else ref()
                    got = ["some", str(v)]
            except UndefinedError:
                got = "none"
            evaluations += 1
            distinct.add((tuple(st), cur, k))
            want = canon(rep[1]) if rep[0] == "ok" else rep
            if got != want:
                res.violate("C04:unit:super-depth",
                            f"Context.super('b', f{cur}) then {k} x .super on stack {st} (async={async_}): {got!r}, model {want!r}",
                            {"stack": st, "cur": cur, "k": k, "async": async_, "impl": got, "model": want})
            # self.b() is the head of the stack
            if k == 0 and cur == st[0] and not async_:
                got_self = TemplateReference(c)["b"]()
                if got_self != str(st[0]):
                    res.violate("C04:unit:self-head", f"TemplateReference['b']() on stack {st}: {got_self!r}",
                                {"stack": st, "impl": got_self})
    # (c) Context.derived(locals): what the derived context resolves (model: locals in front of the context
    #     variables) and that the original context is left as it was (the model's variables are values, not state)
    from jinja2.utils import missing as _missing
    e = jinja2.Environment()
    djobs = []
    for parent in ({}, {"x": "P"}, {"x": "P", "g": "G"}):
        for cvars in ({}, {"z": "Z"}, {"x": "V"}):
            for loc in ({}, {"x": "1"}, {"x": "1", "y": "2"}, {"y": _missing, "x": "3"}, {"g": "L"}):
                djobs.append((parent, cvars, loc))
    names = ["x", "y", "g", "z", "nope"]
    dreqs = []
    for parent, cvars, loc in djobs:
        locs = [[k, v] for k, v in loc.items() if v is not _missing]
        allv = [[k, v] for k, v in cvars.items()] + [[k, v] for k, v in parent.items() if k not in cvars]
        for nm in names:
            dreqs.append([Atom("inh-lookup"), locs, allv, nm])
    dreps = iter(core.driver_batch(dreqs))
    derived_checked = 0
    for parent, cvars, loc in djobs:
        c = Context(e, dict(parent), "t", {})
        c.vars.update(cvars)
        before = (dict(c.parent), dict(c.vars), dict(c.get_all()))
        d = c.derived(dict(loc))
        after = (dict(c.parent), dict(c.vars), dict(c.get_all()))
        evaluations += 1
        derived_checked += 1
        distinct.add(repr((parent, cvars, sorted(loc))))
        if before != after:
            res.violate("C04:unit:derived-changes-original-context",
                        f"Context(parent={parent}, vars={cvars}).derived({ {k: v for k, v in loc.items() if v is not _missing} }) "
                        f"changed the original context: {before} -> {after}",
                        {"parent": parent, "vars": cvars, "locals": sorted(k for k in loc), "before": before, "after": after})
        for nm in names:
            rep = canon(next(dreps))
            v = d.resolve_or_missing(nm)
            got = "none" if v is _missing else ["some", v]
            want = rep[1] if rep[0] == "ok" else rep
            if got != want:
                res.violate("C04:unit:derived-lookup",
                            f"derived context of parent={parent}, vars={cvars}, locals={sorted(loc)} resolves {nm!r} to {got!r}, model {want!r}",
                            {"parent": parent, "vars": cvars, "locals": sorted(loc), "name": nm, "impl": got, "model": want})
    return {"evaluations": evaluations, "distinct": len(distinct),
            "template_blocks_checked": len(tp), "super_walks": len(jobs) * 2, "derived_contexts": derived_checked,
            "rule": (f"Template.blocks key order of {len(tp)} generated templates; Context.super + k x BlockReference.super "
                     f"+ call on every stack of <= {nmax} functions (and random stacks with repeated functions), every "
                     "current function, k = 0..N, sync and async; TemplateReference[b]() = head of the stack; "
                     f"Context.derived(locals) on {derived_checked} parent/vars/locals combinations: lookups = model, original "
                     "context unchanged")}


def replay(ctx, case):
    c = case["case"]
    jinja2 = core.import_jinja()
    if "case" in c:
        cc = c["case"]
        rep = core.driver_batch([wire_case(cc)])[0]
        return {"hierarchy": describe(cc), "impl": real_run(jinja2, cc), "driver": canon(rep)}
    return c
