"""C06 — macro argument binding: Macro.__call__ ≡ declarative binding (L-unit exhaustive + L-e2e)."""
from __future__ import annotations

import asyncio
import itertools

from harness import core
from harness.core import Atom

ID = "C06"
LEAN_MODULES = ["JinjaV.Props.C06"]
LEVEL = "proof"
TRUSTED = [
    "Model/Macro.lean is a hand transcription of runtime.py:694-770, tied by this correspondence run",
    "defaults are evaluated by compiled code (macro_body); covered end-to-end, not modelled",
]
ASSUMPTIONS = ["parameter names are distinct (a duplicate is rejected by Python's compiler)",
               "keyword names are distinct (guaranteed by Python call semantics); argument values are ints"]

NAMES = ["a", "b", "c", "caller", "d"]
KWNAMES = ["a", "b", "c", "caller", "z", "d"]
CALLER_TOKEN = 424242
TOKEN_TO_PY = {51: None, 50: 0}
PY_TO_TOKEN = {None: 51, 0: 50}


def e2e_token(v):
    """falsy keyword values of the e2e layer as opaque tokens for the model"""
    return 51 if v is None else 52 if v is False else 50 if (type(v) is int and v == 0) else v


def e2e_text(tok):
    return {51: "None", 52: "False", 50: "0"}.get(tok, str(tok))


def jinja_lit(v):
    return "none" if v is None else "false" if v is False else str(v)


def canon(o):
    if isinstance(o, list):
        return [canon(x) for x in o]
    return str(o) if isinstance(o, Atom) else o


def real_call(env, params, ck, cv, c, args, kw):
    from jinja2.runtime import Macro, Undefined
    from jinja2.utils import missing

    got = {}

    def func(*a):
        got["args"] = a
        return "ok"

    m = Macro(env, func, "m", list(params), ck, cv, c, False)
    try:
        # the model's values are opaque tokens; two of them stand for the values an implementation is most tempted to
        # confuse with "not passed": 51 is None and 50 is 0 (mapped back below)
        # (not for the special `caller` keyword: `caller=None` is the engine's own spelling of "no caller", outside the statement)
        m(*args, **{k: (TOKEN_TO_PY.get(v, v) if k != "caller" else v) for k, v in kw})
    except TypeError as e:
        msg = str(e)
        if "takes not more than" in msg:
            return "typeErrorPos"
        if "two values for the special caller" in msg:
            return ["typeErrorKw", True]
        if "takes no keyword argument" in msg:
            return ["typeErrorKw", False]
        return f"raised:TypeError:{msg}"
    except Exception as e:  # noqa
        return f"raised:{type(e).__name__}"
    out = []
    for x in got["args"]:
        if x is missing:
            out.append("missing")
        elif isinstance(x, Undefined):
            out.append("undefCaller")
        elif x is None or (x == 0 and type(x) is int):
            out.append(["val", PY_TO_TOKEN[x]])
        elif isinstance(x, dict):
            out.append(["kwargs", [[k, PY_TO_TOKEN.get(v, v) if (v is None or (type(v) is int and v == 0)) else v] for k, v in x.items()]])
        elif isinstance(x, tuple):
            out.append(["varargs", list(x)])
        else:
            out.append(["val", x])
    return ["ok", out]


def run(ctx, res):
    jinja2 = core.import_jinja()
    env = jinja2.Environment()
    maxp = ctx.pick(3, 4)
    maxkw = ctx.pick(2, 4)
    plists = []
    for n in range(maxp + 1):
        plists += [list(p) for p in itertools.permutations(NAMES, n)]
    kwsets = []
    for n in range(maxkw + 1):
        kwsets += [list(k) for k in itertools.combinations(KWNAMES, n)]
    cases = []
    rng = ctx.rng("unit")
    for ps in plists:
        for ck, cv, c in itertools.product((False, True), repeat=3):
            for na in range(0, 6):
                # all keyword sets for short signatures, a sample for long ones (quick)
                ks = kwsets if (len(ps) <= 2 or not ctx.quick) else rng.sample(kwsets, 6)
                for k in ks:
                    cases.append((ps, ck, cv, c, list(range(1, na + 1)), [(n, 50 + i) for i, n in enumerate(k)]))
    # keyword order should not matter for consumption, but is preserved in kwargs: also reversed orders
    extra = []
    for cse in rng.sample(cases, min(len(cases), ctx.pick(3000, 30000))):
        if len(cse[5]) >= 2:
            extra.append(cse[:5] + (list(reversed(cse[5])),))
    cases += extra
    reqs = [[Atom("macro"), ps, ck, cv, c, args, [[k, v] for k, v in kw]] for ps, ck, cv, c, args, kw in cases]
    replies = core.driver_batch(reqs)
    mism = 0
    shapes = {}
    for cse, rep in zip(cases, replies):
        ps, ck, cv, c, args, kw = cse
        if rep[0] != "ok":
            raise core.HarnessError(f"driver: {rep} for {cse}")
        model, spec = canon(rep[1][0]), canon(rep[1][1])
        impl = real_call(env, ps, ck, cv, c, args, kw)
        kind = spec if isinstance(spec, str) else spec[0]
        shapes[kind] = shapes.get(kind, 0) + 1
        if impl != spec:
            mism += 1
            explicit_mid = "caller" in ps and ps[-1] != "caller"
            key = "C06:unit:" + ("explicit-caller-not-last" if explicit_mid and c else
                                 (impl if isinstance(impl, str) and not impl.startswith("raised") else
                                  (impl[0] if isinstance(impl, list) else "raised")) + "-vs-" + kind)
            res.violate(key, f"Macro(params={ps}, kwargs={ck}, varargs={cv}, caller={c}) called with args={args} "
                             f"kw={kw}: implementation binds {impl!r}, documented binding {spec!r}",
                        {"params": ps, "catch_kwargs": ck, "catch_varargs": cv, "caller": c, "args": args, "kw": kw})
        elif impl != model:
            res.violate("C06:model-drift", f"model differs from implementation on {cse} (spec agrees)",
                        {"case": cse, "impl": impl, "model": model}, no_input=True)
    e2e = run_e2e(ctx, res, jinja2)
    res.coverage.update({
        "evaluations": len(cases) + e2e["renders"],
        "distinct_nontrivial": len({repr(c) for c in cases if c[4] or c[5]}) + e2e["distinct"],
        "rule": (f"L-unit (exhaustive): every parameter list of <= {maxp} distinct names from {NAMES} x 8 flag "
                 f"combinations (kwargs/varargs/caller) x 0-5 positional arguments x keyword sets of <= {maxkw} names "
                 f"from {KWNAMES} (sampled for 3+ parameters in the quick tier) on the real Macro object; L-e2e: "
                 + e2e["rule"] + "; non-trivial = at least one argument"),
        "samples": [dict(zip(("params", "kwargs", "varargs", "caller", "args", "kw"), cases[i])) for i in (5000, len(cases) // 2)] + e2e["samples"],
        "exhaustive": True,
        "outcome_distribution": shapes,
        "unit_mismatches": mism,
        "e2e": {k: v for k, v in e2e.items() if k not in ("samples", "rule")},
    })


# ---------------------------------------------------------------------------------------------
# end to end: macros defined in templates, called from templates / call blocks / Python
# ---------------------------------------------------------------------------------------------

def macro_source(params, defaults, ck, cv, c):
    """defaults: list aligned with params: None | ('const', n) | ('prev',) | ('outer',)"""
    sig = []
    for i, (p, d) in enumerate(zip(params, defaults)):
        if d is None:
            sig.append(p)
        elif d[0] == "const":
            sig.append(f"{p}={d[1]}")
        elif d[0] == "prev":
            sig.append(f"{p}=({params[i - 1]}|default(0)) + 100")
        elif d[0] == "self":
            sig.append(f"{p}={p}")          # names the parameter itself: not bound yet when the default is evaluated
        else:
            sig.append(f"{p}=o")
    body = ",".join("{{ %s|default('U') }}" % p for p in params if p != "caller")
    if cv:
        body += ";V{{ varargs|join('+') }}"
    if ck:
        body += ";K{% for k, v in kwargs|dictsort %}{{ k }}={{ v if k != 'caller' else 'fn' }}&{% endfor %}"
    if c:
        body += ";C{{ caller() if caller is defined and caller is callable else 'nocaller' }}"
    return "{%% macro m(%s) %%}%s{%% endmacro %%}" % (", ".join(sig), body)


def expected(params, defaults, ck, cv, c, spec):
    """render the documented binding the way the macro body prints it; None = TypeError expected"""
    if spec[0] != "ok":
        return None
    args = spec[1]
    vals = {}
    out = []
    for i, p in enumerate(params):
        a = args[i]
        if a == "missing":
            d = defaults[i]
            if d is None:
                v = None
            elif d[0] == "const":
                v = d[1]
            elif d[0] == "prev":
                pv = vals.get(params[i - 1])
                if pv == 51:
                    return None              # `none|default(0) + 100`: None is defined, the addition raises TypeError
                v = (0 if pv in (50, 52) or not isinstance(pv, int) else pv) + 100
            elif d[0] == "self":
                v = None                     # undefined
            else:
                v = 55
        else:
            v = a[1]
        vals[p] = v
        if p != "caller":
            out.append("U" if v is None else e2e_text(v))
    rest = args[len(params):]
    s = ",".join(out)
    callerv = None
    if "caller" in params:
        cv0 = vals["caller"]
        callerv = ["val", cv0] if cv0 is not None else "undefCaller"
    elif c:
        callerv = rest[0]
        rest = rest[1:]
    kw = None
    if ck:
        kw = rest[0][1]
        rest = rest[1:]
    va = rest[0][1] if cv else None
    if cv:
        s += ";V" + "+".join(str(x) for x in va)
    if ck:
        s += ";K" + "".join(f"{k}={e2e_text(v) if k != 'caller' else 'fn'}&" for k, v in sorted(kw))
    if c:
        s += ";C" + ("X" if callerv != "undefCaller" and callerv[1] == CALLER_TOKEN else "nocaller")
    return s


def run_e2e(ctx, res, jinja2):
    rng = ctx.rng("e2e")
    env = jinja2.Environment()
    aenv = jinja2.Environment(enable_async=True)
    n = ctx.pick(400, 4000)
    jobs = []
    for _ in range(n):
        k = rng.randrange(0, 5)
        params = rng.sample(["a", "b", "c", "d"], min(k, 4))
        ck, cv, c = (rng.random() < 0.4 for _ in range(3))
        explicit = False
        if rng.random() < 0.15:
            params = params[:3] + ["caller"]   # explicit caller must be last to be usable; needs a default when used
            explicit = True
        defaults = [None] * len(params)
        nd = rng.randrange(0, min(3, len(params)) + 1)
        for i in range(len(params) - nd, len(params)):
            defaults[i] = rng.choice([("const", 7), ("outer",), ("self",)] + ([("prev",)] if i > 0 and params[i - 1] != "caller" else []))
            if defaults[i] == ("self",) and params[i] == "caller":
                defaults[i] = ("const", 7)
        if explicit and defaults[-1] is None:
            defaults[-1] = ("const", 0) if c else defaults[-1]
            if defaults[-1] is None and c:
                continue
        na = rng.randrange(0, 6)
        args = list(range(1, na + 1))
        # keyword names include Python keywords: the code generator passes those through a dict (`**{'class': …}`)
        kwn = rng.sample(["a", "b", "c", "d", "z", "y", "class", "for", "import"], rng.randrange(0, 4))
        kw = [(k2, 60 + i) for i, k2 in enumerate(kwn)]
        if kw and rng.random() < 0.35:
            j = rng.randrange(len(kw))
            kw[j] = (kw[j][0], rng.choice([None, 0, False]))      # passed explicitly, yet None / falsy
        shape = rng.choice(["plain", "plain", "star", "callblock", "python", "python-async", "mixed", "mixed", "mixed-callblock"])
        jobs.append((params, defaults, ck, cv, c, args, kw, shape))
    reqs = []
    for params, defaults, ck, cv, c, args, kw, shape in jobs:
        kw2 = list(kw) + ([("caller", CALLER_TOKEN)] if shape in ("callblock", "mixed-callblock") else [])
        reqs.append([Atom("macro"), params, ck, cv, c, args, [[k, e2e_token(v)] for k, v in kw2]])
    replies = core.driver_batch(reqs)
    renders, distinct, samples = 0, set(), []
    for job, rep in zip(jobs, replies):
        params, defaults, ck, cv, c, args, kw, shape = job
        if rep[0] != "ok":
            continue
        spec = canon(rep[1][1])
        exp = expected(params, defaults, ck, cv, c, spec)
        msrc = macro_source(params, defaults, ck, cv, c)
        callargs = ", ".join([str(a) for a in args] + [f"{k}={jinja_lit(v)}" for k, v in kw])
        if shape in ("plain",):
            src = msrc + "{{ m(%s) }}" % callargs
        elif shape == "star":
            src = msrc + "{{ m(*pos, **kwd) }}"
        elif shape == "callblock":
            src = msrc + "{%% call m(%s) %%}X{%% endcall %%}" % callargs
        elif shape in ("mixed", "mixed-callblock"):
            # some positional arguments written out, the rest as *pos2; some keywords written out, the rest as **kwd2
            sp, sk = rng.randrange(0, len(args) + 1), rng.randrange(0, len(kw) + 1)
            parts = [str(a) for a in args[:sp]] + [f"{k}={jinja_lit(v)}" for k, v in kw[:sk]]
            if sp < len(args) or rng.random() < 0.5:
                parts.append("*pos2")
            if sk < len(kw) or rng.random() < 0.5:
                parts.append("**kwd2")
            mixed_data = {"pos2": args[sp:], "kwd2": dict(kw[sk:])}
            src = msrc + ("{{ m(%s) }}" if shape == "mixed" else "{%% call m(%s) %%}X{%% endcall %%}") % ", ".join(parts)
        else:
            src = msrc
        try:
            if shape == "python":
                t = env.from_string(src, globals={"o": 55})
                got = str(t.module.m(*args, **dict(kw)))
            elif shape == "python-async":
                t = aenv.from_string(src, globals={"o": 55})

                async def go():
                    mod = await t.make_module_async()
                    return str(await mod.m(*args, **dict(kw)))

                got = asyncio.run(go())
            else:
                t = env.from_string(src)
                got = t.render(o=55, pos=args, kwd=dict(kw), **(mixed_data if shape.startswith("mixed") else {}))
        except TypeError as e:
            got = None
            emsg = str(e)
        except Exception as e:  # noqa
            got = f"raised:{type(e).__name__}:{e}"
        renders += 1
        distinct.add((src, shape, tuple(args), tuple(kw)))
        if got != exp:
            res.violate(f"C06:e2e:{shape}:" + ("unexpected-typeerror" if got is None else "expected-typeerror" if exp is None else "value"),
                        f"{shape} call of {msrc!r} with args={args} kw={kw}: got {got!r}"
                        + (f" ({emsg})" if got is None else "") + f", documented {exp!r}",
                        {"source": src, "shape": shape, "args": args, "kw": kw, "got": got, "expected": exp})
        if len(samples) < 2:
            samples.append({"source": src, "shape": shape, "args": args, "kw": kw, "expected": exp})
    return {"renders": renders, "distinct": len(distinct), "samples": samples,
            "rule": (f"{n} random macros (0-4 parameters, 0-3 defaults that are constants / earlier parameter + 100 / the parameter itself / "
                     "an outer variable, implicit or explicit caller, kwargs, varargs) called with 0-5 positional and "
                     "0-3 keyword arguments (known, unknown, duplicate-of-filled, Python keywords as names) as {{ m(..) }}, m(*pos, **kw), "
                     "mixed written-out / *rest / **rest spellings, "
                     "{% call %}, and from Python through Template.module (sync and async)")}


def replay(ctx, case):
    c = case["case"]
    jinja2 = core.import_jinja()
    if "params" in c:
        return {"impl": real_call(jinja2.Environment(), c["params"], c["catch_kwargs"], c["catch_varargs"], c["caller"],
                                  c["args"], [tuple(x) for x in c["kw"]])}
    return c
