"""C12 — whitespace control: real rendering vs the documented rules (Spec/Trim.lean)."""
from __future__ import annotations

import itertools

from harness import core
from harness import lexcommon as lc
from harness.core import Atom

ID = "C12"
LEAN_MODULES = ["JinjaV.Props.C12"]
LEVEL = "proof"
TRUSTED = [
    "rule-level theorems are about the lexer model (Model/Lex.lean), differentially validated against the real lexer (C39)",
    "the segment-level reference Spec/Trim.lean is compared with the real renderer by this run; its agreement with the "
    "lexer model on all skeletons is tested, not proved (the skeleton theorem of DESIGN §5 C12 is not established)",
    "harness/envways.py: the options in effect of an environment are computed from its history; Wire/EnvWays.lean trim-env "
    "extends the reference by keep_trailing_newline and newline_sequence as docs/api.rst words them",
]
ASSUMPTIONS = ["skeleton texts share no characters with delimiters and signs; tag interiors are single-line"]

WS = ["", " ", "\t", "\n", " \n ", "\n\n", "  ", "\n  ", " \n", "\n\t\n", "\x0b", "\n "]
# the other two line breaks (CRLF, lone CR), mixtures, halves of a CRLF that a tag can separate ("…\r" tag "\n…"), "\n\r"
# (two line breaks), and form feed / vertical tab, which are whitespace but NOT line breaks
WS_CR = ["\r\n", "\r", " \r\n ", "\r\n  ", "\r  ", " \r", "\n\r", "\r\n\r\n", "\r\n\t\r", "\x0c", "\x0c\n", "\n\x0b ", "\r\x0c"]
WS_ALL = WS + WS_CR
WORD = ["", "a", "foo", "é"]
SIGNS = ["n", "m", "p"]


def gen_seg(rng):
    k = rng.choice(["text", "text", "block", "block", "comment", "variable", "raw"])
    if k == "text":
        return [Atom("text"), rng.choice(WS_ALL) + rng.choice(WORD) + rng.choice(WS_ALL)]
    if k == "block":
        return [Atom("tag"), Atom("block"), Atom(rng.choice(SIGNS)), Atom(rng.choice(SIGNS)), "set z = 1"]
    if k == "comment":
        return [Atom("tag"), Atom("comment"), Atom(rng.choice(SIGNS)), Atom(rng.choice(SIGNS)),
                rng.choice(["c", "c\nd", "", "c\r\nd", "\r"])]
    if k == "variable":
        return [Atom("tag"), Atom("variable"), Atom(rng.choice(SIGNS)), Atom(rng.choice(["n", "m"])), "'V%d'" % rng.randrange(3)]
    return [Atom("raw"), Atom(rng.choice(SIGNS)), rng.random() < 0.3,
            rng.choice(WS_ALL) + rng.choice(["", "r", "{{ x }}"]) + rng.choice(WS_ALL),
            Atom(rng.choice(SIGNS)), Atom(rng.choice(SIGNS))]


def exhaustive_small():
    """text / tag / text with every sign combination and whitespace run on both sides"""
    for kind in ("block", "comment", "variable"):
        for l, r in itertools.product(SIGNS, SIGNS if kind != "variable" else ["n", "m"]):
            for w1, w2 in itertools.product(WS, WS):
                interior = {"block": "set z = 1", "comment": "c", "variable": "'V'"}[kind]
                yield [[Atom("text"), "a" + w1], [Atom("tag"), Atom(kind), Atom(l), Atom(r), interior], [Atom("text"), w2 + "b"]]
                yield [[Atom("text"), w1], [Atom("tag"), Atom(kind), Atom(l), Atom(r), interior], [Atom("text"), w2]]
    for l1, l2, r2 in itertools.product(SIGNS, SIGNS, SIGNS):
        for m in (False, True):
            for w1, w2 in itertools.product(WS[:8], WS[:8]):
                yield [[Atom("text"), "a" + w1], [Atom("raw"), Atom(l1), m, w2 + "r" + w1, Atom(l2), Atom(r2)], [Atom("text"), w2 + "b"]]


def exhaustive_cr():
    """the same triples for every pair of whitespace runs in which at least one side has a CRLF / lone CR / form feed:
    line breaks other than "\\n" before and after every kind of tag with every sign combination, and inside raw blocks"""
    pairs = [(w1, w2) for w1 in WS_ALL for w2 in WS_ALL if w1 in WS_CR or w2 in WS_CR]
    for kind in ("block", "comment", "variable"):
        for l, r in itertools.product(SIGNS, SIGNS if kind != "variable" else ["n", "m"]):
            for w1, w2 in pairs:
                interior = {"block": "set z = 1", "comment": "c", "variable": "'V'"}[kind]
                yield [[Atom("text"), "a" + w1], [Atom("tag"), Atom(kind), Atom(l), Atom(r), interior], [Atom("text"), w2 + "b"]]
                yield [[Atom("text"), w1], [Atom("tag"), Atom(kind), Atom(l), Atom(r), interior], [Atom("text"), w2]]
    crs = WS_CR[:7]
    for l1, l2, r2 in itertools.product(SIGNS, SIGNS, SIGNS):
        for m in (False, True):
            for w1, w2 in itertools.product(crs, crs + ["", "\n"]):
                yield [[Atom("text"), "a" + w1], [Atom("raw"), Atom(l1), m, w2 + "r" + w1, Atom(l2), Atom(r2)], [Atom("text"), w2 + "b"]]


def run(ctx, res):
    from harness import envways as ew
    jinja2 = core.import_jinja()
    rng = ctx.rng("c12")
    way_counts = {}
    skeletons = list(exhaustive_small())
    cr = list(exhaustive_cr())
    if ctx.quick:
        skeletons = skeletons[::3]
        cr = cr[::5]
    n_cr = len(cr)
    skeletons += cr
    for _ in range(ctx.pick(4000, 40000)):
        skeletons.append([gen_seg(rng) for _ in range(rng.randrange(1, 7))])
    total, distinct, mism = 0, set(), 0
    samples = []
    cfgs = [("default", False, False), ("trim", True, False), ("lstrip", False, True), ("trim+lstrip", True, True)]
    delims = [lc.CONFIGS["default"], lc.CONFIGS["erb"], lc.CONFIGS["php"]]
    for name, trim, lstrip in cfgs:
        for di, d in enumerate(delims):
            # line-break normalisation and the trailing newline are C11's subject: keep them out of the way here
            c = dict(d, trim_blocks=trim, lstrip_blocks=lstrip, keep_trailing_newline=True)
            sk = skeletons if di == 0 else skeletons[di::5]
            variants = ew.variants(jinja2, c)
            for vn, _ in variants:
                way_counts.setdefault(vn, 0)
            reps = core.driver_batch([[Atom("trim"), lc.enc_cfg(c), s] for s in sk])
            for i, (s, rep) in enumerate(zip(sk, reps)):
                if rep[0] != "ok":
                    continue
                src, pieces = rep[1], rep[2]
                want = "".join(p[1] if str(p[0]) == "data" else p[1].strip("'") for p in pieces)
                vname, env = variants[i % len(variants)]
                way_counts[vname] += 1
                try:
                    got = env.from_string(src).render()
                except Exception as e:  # noqa
                    got = f"raised:{type(e).__name__}:{e}"
                total += 1
                distinct.add((src, name))
                if got != want:
                    mism += 1
                    kinds = sorted({str(x[1]) if str(x[0]) == "tag" else str(x[0]) for x in s if str(x[0]) != "text"})
                    res.violate(f"C12:{name}:" + "+".join(kinds),
                                f"trim_blocks={trim} lstrip_blocks={lstrip} ({vname}): {src!r} renders {got!r}; the documented rules give {want!r}",
                                {"source": src, "trim_blocks": trim, "lstrip_blocks": lstrip, "config": c, "way": vname,
                                 "documented": want, "segments": core.sx(s)})
            if len(samples) < 2:
                samples.append({"source": reps[-1][1], "trim_blocks": trim, "lstrip_blocks": lstrip})
    ways = run_env_ways(ctx, res, jinja2, ew)
    res.coverage.update({
        "evaluations": total + ways["evaluations"],
        "distinct_nontrivial": len(distinct) + ways["distinct_nontrivial"],
        "rule": ("skeletons of text (12 whitespace runs x words), block/comment/variable tags with every '-', '+', no-sign "
                 "combination on each side, and raw blocks (signs on all four sides): exhaustive text-tag-text triples "
                 f"({'every third' if ctx.quick else 'all'}), the same triples for every pair of runs involving one of {len(WS_CR)} "
                 "runs with CRLF / lone CR / CR and LF on either side of the tag / LF CR / form feed / vertical tab "
                 f"({n_cr} skeletons, {'every fifth' if ctx.quick else 'all'}; reference: line breaks normalised, FF/VT are not "
                 "line breaks), plus random skeletons of 1-6 segments over all runs, under the four trim/lstrip settings x "
                 "default/ERB/PHP delimiters, each configuration reached in " + str(len(way_counts)) + " ways in rotation (fresh; "
                 "Template(...); overlay of a used parent overriding everything / only the whitespace options / one "
                 "whitespace option / only the delimiters; overlay chain used at each level; overlay of a fresh parent; sibling "
                 "overlays; the parent after its overlays were used) and compared with the Lean reference rules; then "
                 "environment histories: " + ways["rule"]),
        "samples": samples,
        "mismatches": mism,
        "skeletons_with_cr_or_ff": sum(1 for d in distinct if "\r" in d[0] or "\x0c" in d[0]),
        "renders_by_way": way_counts,
        "environment_ways": ways,
    })


def run_env_ways(ctx, res, jinja2, ew):
    """histories of environments (harness/envways.py): whatever an environment's history, it renders a skeleton as the
    documented rules say for the options in effect (trim_blocks, lstrip_blocks, keep_trailing_newline, newline_sequence)"""
    rng = ctx.rng("env-ways")
    roots = ew.default_roots(rng, ctx.pick(0, 6))
    scenarios = ew.systematic(rng, roots) + [ew.random_scenario(rng) for _ in range(ctx.pick(60, 1500))]
    stats = ew.attach_probes(rng, scenarios, ctx.pick(2, 4), 0)
    fresh = ew.Fresh(jinja2)
    st = {"evaluations": 0, "uses": 0, "overlay_uses": 0, "overlay_uses_where_the_parents_options_give_another_result": 0,
          "suppressed_repeats": 0}
    by_way, distinct, per_key = {}, set(), {}
    for sc in scenarios:
        events = sc.events

        def on_use(ev, env, events=events):
            o, way, dk = ev["opts"], ev["way"], ev["delta"]
            by_way[f"{way}:{dk}"] = by_way.get(f"{way}:{dk}", 0) + 1
            st["uses"] += 1
            shows = False
            for p in ev["skeletons"]:
                src, want = p["source"], p["documented"]
                got = ew.render(env, src)
                st["evaluations"] += 1
                distinct.add((ew.okey(o), way, dk, src))
                if ev["parent_opts"] is not None and fresh(ev["parent_opts"], src) != want:
                    shows = True
                if got != want:
                    key = f"C12:env:{way}:{dk}"
                    per_key[key] = per_key.get(key, 0) + 1
                    if per_key[key] > 3:
                        st["suppressed_repeats"] += 1
                        continue
                    res.violate(key, f"{ew.describe(events, ev)}: {src!r} renders {got!r}; the documented rules for the options in "
                                f"effect ({ew._short(o) or 'defaults'}) give {want!r}; a fresh Environment with these options "
                                f"renders {fresh(o, src)!r}",
                                {"history": ew.history(events, ev), "source": src, "observed": got, "documented": want,
                                 "segments": p["segments"]})
            if ev["parent_opts"] is not None:
                st["overlay_uses"] += 1
                st["overlay_uses_where_the_parents_options_give_another_result"] += shows

        ew.execute(jinja2, events, on_use)
    shapes = {}
    for sc in scenarios:
        shapes[sc.shape] = shapes.get(sc.shape, 0) + 1
    st.update({
        "distinct_nontrivial": len(distinct), "scenarios": shapes, "roots": [ew._short(r) or "defaults" for r in roots],
        "uses_by_way_and_overridden_option_group": dict(sorted(by_way.items())), "violations_by_key": per_key, **stats,
        "rule": (f"{len(scenarios)} histories over {len(roots)} root option sets (Environment(...) or Template('',...).environment): "
                 "for every root and every override set (each whitespace option alone, all 11 combinations, line prefixes, "
                 "delimiter sets, mixtures, none) an overlay of the fresh and of the already used root, sibling overlays, "
                 "chains of depth 3 used at each level, parents used again after their overlays, plus random histories; at "
                 "each use 2 fixed skeletons sensitive to all four whitespace options + random skeletons are rendered and "
                 "compared with the Lean reference trim-env under the options in effect (incl. keep_trailing_newline and "
                 "newline_sequence)"),
    })
    return st


def replay(ctx, case):
    jinja2 = core.import_jinja()
    from harness import envways as ew
    c = case["case"]
    if "history" in c:
        return ew.replay_history(jinja2, c)
    env = jinja2.Environment(**c["config"])
    out = {"render": env.from_string(c["source"]).render()}
    if c.get("way"):
        out["render_through_" + c["way"]] = dict(ew.variants(jinja2, c["config"]))[c["way"]].from_string(c["source"]).render()
    return out
