"""C12 — whitespace control: real rendering vs the documented rules (Spec/Trim.lean)."""
from __future__ import annotations

import itertools

from harness import core
from harness import lexcommon as lc
from harness.core import Atom

ID = "C12"
LEAN_MODULES = ["JinjaV.Props.C12"]
LEVEL = "proof"
TRUSTED = [
    "rule-level theorems are about the lexer model (Model/Lex.lean), differentially validated against the real lexer (C39)",
    "the segment-level reference Spec/Trim.lean is compared with the real renderer by this run; its agreement with the "
    "lexer model on all skeletons is tested, not proved (the skeleton theorem of DESIGN §5 C12 is not established)",
]
ASSUMPTIONS = ["skeleton texts share no characters with delimiters and signs; tag interiors are single-line"]

WS = ["", " ", "\t", "\n", " \n ", "\n\n", "  ", "\n  ", " \n", "\n\t\n", "\x0b", "\n "]
WORD = ["", "a", "foo", "é"]
SIGNS = ["n", "m", "p"]


def gen_seg(rng):
    k = rng.choice(["text", "text", "block", "block", "comment", "variable", "raw"])
    if k == "text":
        return [Atom("text"), rng.choice(WS) + rng.choice(WORD) + rng.choice(WS)]
    if k == "block":
        return [Atom("tag"), Atom("block"), Atom(rng.choice(SIGNS)), Atom(rng.choice(SIGNS)), "set z = 1"]
    if k == "comment":
        return [Atom("tag"), Atom("comment"), Atom(rng.choice(SIGNS)), Atom(rng.choice(SIGNS)), rng.choice(["c", "c\nd", ""])]
    if k == "variable":
        return [Atom("tag"), Atom("variable"), Atom(rng.choice(SIGNS)), Atom(rng.choice(["n", "m"])), "'V%d'" % rng.randrange(3)]
    return [Atom("raw"), Atom(rng.choice(SIGNS)), rng.random() < 0.3, rng.choice(WS) + rng.choice(["", "r", "{{ x }}"]) + rng.choice(WS),
            Atom(rng.choice(SIGNS)), Atom(rng.choice(SIGNS))]


def exhaustive_small():
    """text / tag / text with every sign combination and whitespace run on both sides"""
    for kind in ("block", "comment", "variable"):
        for l, r in itertools.product(SIGNS, SIGNS if kind != "variable" else ["n", "m"]):
            for w1, w2 in itertools.product(WS, WS):
                interior = {"block": "set z = 1", "comment": "c", "variable": "'V'"}[kind]
                yield [[Atom("text"), "a" + w1], [Atom("tag"), Atom(kind), Atom(l), Atom(r), interior], [Atom("text"), w2 + "b"]]
                yield [[Atom("text"), w1], [Atom("tag"), Atom(kind), Atom(l), Atom(r), interior], [Atom("text"), w2]]
    for l1, l2, r2 in itertools.product(SIGNS, SIGNS, SIGNS):
        for m in (False, True):
            for w1, w2 in itertools.product(WS[:8], WS[:8]):
                yield [[Atom("text"), "a" + w1], [Atom("raw"), Atom(l1), m, w2 + "r" + w1, Atom(l2), Atom(r2)], [Atom("text"), w2 + "b"]]


def run(ctx, res):
    jinja2 = core.import_jinja()
    rng = ctx.rng("c12")
    skeletons = list(exhaustive_small())
    if ctx.quick:
        skeletons = skeletons[::3]
    for _ in range(ctx.pick(4000, 40000)):
        skeletons.append([gen_seg(rng) for _ in range(rng.randrange(1, 7))])
    total, distinct, mism = 0, set(), 0
    samples = []
    cfgs = [("default", False, False), ("trim", True, False), ("lstrip", False, True), ("trim+lstrip", True, True)]
    delims = [lc.CONFIGS["default"], lc.CONFIGS["erb"], lc.CONFIGS["php"]]
    for name, trim, lstrip in cfgs:
        for di, d in enumerate(delims):
            # line-break normalisation and the trailing newline are C11's subject: keep them out of the way here
            c = dict(d, trim_blocks=trim, lstrip_blocks=lstrip, keep_trailing_newline=True)
            sk = skeletons if di == 0 else skeletons[di::5]
            variants = lc.env_variants(jinja2, c)
            reps = core.driver_batch([[Atom("trim"), lc.enc_cfg(c), s] for s in sk])
            for i, (s, rep) in enumerate(zip(sk, reps)):
                if rep[0] != "ok":
                    continue
                src, pieces = rep[1], rep[2]
                want = "".join(p[1] if str(p[0]) == "data" else p[1].strip("'") for p in pieces)
                vname, env = variants[i % 3]
                try:
                    got = env.from_string(src).render()
                except Exception as e:  # noqa
                    got = f"raised:{type(e).__name__}:{e}"
                total += 1
                distinct.add((src, name))
                if got != want:
                    mism += 1
                    kinds = sorted({str(x[1]) if str(x[0]) == "tag" else str(x[0]) for x in s if str(x[0]) != "text"})
                    res.violate(f"C12:{name}:" + "+".join(kinds),
                                f"trim_blocks={trim} lstrip_blocks={lstrip} ({vname}): {src!r} renders {got!r}; the documented rules give {want!r}",
                                {"source": src, "trim_blocks": trim, "lstrip_blocks": lstrip, "config": c, "segments": core.sx(s)})
            if len(samples) < 2:
                samples.append({"source": reps[-1][1], "trim_blocks": trim, "lstrip_blocks": lstrip})
    res.coverage.update({
        "evaluations": total,
        "distinct_nontrivial": len(distinct),
        "rule": ("skeletons of text (12 whitespace runs x words), block/comment/variable tags with every '-', '+', no-sign "
                 "combination on each side, and raw blocks (signs on all four sides): exhaustive text-tag-text triples "
                 f"({'every third' if ctx.quick else 'all'}) plus random skeletons of 1-6 segments, under the four trim/lstrip settings x "
                 "default/ERB/PHP delimiters, rendered through fresh / overlay-of-used / Template(...) environments and "
                 "compared with the Lean reference rules"),
        "samples": samples,
        "mismatches": mism,
    })


def replay(ctx, case):
    jinja2 = core.import_jinja()
    c = case["case"]
    env = jinja2.Environment(**c["config"])
    return {"render": env.from_string(c["source"]).render()}
