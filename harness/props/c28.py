"""C28 — loaders stay inside their search path; choice/prefix resolution."""
from __future__ import annotations

import itertools
import os
import posixpath
import shutil
import sys
import tempfile
import threading

from harness import core
from harness.core import Atom

ID = "C28"
LEAN_MODULES = ["JinjaV.Props.C28"]
LEVEL = "proof"
TRUSTED = [
    "Model/Path.lean is a hand transcription of split_template_path, posixpath.join, ChoiceLoader and PrefixLoader "
    "(loaders.py), tied by this correspondence run",
    "symbolic links and the operating system's path resolution are outside the model; the audit-hook run observes the "
    "real file opens instead",
]
ASSUMPTIONS = ["search directories themselves do not contain symlinks pointing outside (followlinks is about listing only)"]

FRAGS = ["..", ".", "", "a", "b.html", "\\", "C:", "~", "\x00", "é", "...", "a\\b", " ", "..a", "sub"]

_audit = threading.local()
_hook_installed = False


def _hook(event, args):
    log = getattr(_audit, "log", None)
    if log is not None and event == "open" and args and isinstance(args[0], (str, bytes)):
        log.append(os.fsdecode(args[0]))


def canon(o):
    if isinstance(o, list):
        return [canon(x) for x in o]
    return str(o) if isinstance(o, Atom) else o


def real_split(name, sep=None, altsep=None):
    from jinja2 import loaders
    from jinja2.exceptions import TemplateNotFound

    saved = (os.sep, os.path.altsep)
    try:
        if sep is not None:
            os.sep, os.path.altsep = sep, altsep
        try:
            return ["ok", loaders.split_template_path(name)]
        except TemplateNotFound:
            return ["err", "notfound"]
        except Exception as e:  # noqa
            return ["raised", type(e).__name__]
    finally:
        os.sep, os.path.altsep = saved


def run(ctx, res):
    global _hook_installed
    jinja2 = core.import_jinja()
    from jinja2.exceptions import TemplateNotFound

    maxseg = ctx.pick(3, 4)
    names = set()
    for n in range(1, maxseg + 1):
        for segs in itertools.product(FRAGS, repeat=n):
            names.add("/".join(segs))
    names = sorted(names)
    rng = ctx.rng("names")
    for _ in range(ctx.pick(2000, 20000)):
        names.append("".join(rng.choice(["a", "/", ".", "..", "\\", "b", "é", ":"]) for _ in range(rng.randrange(0, 12))))
    # L-unit: split_template_path under POSIX and Windows separator parameters -----------------
    reqs = [[Atom("path-split"), "/", Atom("none"), n] for n in names] + [[Atom("path-split"), "\\", "/", n] for n in names]
    replies = core.driver_batch(reqs)
    unit = 0
    for i, (n, rep) in enumerate(zip(names + names, replies)):
        windows = i >= len(names)
        got = real_split(n, "\\", "/") if windows else real_split(n)
        unit += 1
        want = canon(rep)
        if got != want:
            # oracle: the property (accepted pieces are safe); a difference that keeps all pieces safe is model drift
            unsafe = got[0] == "ok" and any(p in ("..", ".", "") or "/" in p or (windows and "\\" in p) for p in got[1])
            accepted_escape = got[0] == "ok" and want[0] == "err"
            if unsafe or accepted_escape:
                res.violate("C28:split:" + ("windows" if windows else "posix"),
                            f"split_template_path({n!r}) with sep={'backslash' if windows else '/'} gives {got!r}; documented {want!r}",
                            {"name": n, "windows": windows})
            else:
                res.violate("C28:model-drift", f"split_template_path({n!r}) = {got!r} but model {want!r} (pieces still safe)",
                            {"name": n, "windows": windows}, no_input=True)
    # L-e2e: real loaders on a scratch tree with sentinels outside; audit hook records every open ----
    if not _hook_installed:
        sys.addaudithook(_hook)
        _hook_installed = True
    base = tempfile.mkdtemp(prefix="jv-c28-")
    e2e = 0
    escapes = 0
    try:
        root = os.path.join(base, "root")
        other = os.path.join(base, "root2")
        os.makedirs(os.path.join(root, "a"))
        os.makedirs(os.path.join(root, "sub"))
        os.makedirs(os.path.join(other, "a"))
        pkgdir = os.path.join(base, "pkgs", "jvpkg", "templates", "a")
        os.makedirs(pkgdir)
        open(os.path.join(base, "pkgs", "jvpkg", "__init__.py"), "w").close()
        for p, txt in ((os.path.join(root, "a", "b.html"), "IN-a-b"), (os.path.join(root, "b.html"), "IN-b"),
                       (os.path.join(root, "sub", "b.html"), "IN-sub"), (os.path.join(other, "a", "b.html"), "IN2-a-b"),
                       (os.path.join(other, "b.html"), "IN2-b"), (os.path.join(base, "secret.txt"), "SECRET"),
                       (os.path.join(base, "b.html"), "SECRET-b"), (os.path.join(base, "a"), "SECRET-a"),
                       (os.path.join(pkgdir, "b.html"), "PKG-a-b"), (os.path.join(base, "pkgs", "jvpkg", "templates", "b.html"), "PKG-b"),
                       (os.path.join(base, "pkgs", "jvpkg", "b.html"), "SECRET-pkg")):
            with open(p, "w") as f:
                f.write(txt)
        sys.path.insert(0, os.path.join(base, "pkgs"))
        try:
            loaders = {
                "fs": (jinja2.FileSystemLoader(root), [root]),
                "fs2": (jinja2.FileSystemLoader([root, other]), [root, other]),
                "fs-trailing-slash": (jinja2.FileSystemLoader(root + "/"), [root]),
                "pkg": (jinja2.PackageLoader("jvpkg", "templates"), [os.path.join(base, "pkgs", "jvpkg", "templates")]),
                "prefix-fs": (jinja2.PrefixLoader({"p": jinja2.FileSystemLoader(root)}), [root]),
                "prefix-colon": (jinja2.PrefixLoader({"fs": jinja2.FileSystemLoader(root)}, delimiter=":"), [root]),
                "choice-fs": (jinja2.ChoiceLoader([jinja2.FileSystemLoader(other), jinja2.FileSystemLoader(root)]), [root, other]),
            }
            env = jinja2.Environment()
            extra = [base + "/secret.txt", "/" + base + "/secret.txt", "//" + base + "/secret.txt", "../secret.txt",
                     "a/../../secret.txt", "sub/../../b.html", "./../b.html", "..\\secret.txt", "a/b.html", "b.html",
                     "sub/b.html", "a//b.html", "./a/./b.html", "/a/b.html", "a/b.html/", "a\\b.html"]
            test_names = extra + (names if not ctx.quick else rng.sample(names, 1500))
            for lname, (loader, allowed) in loaders.items():
                allowed_real = [os.path.realpath(a) for a in allowed]
                for n in test_names:
                    for variant in ([n] if not lname.startswith("prefix") else
                                    [("p/" if lname == "prefix-fs" else "fs:") + n]):
                        _audit.log = []
                        try:
                            src = loader.get_source(env, variant)[0]
                            outcome = "ok"
                        except TemplateNotFound:
                            src, outcome = None, "notfound"
                        except Exception as e:  # noqa
                            src, outcome = None, f"raised:{type(e).__name__}"
                        opened = list(_audit.log)
                        _audit.log = None
                        e2e += 1
                        bad = [p for p in opened if p.endswith((".html", ".txt")) or "secret" in p or p.endswith("/a")]
                        bad = [p for p in bad if not any(os.path.realpath(p).startswith(a + os.sep) for a in allowed_real)]
                        if bad or (src is not None and "SECRET" in src):
                            escapes += 1
                            res.violate(f"C28:escape:{lname}", f"{lname} loader asked for {variant!r} opened {bad[:2]} "
                                        f"(source {src!r}) outside its search path {allowed}", {"loader": lname, "name": variant})
                        if outcome.startswith("raised"):
                            res.violate(f"C28:error-class:{lname}", f"{lname} loader asked for {variant!r}: {outcome} instead of TemplateNotFound",
                                        {"loader": lname, "name": variant})
        finally:
            sys.path.remove(os.path.join(base, "pkgs"))
            sys.modules.pop("jvpkg", None)
    finally:
        shutil.rmtree(base, ignore_errors=True)
    # join: posixpath.join vs model on accepted pieces --------------------------------------------
    jreqs, jmeta = [], []
    for n in rng.sample(names, min(len(names), ctx.pick(1500, 8000))):
        sp = real_split(n)
        if sp[0] == "ok":
            for r in ("/srv/t", "/srv/t/", "rel/dir", "", "/"):
                jreqs.append([Atom("path-join"), r, sp[1]])
                jmeta.append((r, sp[1]))
    for (r, ps), rep in zip(jmeta, core.driver_batch(jreqs)):
        got = posixpath.join(r, *ps)
        if got != rep[1][0]:
            res.violate("C28:model-drift-join", f"posixpath.join({r!r}, *{ps}) = {got!r}, model {rep[1][0]!r}", {"root": r, "pieces": ps}, no_input=True)
    # choice / prefix resolution on random DictLoader compositions -------------------------------------
    comp = run_compositions(ctx, res, jinja2)
    res.coverage.update({
        "evaluations": unit + e2e + len(jreqs) + comp["evaluations"],
        "distinct_nontrivial": len(set(names)) + comp["distinct"],
        "rule": (f"L-unit: every name of <= {maxseg} segments over 15 path fragments ('..', '.', '', backslash, drive, NUL, "
                 "Unicode, ...) plus random names, split_template_path under POSIX and Windows separators; L-e2e: the "
                 "same names against FileSystemLoader (one/two dirs, trailing slash), PackageLoader, PrefixLoader ('/' and "
                 "':' delimiters) and ChoiceLoader on a scratch tree with sentinel files outside, every open() recorded "
                 "by an audit hook; posixpath.join vs model; random choice/prefix compositions of DictLoaders"),
        "samples": [{"name": "a/../../secret.txt"}, {"name": "//abs/secret.txt", "loader": "fs"}, comp["sample"]],
        "unit_cases": unit, "e2e_lookups": e2e, "escapes": escapes, "compositions": comp["evaluations"],
    })


def run_compositions(ctx, res, jinja2):
    from jinja2.exceptions import TemplateNotFound

    rng = ctx.rng("comp")
    env = jinja2.Environment()
    reqs, meta = [], []
    pool = ["x", "y", "a/x", "p/x", "p/q/x", "q:x", "", "p/", "/x", "p"]
    for _ in range(ctx.pick(1500, 15000)):
        def dl():
            ks = rng.sample(pool, rng.randrange(0, 4))
            return {k: rng.randrange(100) for k in ks}
        name = rng.choice(pool + ["zz", "p/zz", "q/x", "p:x"])
        if rng.random() < 0.5:
            ds = [dl() for _ in range(rng.randrange(0, 4))]
            loader = jinja2.ChoiceLoader([jinja2.DictLoader({k: str(v) for k, v in d.items()}) for d in ds])
            reqs.append([Atom("path-choice"), [[[k, v] for k, v in d.items()] for d in ds], name])
        else:
            delim = rng.choice(["/", ":", "::", "/p"])
            ms = {p: dl() for p in rng.sample(["p", "q", "", "p/q"], rng.randrange(0, 3))}
            loader = jinja2.PrefixLoader({p: jinja2.DictLoader({k: str(v) for k, v in d.items()}) for p, d in ms.items()}, delimiter=delim)
            reqs.append([Atom("path-prefix"), [[p, [[k, v] for k, v in d.items()]] for p, d in ms.items()], delim, name])
        meta.append((loader, name, reqs[-1]))
    replies = core.driver_batch(reqs)
    distinct = set()
    for (loader, name, rq), rep in zip(meta, replies):
        try:
            got = ["ok", int(loader.get_source(env, name)[0])]
        except TemplateNotFound as e:
            got = ["err", "notfound"]
            if isinstance(loader, jinja2.PrefixLoader) and e.name != name:
                res.violate("C28:prefix:error-name", f"PrefixLoader reports {e.name!r} instead of the full name {name!r}", {"request": core.sx(rq)})
        except Exception as e:  # noqa
            got = ["raised", type(e).__name__]
        distinct.add(core.sx(rq))
        if got != canon(rep):
            kind = "choice" if rq[0] == "path-choice" else "prefix"
            res.violate(f"C28:{kind}:resolution", f"{kind} loader {core.sx(rq)} resolves to {got!r}; documented {canon(rep)!r}",
                        {"request": core.sx(rq)})
    # histories: the loaders' contents change between lookups (resolution must follow the current contents)
    hist_reqs, hist_meta = [], []
    for h in range(ctx.pick(300, 3000)):
        ds = [dict() for _ in range(3)]
        dls = [jinja2.DictLoader({}) for _ in ds]
        use_prefix = rng.random() < 0.3
        if use_prefix:
            loader = jinja2.PrefixLoader({"p": dls[0], "q": dls[1], "r": dls[2]})
        else:
            loader = jinja2.ChoiceLoader(dls)
        env2 = jinja2.Environment(loader=loader, cache_size=0)
        steps = []
        for _ in range(rng.randrange(3, 8)):
            k = rng.randrange(3)
            nm = rng.choice(["x", "y"])
            act = rng.choice(["add", "add", "del", "get", "get", "load"])
            if act == "add":
                v = rng.randrange(100)
                ds[k][nm] = v
                dls[k].mapping[nm] = str(v)
                steps.append(("add", k, nm, v))
            elif act == "del":
                ds[k].pop(nm, None)
                dls[k].mapping.pop(nm, None)
                steps.append(("del", k, nm))
            else:
                full = (rng.choice("pqr") + "/" + nm) if use_prefix else nm
                try:
                    if act == "get":
                        got = ["ok", int(loader.get_source(env2, full)[0])]
                    else:
                        got = ["ok", int(env2.get_template(full).render())]
                except TemplateNotFound:
                    got = ["err", "notfound"]
                except Exception as e:  # noqa
                    got = ["raised", type(e).__name__]
                snap = [[[k2, v2] for k2, v2 in d.items()] for d in ds]
                if use_prefix:
                    rq = [Atom("path-prefix"), [[pn, snap[i]] for i, pn in enumerate("pqr")], "/", full]
                else:
                    rq = [Atom("path-choice"), snap, full]
                steps.append((act, full))
                hist_reqs.append(rq)
                hist_meta.append((list(steps), got, rq))
    for (steps, got, rq), rep in zip(hist_meta, core.driver_batch(hist_reqs)):
        distinct.add(repr(steps))
        if got != canon(rep):
            kind = "choice" if rq[0] == "path-choice" else "prefix"
            res.violate(f"C28:{kind}:history", f"{kind} loader after history {steps} resolves to {got!r}; documented {canon(rep)!r} "
                        f"for current contents {core.sx(rq)}", {"steps": steps, "request": core.sx(rq)})
    return {"evaluations": len(reqs) + len(hist_reqs), "distinct": len(distinct), "sample": {"request": core.sx(reqs[0])}}


def replay(ctx, case):
    c = case["case"]
    if "name" in c and "loader" not in c:
        return {"impl": real_split(c["name"], "\\", "/") if c.get("windows") else real_split(c["name"])}
    return c
