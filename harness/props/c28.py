"""C28 — loaders stay inside their search path; choice/prefix resolution."""
from __future__ import annotations

import itertools
import os
import pathlib
import posixpath
import shutil
import sys
import tempfile
import threading
import zipfile

import translate.split_path
from harness import core
from harness.core import Atom

ID = "C28"
LEAN_MODULES = ["JinjaV.Props.C28"]
GEN = [translate.split_path.gen]
LEVEL = "proof"
TRUSTED = [
    "translate/split_path.py reads the whole body of split_template_path into Gen/SplitPath.lean (a SplitProg: refusing "
    "condition, keeping condition, stored expression); the interpreter Model/PathProg.lean is tied to the real function by "
    "this correspondence run; the str->str functions a program applies are uninterpreted (theorems hold for every "
    "interpretation)",
    "Model/Path.lean is a hand transcription of posixpath.join, ChoiceLoader and PrefixLoader (loaders.py) and of "
    "split_template_path (proved equal to the interpreter on the reference program), tied by this correspondence run",
    "FileSystemLoader.get_source / PackageLoader.get_source (join of the search directory with the returned pieces, open) "
    "are not modelled; the file system itself is the oracle (audit hook on every open, realpath of the returned filename, "
    "sentinel contents)",
    "symbolic links and the operating system's path resolution are outside the model; the audit-hook run observes the "
    "real file opens instead",
]
ASSUMPTIONS = ["search directories themselves do not contain symlinks pointing outside (followlinks is about listing only)",
               "os.sep or os.path.altsep is '/' (true of posixpath and ntpath) for the '/'-freedom of transformed pieces"]
CLAIM = dict(
    category="proof",
    technique="Lean 4 proofs over the body of split_template_path READ from the source as a small program (any name, any "
              "separators, every interpretation of the str->str functions it applies) and over the models of posixpath.join / "
              "choice and prefix dispatch + exhaustive and Unicode look-alike differential names + file-system-oracle runs of "
              "the real loaders",
    text="Theorems (Props/C28.lean): the body of split_template_path is translated on every run into a program (refusing "
         "condition, keeping condition, stored expression over chains of str->str function symbols; anything else makes the "
         "translator raise). For EVERY such program whose stored expression is the one both branches test (safeProg), every "
         "interpretation of the function symbols, every os.sep/altsep and every name, each returned piece is non-empty, is not "
         "'.' or '..' and contains no separator, alternative separator or '/' (prog_split_safe, prog_split_no_slash); the "
         "program read from the source satisfies safeProg (gen_prog_safe, by decide — a normalisation/strip/lower/replace/"
         "decode applied after the test breaks this proof), hence gen_split_safe, and joining any search directory with what "
         "it returns appends exactly those pieces as components, none '..' (gen_split_join_inside, join_inside); a "
         "transformation after the test is unsafe for some interpretation (post_transform_can_escape); the interpreter on the "
         "reference program is the hand model (refProg_is_model; split_safe, pardir_rejected); the choice loader answers "
         "with the first loader that has the name and fails iff none has it (choice_first, choice_none_iff); the prefix "
         "loader dispatches on the text before the first delimiter (prefix_dispatch). Tie: every name of <=3 (quick) / <=4 "
         "(thorough) segments over 15 fragments plus names built from Unicode look-alikes of '.', '/', '\\' (fullwidth, "
         "one/two-dot leaders, ellipsis, small forms, division/fraction/big solidus, NFKC/NFKD-foldable, combining and "
         "zero-width sequences, padded/percent-encoded '..', NUL, device names, trailing dots/spaces; lone surrogates "
         "end-to-end only) under POSIX and Windows separators against the hand model and the interpreted Gen program; the "
         "same names against FileSystemLoader (str, Path, relative, symlinked, several directories, followlinks), "
         "PackageLoader (directory and zip), PrefixLoader, ChoiceLoader, nested compositions, Environment.get_template / "
         "include and ModuleLoader on a scratch tree with sentinel files at every level outside (oracle: every open() "
         "recorded by an audit hook and the realpath of the returned filename lie under a search directory, no sentinel "
         "content is returned); static and content-changing compositions of dict loaders.",
    note="Trusted: Lean kernel; translator translate/split_path.py (ast) and interpreter Model/PathProg.lean (tied by "
         "correspondence); hand model Model/Path.lean; get_source bodies, the OS path resolution and symlinks are outside the "
         "model (observed through the file system only). Windows behaviour is model-only (separator parameters).",
    design_ref="§5 C28",
)

FRAGS = ["..", ".", "", "a", "b.html", "\\", "C:", "~", "\x00", "é", "...", "a\\b", " ", "..a", "sub"]

# look-alikes --------------------------------------------------------------------------------------
# things that are, fold to, or can be mistaken for one '.'
DOTS = [".", "\uff0e", "\u2024", "\ufe52", "\uff61", "\u3002", "\u00b7", "\u0701", "\u2e3c", ".\u0301", ".\u200b", "%2e", "%2E"]
# … for '..' as a whole
DOTDOTS = ["\u2025", "\u2026", "\u2025\u0301", "\ufe30", "\u205a", ":", "\u2236",
           " ..", ".. ", "..\t", "..\n", "\u00a0..", "..\u3000", "..\u200b", "\ufeff..", "\u2060..", "..\x00", "\x00..",
           "..\u0301", "\u0338..", "..\u0338", "..\u200d", "..;", "..%00", "%2e%2e", "%252e%252e", "\\x2e\\x2e",
           "\\u002e\\u002e", "&#46;&#46;", ". .", "..\u00ad", "\u202e..", "..\u0307", "\u0323\u0323"]
# … for '/' or '\\'
SLASHES = ["\uff0f", "\u2215", "\u2044", "\u29f8", "\u2571", "\u0338", "\u2100", "\u2101", "\u2105", "\u2106", "\u00bd", "%2f", "%2F",
           "%5c", "\\", "\uff3c", "\ufe68", "\u29f5", "\u2216", "\u29f9", "\u00a5", "\u20a9", "/\u0301", "\u200b/", "\x00"]
WINDOWS = ["CON", "con", "Con.txt", "NUL", "nul.html", "aux.", "COM1", "a.", "a ", "a. .", "b.html.", "b.html ", "B.HTML", "Sub",
           "b.html::$DATA", "C:", "c:", "C:\uff3c", "\\\\?\\C:", "~", "~root", "\uff23\uff2f\uff2e"]
SURROGATES = ["\ud800", "\udc80", "\udcff", "\udcae\udcae", "..\udc80", "\udc2e\udc2e", "\ud83d", "a\udfff"]
NORMAL = ["a", "sub", "b.html", "secret.txt", "deep", "é", "\uff0e\uff0e"]

_audit = threading.local()
_hook_installed = False


def _hook(event, args):
    log = getattr(_audit, "log", None)
    if log is not None and event == "open" and args and isinstance(args[0], (str, bytes)):
        log.append(os.fsdecode(args[0]))


def canon(o):
    if isinstance(o, list):
        return [canon(x) for x in o]
    return str(o) if isinstance(o, Atom) else o


def real_split(name, sep=None, altsep=None):
    from jinja2 import loaders
    from jinja2.exceptions import TemplateNotFound

    saved = (os.sep, os.path.altsep)
    try:
        if sep is not None:
            os.sep, os.path.altsep = sep, altsep
        try:
            return ["ok", loaders.split_template_path(name)]
        except TemplateNotFound:
            return ["err", "notfound"]
        except Exception as e:  # noqa
            return ["raised", type(e).__name__]
    finally:
        os.sep, os.path.altsep = saved


def lookalike_names(ctx, rng, full):
    """names built from look-alikes of '.', '..', '/' and '\\': whole segments that resemble (or fold to) '..' in front
    of a sentinel's name, single segments that embed a look-alike separator between real '..', device names and trailing
    dots/spaces, and random mixtures.  Returns (names, core): `core` is always looked up, the rest is sampled in quick."""
    dd = [a + b for a in DOTS for b in DOTS if (a, b) != (".", ".")] + DOTDOTS
    core_names, more = [], []
    for seg in dd:
        for k in (1, 2, 3):
            for prefix in ("", "sub/"):
                core_names.append(prefix + (seg + "/") * k + "secret.txt")
            more.append("a/" + (seg + "/") * k + "b.html")
            more.append((seg + "/") * k + "b.html")
            more.append("/" + (seg + "/") * k + "secret.txt")
            more.append("./" + (seg + "/") * k + "a")
    for sl in SLASHES:
        for d in ("..", "．．", "‥", ".․"):
            core_names.append("sub" + sl + d + sl + d + sl + "secret.txt")
            core_names.append(d + sl + "secret.txt")
            more.append("sub/" + d + sl + d + sl + d + sl + "b.html")
            more.append(d + sl + d + sl + d + sl + "secret.txt")
            more.append(sl + d + sl + "secret.txt")
    for w in WINDOWS + SURROGATES:
        core_names += [w, w + "/b.html", "sub/" + w, w + "/../secret.txt", "a/" + w + "/b.html"]
    pool = NORMAL + [".", "", ".."] + WINDOWS
    for _ in range(ctx.pick(800, 8000)):
        segs = []
        for _ in range(rng.randrange(1, 6)):
            r = rng.random()
            segs.append(rng.choice(dd) if r < 0.45 else rng.choice(pool) if r < 0.9 else rng.choice(SURROGATES))
        out = segs[0]
        for sgm in segs[1:]:
            out += ("/" if rng.random() < 0.75 else rng.choice(SLASHES)) + sgm
        more.append(out)
    return core_names, more


def in_model(n):
    """the Lean side has no lone surrogates (Char excludes them)"""
    return not any(0xD800 <= ord(c) <= 0xDFFF for c in n)


def show(n):
    """for the evidence file (written as UTF-8): lone surrogates escaped"""
    return n if in_model(n) else n.encode("utf-8", "backslashreplace").decode()


class Sandbox:
    """scratch tree: search directories three levels below the scratch top, sentinel files (content SECRET-…) at every
    level outside them, the real loaders over it"""

    def __init__(self, jinja2):
        global _hook_installed
        self.jinja2 = jinja2
        if not _hook_installed:
            sys.addaudithook(_hook)
            _hook_installed = True
        self.top = os.path.realpath(tempfile.mkdtemp(prefix="jv-c28-"))
        self._syspath = []
        try:
            self._build()
        except BaseException:
            self.close()
            raise

    def _w(self, path, txt):
        os.makedirs(os.path.dirname(path), exist_ok=True)
        with open(path, "w") as f:
            f.write(txt)

    def _build(self):
        jinja2 = self.jinja2
        top = self.top
        base = self.base = os.path.join(top, "o1", "o2", "base")
        root = self.root = os.path.join(base, "root")
        other = self.other = os.path.join(base, "root2")
        pkgs = os.path.join(base, "pkgs")
        tpl = os.path.join(pkgs, "jvpkg", "templates")
        for d, tag in ((root, "IN"), (tpl, "PKG")):
            self._w(os.path.join(d, "a", "b.html"), tag + "-a-b")
            self._w(os.path.join(d, "b.html"), tag + "-b")
            self._w(os.path.join(d, "sub", "b.html"), tag + "-sub")
            self._w(os.path.join(d, "sub", "deep", "b.html"), tag + "-deep")
            self._w(os.path.join(d, "．．", "b.html"), tag + "-fullwidth")
            self._w(os.path.join(d, "..a"), tag + "-dotdota")
        self._w(os.path.join(other, "a", "b.html"), "IN2-a-b")
        self._w(os.path.join(other, "b.html"), "IN2-b")
        self._w(os.path.join(other, "only2.html"), "IN2-only")
        self._w(os.path.join(pkgs, "jvpkg", "__init__.py"), "")
        # sentinels: everything outside a search directory that a '..' chain of up to three steps (four from sub/) reaches
        outside = [top, os.path.join(top, "o1"), os.path.join(top, "o1", "o2"), base, pkgs, os.path.join(pkgs, "jvpkg")]
        for i, d in enumerate(outside):
            self._w(os.path.join(d, "secret.txt"), f"SECRET-{i}")
            self._w(os.path.join(d, "b.html"), f"SECRET-b-{i}")
            if d not in (top, base):
                self._w(os.path.join(d, "a"), f"SECRET-a-{i}")
        self._w(os.path.join(base, "a"), "SECRET-a")
        os.symlink(root, os.path.join(base, "rootlink"))
        # a package inside a zip archive, with sentinels inside the archive but outside its template directory
        zpath = self.zpath = os.path.join(base, "zips", "jvz.zip")
        os.makedirs(os.path.dirname(zpath))
        with zipfile.ZipFile(zpath, "w") as z:
            z.writestr("jvzpkg/__init__.py", "")
            for nm, txt in (("a/b.html", "ZIP-a-b"), ("b.html", "ZIP-b"), ("sub/b.html", "ZIP-sub"), ("sub/deep/b.html", "ZIP-deep")):
                z.writestr("jvzpkg/templates/" + nm, txt)
            for nm in ("jvzpkg/secret.txt", "jvzpkg/b.html", "jvzpkg/a", "secret.txt", "b.html", "a"):
                z.writestr(nm, "SECRET-zip-" + nm)
        for sp in (pkgs, zpath):
            sys.path.insert(0, sp)
            self._syspath.append(sp)
        FS, PK, PR, CH = jinja2.FileSystemLoader, jinja2.PackageLoader, jinja2.PrefixLoader, jinja2.ChoiceLoader
        pkg = PK("jvpkg", "templates")
        zpk = PK("jvzpkg", "templates")
        if zpk._archive is None:
            raise core.HarnessError("the zip package was not imported through zipimport")
        ztpl = os.path.join(zpath, "jvzpkg", "templates")
        for sp in self._syspath:
            sys.path.remove(sp)
        self._syspath = []
        self.env = jinja2.Environment()
        mods = os.path.join(base, "mods")
        jinja2.Environment(loader=FS(root)).compile_templates(mods, zip=None, log_function=lambda *_: None)
        # name -> (loader, allowed directories, prefix put before the name)
        self.loaders = {
            "fs": (FS(root), [root], ""),
            "fs2": (FS([root, other]), [root, other], ""),
            "fs-trailing-slash": (FS(root + "/"), [root], ""),
            "fs-path": (FS(pathlib.Path(root)), [root], ""),
            "fs-path2": (FS([pathlib.Path(other), root]), [root, other], ""),
            "fs-rel": (FS(os.path.relpath(root)), [root], ""),
            "fs-symlinked": (FS(os.path.join(base, "rootlink"), followlinks=True), [root], ""),
            "fs-follow": (FS(root, followlinks=True), [root], ""),
            "pkg": (pkg, [tpl], ""),
            "pkg-zip": (zpk, [ztpl], ""),
            "prefix-fs": (PR({"p": FS(root)}), [root], "p/"),
            "prefix-colon": (PR({"fs": FS(root)}, delimiter=":"), [root], "fs:"),
            "prefix-pkg-zip": (PR({"z": zpk, "d": pkg}), [ztpl], "z/"),
            "choice-fs": (CH([FS(other), FS(root)]), [root, other], ""),
            "choice-pkg-fs": (CH([zpk, pkg, FS(root)]), [root, tpl, ztpl], ""),
            "nested": (CH([PR({"x": CH([FS(other), PR({"y": FS(root)})])}), jinja2.DictLoader({})]), [root, other], "x/y/"),
            "module": (jinja2.ModuleLoader(mods), [mods], ""),
        }
        self.allowed_real = {k: [os.path.realpath(a) for a in v[1]] for k, v in self.loaders.items()}

    def close(self):
        for sp in self._syspath:
            if sp in sys.path:
                sys.path.remove(sp)
        for m in ("jvpkg", "jvzpkg"):
            sys.modules.pop(m, None)
        zp = getattr(self, "zpath", None)
        if zp:
            sys.path_importer_cache.pop(zp, None)
            try:
                import zipimport
                zipimport._zip_directory_cache.pop(zp, None)
            except Exception:  # noqa
                pass
        self.loaders = {}
        shutil.rmtree(self.top, ignore_errors=True)

    def _inside(self, lname, path):
        try:
            rp = os.path.realpath(path)
        except (ValueError, OSError):
            return True, None
        ok = any(rp == a or rp.startswith(a + os.sep) for a in self.allowed_real[lname])
        return ok, rp

    def lookup(self, lname, name, how="get_source"):
        """one lookup on the real loader; the oracle is the file system: which files were opened, where the returned
        filename really is, and whether sentinel content came back"""
        from jinja2.exceptions import TemplateNotFound

        loader, _allowed, prefix = self.loaders[lname]
        variant = prefix + name
        src = filename = None
        _audit.log = []
        try:
            if how == "get_source" and lname != "module":
                src, filename, _ = loader.get_source(self.env, variant)
            elif how == "include":
                env = self.jinja2.Environment(loader=loader, cache_size=0)
                src = env.from_string("{% include n %}").render(n=variant)
            else:
                env = self.jinja2.Environment(loader=loader, cache_size=0)
                t = env.get_template(variant)
                src, filename = t.render(), t.filename
            outcome = "ok"
        except TemplateNotFound:
            outcome = "notfound"
        except Exception as e:  # noqa
            outcome = f"raised:{type(e).__name__}"
        finally:
            opened = list(_audit.log)
            _audit.log = None
        bad = []
        for pth in opened:
            ok, rp = self._inside(lname, pth)
            if not ok and rp != self.zpath and (rp.startswith(self.top + os.sep) or "secret" in rp):
                bad.append(rp)
        if filename is not None and lname != "module":
            ok, rp = self._inside(lname, filename)
            if not ok:
                bad.append("returned filename " + str(rp))
        leaked = src is not None and "SECRET" in src
        return {"loader": lname, "name": name, "how": how, "asked": variant, "outcome": outcome, "source": src,
                "outside": bad, "leaked": leaked}


def run(ctx, res):
    jinja2 = core.import_jinja()
    from jinja2.exceptions import TemplateNotFound  # noqa

    steer = bool(ctx.gen_changed or ctx.tie_broken or ctx.proof_broken)
    maxseg = ctx.pick(3, 4)
    names = set()
    for n in range(1, maxseg + 1):
        for segs in itertools.product(FRAGS, repeat=n):
            names.add("/".join(segs))
    names = sorted(names)
    rng = ctx.rng("names")
    for _ in range(ctx.pick(2000, 20000)):
        names.append("".join(rng.choice(["a", "/", ".", "..", "\\", "b", "é", ":"]) for _ in range(rng.randrange(0, 12))))
    look_core, look_more = lookalike_names(ctx, ctx.rng("lookalike"), steer)
    look_all = look_core + look_more
    unit_names = names + sorted({n for n in look_all if in_model(n)})
    out_of_model = sum(1 for n in set(look_all) if not in_model(n))
    # what the translator read (reported; the proof over it is checked by the build)
    prog = canon(core.driver_batch([[Atom("path-prog")]])[0])
    prog_info = {"safeProg": prog[1][0], "stored_through": prog[1][1], "functions": prog[1][2]} if prog[0] == "ok" else {"reply": prog}
    # L-unit: split_template_path under POSIX and Windows separator parameters, against the hand model and against
    # the interpreter running the program read from the source ------------------------------------------------------
    reqs = [[Atom("path-split"), "/", Atom("none"), n] for n in unit_names] + [[Atom("path-split"), "\\", "/", n] for n in unit_names]
    greqs = [[Atom("path-split-gen")] + r[1:] for r in reqs]
    replies = core.driver_batch(reqs)
    greplies = core.driver_batch(greqs)
    unit = 0
    gen_declined = 0
    caps = {}

    def capped(key, n=5):
        caps[key] = caps.get(key, 0) + 1
        return caps[key] > n
    for i, (n, rep, grep_) in enumerate(zip(unit_names + unit_names, replies, greplies)):
        windows = i >= len(unit_names)
        got = real_split(n, "\\", "/") if windows else real_split(n)
        unit += 1
        want = canon(rep)
        gwant = canon(grep_)
        if gwant == ["oom"]:
            gen_declined += 1
        elif gwant != got and got[0] != "raised":
            key = "C28:model-drift-gen"
            if not capped(key, 1):
                res.violate(key, f"split_template_path({n!r}) = {got!r} but the program read from the source, interpreted, "
                            f"gives {gwant!r} (translator/interpreter no longer describe the function)",
                            {"name": n, "windows": windows}, no_input=True)
        if got != want:
            # oracle: the property (accepted pieces are safe); a difference that keeps all pieces safe is model drift
            unsafe = got[0] == "ok" and any(p in ("..", ".", "") or "/" in p or (windows and "\\" in p) for p in got[1])
            accepted_escape = got[0] == "ok" and want[0] == "err"
            if unsafe or accepted_escape:
                key = "C28:split:" + ("windows" if windows else "posix")
                if not capped(key):
                    res.violate(key,
                                f"split_template_path({n!r}) with sep={'backslash' if windows else '/'} gives {got!r}; documented {want!r}",
                                {"name": n, "windows": windows})
            elif not capped("C28:model-drift", 1):
                res.violate("C28:model-drift", f"split_template_path({n!r}) = {got!r} but model {want!r} (pieces still safe)",
                            {"name": n, "windows": windows}, no_input=True)
    # L-e2e: real loaders on a scratch tree with sentinels outside; the file system is the oracle ------------------
    e2e = 0
    escapes = 0
    outcomes = {}
    extra = None
    sb = Sandbox(jinja2)
    try:
        base = sb.base
        extra = [base + "/secret.txt", "/" + base + "/secret.txt", "//" + base + "/secret.txt", "../secret.txt",
                 "a/../../secret.txt", "sub/../../b.html", "./../b.html", "..\\secret.txt", "a/b.html", "b.html",
                 "sub/b.html", "a//b.html", "./a/./b.html", "/a/b.html", "a/b.html/", "a\\b.html", "only2.html",
                 "sub/deep/b.html", "．．/b.html", "..a", sb.zpath + "/secret.txt", "secret.txt"]
        if ctx.quick and not steer:
            test_names = extra + look_core + rng.sample(look_more, min(len(look_more), 1500)) + rng.sample(names, 1200)
        else:
            test_names = extra + look_all + names
        load_names = extra + look_core[::3] + rng.sample(look_more, min(len(look_more), ctx.pick(300, 3000)))
        plan = [(ln, n, "get_source") for ln in sb.loaders if ln != "module" for n in test_names]
        plan += [(ln, n, how) for ln in ("fs", "pkg", "pkg-zip", "prefix-fs", "choice-pkg-fs", "module") for n in load_names
                 for how in (("get_template", "include") if ln != "module" else ("get_template",))]
        for lname, n, how in plan:
            r = sb.lookup(lname, n, how)
            e2e += 1
            outcomes[r["outcome"].split(":")[0]] = outcomes.get(r["outcome"].split(":")[0], 0) + 1
            if r["outside"] or r["leaked"]:
                escapes += 1
                key = f"C28:escape:{lname}"
                if not capped(key):
                    res.violate(key, f"{lname} loader ({how}) asked for {r['asked']!r} read outside its search path "
                                f"{sb.loaders[lname][1]}: {r['outside'][:2]} source {r['source']!r}",
                                {"loader": lname, "name": n, "how": how})
            # ModuleLoader is not in the property's statement (it hashes the name, no path is built): only the
            # file-system oracle applies to it, not the error class (a lone surrogate makes its sha1 key raise
            # UnicodeEncodeError)
            if r["outcome"].startswith("raised") and lname != "module":
                key = f"C28:error-class:{lname}"
                if not capped(key):
                    res.violate(key, f"{lname} loader ({how}) asked for {r['asked']!r}: {r['outcome']} instead of TemplateNotFound",
                                {"loader": lname, "name": n, "how": how})
    finally:
        sb.close()
    # join: posixpath.join vs model on accepted pieces --------------------------------------------
    jreqs, jmeta = [], []
    for n in rng.sample(unit_names, min(len(unit_names), ctx.pick(2500, 12000))):
        sp = real_split(n)
        if sp[0] == "ok":
            if not all(in_model(x) for x in sp[1]):
                continue
            for r in ("/srv/t", "/srv/t/", "rel/dir", "", "/"):
                jreqs.append([Atom("path-join"), r, sp[1]])
                jmeta.append((r, sp[1]))
    for (r, ps), rep in zip(jmeta, core.driver_batch(jreqs)):
        got = posixpath.join(r, *ps)
        if got != rep[1][0]:
            res.violate("C28:model-drift-join", f"posixpath.join({r!r}, *{ps}) = {got!r}, model {rep[1][0]!r}", {"root": r, "pieces": ps}, no_input=True)
    # choice / prefix resolution on random DictLoader compositions -------------------------------------
    comp = run_compositions(ctx, res, jinja2)
    res.coverage.update({
        "evaluations": unit + e2e + len(jreqs) + comp["evaluations"],
        "distinct_nontrivial": len(set(unit_names)) + out_of_model + comp["distinct"],
        "rule": (f"Gen: the body of split_template_path read into a SplitProg, safeProg re-proved by decide. L-unit: every "
                 f"name of <= {maxseg} segments over 15 path fragments ('..', '.', '', backslash, drive, NUL, Unicode, ...), "
                 "random names, and names built from look-alikes (pairs of 13 dot look-alikes, 34 '..' look-alikes incl. "
                 "padded/percent-encoded/combining/zero-width forms, 25 slash/backslash look-alikes embedded in one segment, "
                 "22 device/trailing-dot/case names, random mixtures), split_template_path under POSIX and Windows "
                 "separators against the hand model and the interpreted Gen program; non-trivial = distinct name. L-e2e: "
                 "the same names (quick: all core look-alikes + samples; thorough or broken tie: all) and 8 lone-surrogate "
                 "forms against 16 loaders (FileSystemLoader str/Path/relative/symlinked/two dirs/followlinks, PackageLoader "
                 "directory and zip, PrefixLoader, ChoiceLoader, nested) via get_source, and a subset via "
                 "Environment.get_template, {% include %} and ModuleLoader, on a scratch tree with sentinel files at six "
                 "levels outside; oracle: every open() recorded by an audit hook and the realpath of the returned filename "
                 "are under a search directory, no sentinel content returned, only TemplateNotFound raised; posixpath.join "
                 "vs model; random choice/prefix compositions and content-changing histories of DictLoaders"),
        "samples": [{"name": "a/../../secret.txt"}, {"name": show(look_core[0]), "loader": "fs"},
                    {"name": show(look_core[len(look_core) // 2]), "loader": "pkg-zip"}, {"name": show(look_more[-1])},
                    comp["sample"]],
        "unit_cases": unit, "unit_names": len(unit_names), "lookalike_names": len(set(look_all)),
        "out_of_model_names": out_of_model, "gen_program": prog_info, "gen_interpreter_declined": gen_declined,
        "e2e_lookups": e2e, "e2e_names": len(set(test_names)), "e2e_outcomes": outcomes, "escapes": escapes,
        "steered_by_broken_tie": steer, "compositions": comp["evaluations"],
    })


def run_compositions(ctx, res, jinja2):
    from jinja2.exceptions import TemplateNotFound

    rng = ctx.rng("comp")
    env = jinja2.Environment()
    reqs, meta = [], []
    pool = ["x", "y", "a/x", "p/x", "p/q/x", "q:x", "", "p/", "/x", "p"]
    for _ in range(ctx.pick(1500, 15000)):
        def dl():
            ks = rng.sample(pool, rng.randrange(0, 4))
            return {k: rng.randrange(100) for k in ks}
        name = rng.choice(pool + ["zz", "p/zz", "q/x", "p:x"])
        if rng.random() < 0.5:
            ds = [dl() for _ in range(rng.randrange(0, 4))]
            loader = jinja2.ChoiceLoader([jinja2.DictLoader({k: str(v) for k, v in d.items()}) for d in ds])
            reqs.append([Atom("path-choice"), [[[k, v] for k, v in d.items()] for d in ds], name])
        else:
            delim = rng.choice(["/", ":", "::", "/p"])
            ms = {p: dl() for p in rng.sample(["p", "q", "", "p/q"], rng.randrange(0, 3))}
            loader = jinja2.PrefixLoader({p: jinja2.DictLoader({k: str(v) for k, v in d.items()}) for p, d in ms.items()}, delimiter=delim)
            reqs.append([Atom("path-prefix"), [[p, [[k, v] for k, v in d.items()]] for p, d in ms.items()], delim, name])
        meta.append((loader, name, reqs[-1]))
    replies = core.driver_batch(reqs)
    distinct = set()
    for (loader, name, rq), rep in zip(meta, replies):
        try:
            got = ["ok", int(loader.get_source(env, name)[0])]
        except TemplateNotFound as e:
            got = ["err", "notfound"]
            if isinstance(loader, jinja2.PrefixLoader) and e.name != name:
                res.violate("C28:prefix:error-name", f"PrefixLoader reports {e.name!r} instead of the full name {name!r}", {"request": core.sx(rq)})
        except Exception as e:  # noqa
            got = ["raised", type(e).__name__]
        distinct.add(core.sx(rq))
        if got != canon(rep):
            kind = "choice" if rq[0] == "path-choice" else "prefix"
            res.violate(f"C28:{kind}:resolution", f"{kind} loader {core.sx(rq)} resolves to {got!r}; documented {canon(rep)!r}",
                        {"request": core.sx(rq)})
    # histories: the loaders' contents change between lookups (resolution must follow the current contents)
    hist_reqs, hist_meta = [], []
    for h in range(ctx.pick(300, 3000)):
        ds = [dict() for _ in range(3)]
        dls = [jinja2.DictLoader({}) for _ in ds]
        use_prefix = rng.random() < 0.3
        if use_prefix:
            loader = jinja2.PrefixLoader({"p": dls[0], "q": dls[1], "r": dls[2]})
        else:
            loader = jinja2.ChoiceLoader(dls)
        env2 = jinja2.Environment(loader=loader, cache_size=0)
        steps = []
        for _ in range(rng.randrange(3, 8)):
            k = rng.randrange(3)
            nm = rng.choice(["x", "y"])
            act = rng.choice(["add", "add", "del", "get", "get", "load"])
            if act == "add":
                v = rng.randrange(100)
                ds[k][nm] = v
                dls[k].mapping[nm] = str(v)
                steps.append(("add", k, nm, v))
            elif act == "del":
                ds[k].pop(nm, None)
                dls[k].mapping.pop(nm, None)
                steps.append(("del", k, nm))
            else:
                full = (rng.choice("pqr") + "/" + nm) if use_prefix else nm
                try:
                    if act == "get":
                        got = ["ok", int(loader.get_source(env2, full)[0])]
                    else:
                        got = ["ok", int(env2.get_template(full).render())]
                except TemplateNotFound:
                    got = ["err", "notfound"]
                except Exception as e:  # noqa
                    got = ["raised", type(e).__name__]
                snap = [[[k2, v2] for k2, v2 in d.items()] for d in ds]
                if use_prefix:
                    rq = [Atom("path-prefix"), [[pn, snap[i]] for i, pn in enumerate("pqr")], "/", full]
                else:
                    rq = [Atom("path-choice"), snap, full]
                steps.append((act, full))
                hist_reqs.append(rq)
                hist_meta.append((list(steps), got, rq))
    for (steps, got, rq), rep in zip(hist_meta, core.driver_batch(hist_reqs)):
        distinct.add(repr(steps))
        if got != canon(rep):
            kind = "choice" if rq[0] == "path-choice" else "prefix"
            res.violate(f"C28:{kind}:history", f"{kind} loader after history {steps} resolves to {got!r}; documented {canon(rep)!r} "
                        f"for current contents {core.sx(rq)}", {"steps": steps, "request": core.sx(rq)})
    return {"evaluations": len(reqs) + len(hist_reqs), "distinct": len(distinct), "sample": {"request": core.sx(reqs[0])}}


def replay(ctx, case):
    c = case["case"]
    if "name" in c and "loader" not in c:
        return {"impl": real_split(c["name"], "\\", "/") if c.get("windows") else real_split(c["name"])}
    if "loader" in c:
        sb = Sandbox(core.import_jinja())
        try:
            r = sb.lookup(c["loader"], c["name"], c.get("how", "get_source"))
            r["search_path"] = sb.loaders[c["loader"]][1]
            return r
        finally:
            sb.close()
    return c
