"""C29 — rendering is repeatable and does not modify its inputs.

Proof side: Props/C29.lean (write targets READ from compiler.py / runtime.py / environment.py; heap model of
new_context / get_all / derived with dict identity; render leaves every pre-existing dict unchanged and is a function of
the contents of data and globals).
Tie: (1) Gen regenerated each run; (2) L-unit: the real `new_context`, `Context.get_all`, `Context.derived` against the
model, including *which object* the parent is (`is`); (3) the model's render against real templates built from the same
little programs (set / lookup / include-with-locals); (4) L-e2e: deep snapshots (structure + identity of every container
reachable from the data, env.globals, template.globals, policies, filter/test tables) around renders of generated
templates in random orders, repeated, sync and async, interleaved data sets, module cache before/after; (5) concurrent
renders from 8-16 threads with a tiny switch interval (exploration, labelled partial).
Excluded by rule: method calls of data objects written by the template author (`{{ xs.append(1) }}`), the `do` extension,
attribute stores on `namespace()` objects.
"""
from __future__ import annotations

import asyncio
import re
import sys
import threading

from harness import core
from harness.core import Atom
from translate import ctx_writes as tr_writes

ID = "C29"
GEN = [tr_writes.gen]
LEAN_MODULES = ["JinjaV.Props.C29"]
LEVEL = "proof"
TRUSTED = [
    "translator translate/ctx_writes.py: emitted code fragments are classified by the token shape of their store target; "
    "fragments passed through variables (Gen `dynamicFragments`) are not classified; local containers of runtime functions "
    "(kwargs, args, arguments, buf) are taken to be the function's own",
    "Model/CtxState.lean: hand transcription of new_context / Context.__init__ / get_all / derived / resolve_or_missing, tied "
    "by the L-unit identity checks; the body of a template is abstracted to set / copy / lookup / scope operations",
    "filters are Python functions outside the model: that they do not mutate their inputs is established by the snapshot "
    "runs only (C19/C22 own the filter theorems)",
]
ASSUMPTIONS = [
    "data objects do not mutate themselves when read (no side effects in __getitem__/__iter__/__str__)",
    "multi-threaded claim: no theorem about CPython threads; the model has no thread-shared mutable state besides the "
    "module cache and the template/lexer caches (C26); threads are explored, not proved (partial)",
]
CLAIM = dict(
    category="proof",
    technique="Lean 4: decide +kernel over the table of all stores emitted by the code generator and performed by the "
              "runtime (regenerated from source each run) + heap model with dict identity for new_context/get_all/derived "
              "with proofs of input preservation and repeatability + identity-level differential runs of the real functions "
              "+ deep-snapshot end-to-end renders (repeated, interleaved, async, threaded)",
    text="Theorems (Props/C29.lean): every store emitted by the code generator targets context.vars / exported_vars / blocks "
         "/ eval_ctx, the vars of a derived context, frame-local dicts, buffers, locals, assignment targets or a guarded "
         "namespace attribute, never context.parent, environment.*, a template object (render_writes_only_own); every "
         "store or mutating call in runtime.py / environment.py is on the object's own state, the module cache, a derived "
         "context, a local container, the template cache or configuration API (engine_writes_only_own); in the heap model "
         "new_context leaves every pre-existing dict unchanged, makes a new parent dict for shared=false, copies before "
         "writing locals for shared=true, aliases the caller's dict only when nothing is written, and gives the context a "
         "new empty vars dict (new_context_copies); a render leaves every pre-existing dict unchanged and its output equals "
         "a heap-free function of the contents of data and globals (render_spec, render_preserves_inputs); rendering again "
         "after any other render gives the same output with data and globals unchanged (repeat_same). Tie: real "
         "new_context/get_all/derived vs model on generated dicts with `is` checks; model render vs real templates "
         "(set/lookup/include with locals); deep snapshots (structure + identity) of data, env.globals, template.globals, "
         "policies around generated templates (set, namespace, loops, macros, include/import with and without context, "
         "~110 container-filter expressions incl. sort/reverse/unique/sum(start)/batch/slice/dictsort/map/xmlattr/tojson; "
         "attribute assignment on data dicts/objects/globals alone and inside tuple targets in every position must raise and "
         "leave them untouched; namespace(mapping|pairs[, k=v]) over data, env globals, template globals and an imported "
         "module's exported dict followed by attribute assignments) "
         "rendered repeatedly in random orders, interleaved data sets, sync and async; module cache before/after; "
         "8-16 threads with switch interval 1e-6; histories of anonymous (from_string) and named (get_template(name, "
         "globals=…)) templates with different template-level globals importing one library without context, in both "
         "orders, interleaved, threaded, sync and async, each compared with its solo render in a fresh environment.",
    note="Trusted: Lean kernel; translator (token-shape classification of emitted stores, dynamic fragments unclassified); "
         "hand model tied by correspondence. Partial: the multi-threaded clause is explored, not proved; filter purity is "
         "snapshot-tested here (theorems belong to C19/C22); module_cache_idempotent is end-to-end only.",
    design_ref="§5 C29",
)

# --------------------------------------------------------------------------------------------------------------------
# deep snapshots: structure + identity of every container reachable
# --------------------------------------------------------------------------------------------------------------------


class Obj:
    """a data object with attributes (its __dict__ is part of the snapshot)"""

    def __init__(self, **kw):
        self.__dict__.update(kw)

    def __repr__(self):
        return "Obj(%s)" % ",".join(f"{k}={v!r}" for k, v in sorted(self.__dict__.items()))


def snap(root):
    """(description, containers): description is a nested tuple in which every container is numbered by first visit
    (so aliasing structure is part of it); containers are the objects themselves, in visit order (for `is` checks)"""
    from collections import ChainMap
    seen = {}
    objs = []

    def go(x, depth=0):
        if isinstance(x, (int, float, str, bytes, bool, type(None))):
            return ("v", type(x).__name__, x)
        if depth > 12:
            return ("deep",)
        i = seen.get(id(x))
        if i is not None:
            return ("ref", i)
        if isinstance(x, (dict, list, tuple, set, frozenset, ChainMap, Obj)):
            seen[id(x)] = len(objs)
            n = len(objs)
            objs.append(x)
            if isinstance(x, ChainMap):
                return ("chainmap", n, tuple(go(m, depth + 1) for m in x.maps))
            if isinstance(x, dict):
                return ("dict", n, tuple((go(k, depth + 1), go(v, depth + 1)) for k, v in x.items()))
            if isinstance(x, (list, tuple)):
                return (type(x).__name__, n, tuple(go(v, depth + 1) for v in x))
            if isinstance(x, (set, frozenset)):
                return (type(x).__name__, n, tuple(sorted((go(v, depth + 1) for v in x), key=repr)))
            return ("obj", n, go(x.__dict__, depth + 1))
        # functions, classes, cyclers …: identity only
        return ("opaque", type(x).__name__, id(x))

    return go(root), objs


def same_snapshot(a, b):
    (da, oa), (db, ob) = a, b
    if da != db:
        return "contents changed"
    if len(oa) != len(ob) or any(x is not y for x, y in zip(oa, ob)):
        return "a container was replaced by another object"
    return None


def first_diff(da, db, path="data"):
    if da == db:
        return None
    if isinstance(da, tuple) and isinstance(db, tuple) and len(da) == len(db) and da[:1] == db[:1]:
        for i, (x, y) in enumerate(zip(da, db)):
            d = first_diff(x, y, f"{path}/{i}")
            if d:
                return d
    return f"{path}: {str(da)[:80]} -> {str(db)[:80]}"


# --------------------------------------------------------------------------------------------------------------------
# data sets and templates
# --------------------------------------------------------------------------------------------------------------------

def make_data(variant):
    inner = [1, 2]
    d = dict(
        xs=[3, 1, 2], ys=["b", "a", "B", "b"], nested=[[2, 1], [3], inner], inner=inner,
        d={"k": 1, "j": "v", "n": {"a": [2, 1]}, "z": None}, dd={"b": [2, 1], "a": [9]},
        objs=[Obj(g=1, v="x", tags=["t", "s"]), Obj(g=2, v="y", tags=[]), Obj(g=1, v="z", tags=["u"])],
        s="he<l>lo\nwo rld", n=5, z=0, start=[], start2=[0], tup=(1, [2, 3]), st={3, 1, 2}, lines=["a", "b"],
        attrs={"class": "c", "id": 1, "data-x": ["l"]}, words=["x y", "z"],
        cfg={"seen": "no", "lst": [1]}, cobj=Obj(seen="no"), pairs=[("p", 1), ("q", [2])],
    )
    if variant == 1:
        d.update(xs=[9, 8], ys=["q"], n=1, s="other", nested=[[5]], d={"k": 7}, objs=[Obj(g=3, v="w", tags=["a"])])
    elif variant == 2:
        d.update(xs=[], ys=[], nested=[], d={}, objs=[], start=[7])
    return d


EXPRS = [
    "xs|sort", "xs|sort(reverse=true)", "ys|sort(case_sensitive=true)", "xs|reverse|list", "ys|unique|list", "ys|unique(case_sensitive=true)|list",
    "nested|sum(start=start)", "nested|sum(start=[])", "nested|sum(start=start2)|length", "xs|sum", "objs|sum(attribute='g')",
    "objs|map(attribute='tags')|sum(start=start)", "objs|sum(attribute='tags', start=start)", "xs|batch(2)|list", "xs|batch(2, 0)|list", "nested|batch(2, start)|list",
    "xs|slice(2)|list", "xs|slice(2, 0)|list", "nested|slice(2, start)|list", "lines|indent", "s|indent(2, first=true)", "lines|join('\\n')|indent",
    "d|dictsort", "dd|dictsort(by='value', reverse=true)|length", "dd|dictsort", "d|items|list", "dd|items|map('last')|map('sort')|list",
    "objs|map(attribute='v')|list", "objs|map(attribute='tags')|list", "objs|map(attribute='tags')|map('sort')|list", "nested|map('sort')|list",
    "nested|map('reverse')|map('list')|list", "nested|map('first')|list", "nested|map('length')|list", "attrs|xmlattr", "d|xmlattr(false)", "d|tojson", "xs|tojson", "nested|tojson(2)",
    "objs|groupby('g')|list|length", "objs|groupby('g')|map('last')|map('length')|list", "objs|groupby(attribute='g', default=0)|map(attribute='list')|list|length",
    "xs|join(',')", "nested|join('|')", "objs|join(',', attribute='v')", "xs|first", "nested|first", "nested|last", "xs|list", "d|list", "xs|select|list",
    "xs|reject('gt', 1)|list", "objs|selectattr('g', 'eq', 1)|list|length", "objs|rejectattr('tags')|list|length", "xs|min", "nested|max", "dd.b|sort",
    "(d.n.a if d.n else xs)|sort", "(d.n.a if d.n else xs)|reverse|list", "xs|length", "xs + [4]", "xs * 2", "nested + [inner]", "d.items()|list|length", "d.keys()|list", "dd.values()|list",
    "xs[:2]", "nested[0]", "tup|list", "tup[1]|sort", "st|sort", "st|list|length", "dict(d)", "dict(d, extra=1)|length", "d|default({})", "start|default([1], true)",
    "ys|map('upper')|list", "ys|map('replace', 'b', 'c')|list", "words|map('wordcount')|list", "words|map('title')|join", "s|wordwrap(4)", "d|pprint|length", "xs|string",
    "xs|map('string')|join", "s|replace('l', xs|join)", "s|truncate(5)", "s|striptags", "s|urlize", "s|escape", "s|safe", "nested|map('join', '-')|list",
    "xs|sort|first", "xs|sort|last", "(xs|sort) == (xs|sort)", "xs == xs|list", "inner in nested", "inner is sameas nested[2] if nested|length > 2", "nested|map('join')|unique|list|length",
    "cycler(*xs).next() if xs", "joiner(', ')()", "range(n)|list", "lipsum(1, html=false, min=2, max=3)|length > 0", "namespace(a=xs).a", "xs|attr('missing')|default('m')",
    "d|attr('keys')|string|length > 0", "objs[0].tags if objs", "objs|map(attribute='__dict__')|list|length", "'%s %s'|format(xs, d)|length", "xs|filesizeformat if false else 0",
]
ITERS = ["xs", "ys", "nested", "objs", "d", "d.items()", "d|dictsort", "xs|sort", "xs|reverse", "nested|map('sort')", "objs|groupby('g')",
         "xs|batch(2)", "xs|slice(2)", "range(n)", "dd|items", "st|sort", "tup", "ys|unique", "lines"]


# attribute assignment is for `namespace()` objects only: on anything else (data dict, data object, globals) it must raise
# TemplateRuntimeError and leave the object untouched — also for every ref of a tuple target, in either order
GUARD = [
    "{% set ns = namespace(total=0) %}{% set ns.total, cfg.seen = ns.total + 1, 'yes' %}{{ ns.total }}{{ cfg.seen }}",
    "{% set ns = namespace(a=0) %}{% set cfg.seen, ns.a = 'yes', 1 %}{{ ns.a }}",
    "{% set ns = namespace(a=0) %}{% set ns.a, v, GD.z = 1, 2, 3 %}{{ v }}{{ GD }}",
    "{% set ns = namespace(a=0) %}{% set ns.a, cobj.seen, ns.b = 1, 'yes', 2 %}{{ ns.a }}",
    "{% set ns = namespace(a=0) %}{% set ns.a, ns.b, cfg.lst = 1, 2, [] %}{{ ns.a }}",
    "{% set cfg.x = 1 %}{{ cfg }}",
    "{% set d.k = xs %}{{ d }}",
    "{% set ns = namespace() %}{% set ns.a, TG.t = 1, 2 %}{{ ns.a }}{{ TG }}",
    "{% set ns = namespace(a=0) %}{% for x in [1, 2] %}{% set ns.a, cfg.lst = x, [] %}{% endfor %}{{ ns.a }}{{ cfg }}",
    "{% set m = namespace(a=0) %}{% set n2 = namespace(b=0) %}{% set m.a, n2.b, dd.b = 1, 2, 3 %}{{ m.a }}{{ n2.b }}{{ dd }}",
]
# `namespace(mapping)` / `namespace(pairs)` copies: attribute assignments afterwards must not reach the mapping it was made from
NSFORMS = [
    "{% set ns = namespace(cfg) %}{% set ns.seen = 'yes' %}{% set ns.extra = xs %}{{ ns.seen }}{{ ns.extra }}{{ cfg }}",
    "{% set ns = namespace(cfg, k=xs) %}{% set ns.k = ns.k + [1] %}{% set ns.lst = 0 %}{{ ns.k }}{{ cfg }}{{ xs }}",
    "{% set ns = namespace(pairs) %}{% set ns.p = 5 %}{% set ns.r = ns.q %}{{ ns.p }}{{ pairs }}",
    "{% set ns = namespace(d.items()) %}{% set ns.k = 0 %}{% set ns.new = 1 %}{{ ns.k }}{{ d }}",
    "{% set ns = namespace(d, z=1) %}{% for x in xs %}{% set ns.z = ns.z + x %}{% set ns.k = x %}{% endfor %}{{ ns.z }}{{ d }}",
    "{% set ns = namespace(GD) %}{% set ns.b = 1 %}{% set ns.n = xs %}{{ ns.b }}{{ GD }}",
    "{% set ns = namespace(GD, extra=GL) %}{% set ns.a = 0 %}{{ ns.a }}{{ ns.extra }}{{ GD }}{{ GL }}",
    "{% set ns = namespace(TG, z=1) %}{% set ns.t = 0 %}{{ ns.t }}{{ TG }}",
    "{% import 'lib' as lib %}{% set ns = namespace(lib.conf) %}{% set ns.a = ns.a + [2] %}{% set ns.c = 3 %}{{ ns.a }}{{ lib.conf }}",
    "{% from 'lib' import conf %}{% set ns = namespace(conf, b=0) %}{% set ns.z = 1 %}{{ ns.b }}{{ conf }}",
    "{% set ns = namespace(dd) %}{% for x in xs %}{% set ns.b = ns.b + [x] %}{% endfor %}{{ ns.b }}{{ dd }}",
    "{% macro m(c) %}{% set ns = namespace(c) %}{% set ns.seen = 'm' %}{{ ns.seen }}{% endmacro %}{{ m(cfg) }}{{ m(GD) }}{{ cfg }}{{ GD }}",
]


def gen_expr(r):
    return "(" + r.choice(EXPRS) + ")"


def gen_body(r, depth, in_loop=False):
    return "".join(gen_stmt(r, depth, in_loop) for _ in range(r.randint(1, 3)))


def gen_stmt(r, depth, in_loop=False):
    E = lambda: gen_expr(r)  # noqa: E731
    B = lambda il=in_loop: gen_body(r, depth - 1, il) if depth > 0 else "{{ %s }}" % E()  # noqa: E731
    kinds = ["out", "out", "out", "if", "for", "for", "set", "set", "setblock", "with", "filterblock", "macro", "call", "include",
             "includenoctx", "import", "from", "fromctx", "ns", "nsloop", "nsdict", "loopvar", "forrec", "setlist", "autoescape"]
    if depth <= 0:
        kinds = ["out", "out", "set", "loopvar", "setlist"]
    k = r.choice(kinds)
    if k == "loopvar" and not in_loop:
        k = "out"
    if k == "out":
        return "{{ %s }}" % E()
    if k == "loopvar":
        return "{{ %s }}" % r.choice(["loop.index", "loop.length", "loop.last", "x", "loop.cycle(xs, ys)", "loop.previtem", "loop.changed(x)"])
    if k == "if":
        return "{%% if %s %%}%s{%% else %%}%s{%% endif %%}" % (E(), B(), B())
    if k == "for":
        return "{%% for x in %s %%}%s{%% else %%}-{%% endfor %%}" % (r.choice(ITERS), B(True))
    if k == "forrec":
        return "{% for x in nested recursive %}{% if x is iterable and x is not string %}<{{ loop(x) }}>{% else %}{{ x }}{% endif %}{% endfor %}"
    if k == "set":
        return "{%% set v%d = %s %%}{{ v%d }}" % (depth, E(), depth)
    if k == "setlist":
        return "{%% set w%d = xs %%}{%% set w%d = w%d + [%d] %%}{{ w%d|sort }}{{ xs }}" % (depth, depth, depth, depth, depth)
    if k == "setblock":
        return "{%% set sb | trim %%}%s{%% endset %%}{{ sb|length }}" % B()
    if k == "with":
        return "{%% with a = %s, b = xs %%}%s{{ a }}{{ b|sort }}{%% endwith %%}" % (E(), B())
    if k == "filterblock":
        return "{%% filter %s %%}%s{%% endfilter %%}" % (r.choice(["upper", "trim", "indent(1)", "replace('1', '2')", "wordwrap(7)"]), B())
    if k == "macro":
        nm = "m%d%d" % (depth, r.randint(0, 9))
        return "{%% macro %s(p, q=xs, r=%s) %%}%s{{ p }}{{ q|sort }}{{ r }}{{ varargs }}{{ kwargs|dictsort }}{%% endmacro %%}{{ %s(%s) }}{{ %s(nested, d, 1, 2, k=xs) }}" % (
            nm, E(), B(False), nm, E(), nm)
    if k == "call":
        nm = "c%d%d" % (depth, r.randint(0, 9))
        return "{%% macro %s(p) %%}<{{ caller(p|sort) }}>{%% endmacro %%}{%% call(cv) %s(xs) %%}%s{{ cv }}{%% endcall %%}" % (nm, nm, B(False))
    if k == "include":
        return "{%% include '%s' %%}" % r.choice(["inc_a", "inc_b"])
    if k == "includenoctx":
        return "{%% include '%s' %s %%}" % (r.choice(["inc_a", "inc_b"]), r.choice(["without context", "with context", "ignore missing"]))
    if k == "import":
        return "{%% import 'lib' as lib %%}{{ lib.lm(%s) }}{{ lib.gv }}{{ lib.gl|sort }}" % E()
    if k == "from":
        return "{% from 'lib' import lm, gl as gl2 %}{{ lm(xs) }}{{ gl2|reverse|list }}"
    if k == "fromctx":
        return "{%% from 'libctx' import cm with context %%}{{ cm(%s) }}" % E()
    if k == "ns":
        return "{%% set ns = namespace(c=%s, l=xs) %%}{%% set ns.c = ns.l|sort %%}{%% set ns.l = ns.l + [0] %%}{{ ns.c }}{{ ns.l }}{{ xs }}" % E()
    if k == "nsloop":
        return "{% set acc = namespace(t=start) %}{% for x in nested %}{% set acc.t = acc.t + x %}{% endfor %}{{ acc.t }}{{ start }}"
    if k == "nsdict":
        src = r.choice(["cfg", "d", "dd", "GD", "TG", "pairs", "d.items()", "attrs"])
        kw = r.choice(["", ", k=xs", ", seen=1"])
        return "{%% set nd%d = namespace(%s%s) %%}{%% set nd%d.seen = %s %%}{%% set nd%d.k = xs %%}{{ nd%d.seen }}{{ %s }}" % (
            depth, src, kw, depth, E(), depth, depth, src.replace(".items()", ""))
    if k == "autoescape":
        return "{%% autoescape %s %%}%s{{ s }}{%% endautoescape %%}" % (r.choice(["true", "false"]), B())
    raise AssertionError(k)


def gen_templates(r):
    E = lambda: gen_expr(r)  # noqa: E731
    t = {
        "inc_a": "(A{{ %s }}{%% set leak = xs|sort %%}{{ leak }})" % E(),
        "inc_b": "(B{%% for x in %s %%}{{ x }}{%% endfor %%}{{ %s }})" % (r.choice(ITERS), E()),
        # imported without context: sees only the globals (GL is a list, GD a dict in env.globals)
        "lib": "{%% set conf = {'a': [1], 'b': 2} %%}{%% set gv = %s %%}{%% set gl = GL %%}{%% macro lm(p) %%}[{{ p }}{{ GL|sort }}{{ %s }}]{%% endmacro %%}" % (
            r.choice(["GL|sort", "GL|reverse|list", "GD|dictsort", "GL|sum", "GD|tojson", "GL|batch(2)|list", "(GL|unique|list) + [1]"]),
            r.choice(["GD|items|list", "GL|map('string')|join", "p|string|length", "GL|slice(2)|list"])),
        "libctx": "{%% macro cm(p) %%}<{{ p }}{{ %s }}>{%% endmacro %%}" % E(),
        "base": "<<{%% block head %%}H{{ %s }}{%% endblock %%}|{%% block body %%}B{{ %s }}{%% endblock %%}|{{ self.head() }}>>" % (E(), E()),
    }
    mains = []
    for i in range(5):
        name = "main%d" % i
        if r.random() < 0.2:
            src = "{%% extends 'base' %%}{%% block head %%}%s{%% endblock %%}{%% block body %%}%s{{ super() }}{%% endblock %%}" % (
                gen_body(r, 1), gen_body(r, 1))
        else:
            src = gen_body(r, 2)
        t[name] = src
        mains.append(name)
    # the attribute-assignment corpus: every guard form, and two of the namespace(mapping) forms per environment
    for j, src in enumerate(GUARD):
        t["guard%d" % j] = src
        mains.append("guard%d" % j)
    for j in r.sample(range(len(NSFORMS)), 4):
        t["nsform%d" % j] = NSFORMS[j]
        mains.append("nsform%d" % j)
    return t, mains


def make_env(jinja2, is_async, templates, autoescape=False):
    env = jinja2.Environment(loader=jinja2.DictLoader(dict(templates)), enable_async=is_async, autoescape=autoescape)
    env.globals["GL"] = [3, 1, 2, 1]
    env.globals["GD"] = {"b": [2, 1], "a": {"x": 1}}
    return env


_ADDR = re.compile(r"(?i) at 0x[0-9a-f]+")


def render(t, data, how="render"):
    try:
        if how == "render":
            out = t.render(data)
        elif how == "kwargs":
            out = t.render(**data)
        elif how == "generate":
            out = "".join(t.generate(data))
        elif how == "stream":
            out = "".join(t.stream(**data))
        elif how == "render_async":
            out = asyncio.run(t.render_async(data))
        else:
            raise AssertionError(how)
        return ("ok", _ADDR.sub("", out))
    except Exception as x:  # noqa: BLE001 — the class of a failure is part of the observable result
        return ("exc", type(x).__name__)


def module_view(t):
    """the cached module of a template as an observable value (text, exported names) — or the class of the failure"""
    try:
        m = t.module
        return ("ok", _ADDR.sub("", str(m)), sorted(k for k in m.__dict__ if not k.startswith("_")))
    except Exception as x:  # noqa: BLE001
        return ("exc", type(x).__name__)


def env_inputs(env, templates):
    """everything of the environment that a render must not modify"""
    return {"globals": env.globals, "policies": env.policies, "filters": env.filters, "tests": env.tests,
            "tglobals": {n: t.globals for n, t in templates.items()}}


# --------------------------------------------------------------------------------------------------------------------
# L-unit: new_context / get_all / derived against the model
# --------------------------------------------------------------------------------------------------------------------

KEYS = ["a", "b", "c"]


def gen_dict(r, maxn=3):
    ks = r.sample(KEYS, r.randint(0, maxn))
    return {k: r.randint(0, 9) for k in ks}


def enc_dict(d):
    return [[k, v] for k, v in d.items()]


def unit_cases(ctx, res, jinja2, stats):
    from jinja2.runtime import Context, missing, new_context
    env = jinja2.Environment()
    n = ctx.pick(400, 4000)
    reqs, obs, metas = [], [], []
    for i in range(n):
        r = ctx.rng("unit", i)
        which = r.choice(["newctx", "newctx", "getall", "derived"])
        if which == "newctx":
            vars_ = gen_dict(r)
            shared = r.random() < 0.5
            globals_ = gen_dict(r) if r.random() < 0.7 else None
            locals_ = [(k, (missing if r.random() < 0.25 else r.randint(10, 19))) for k in r.sample(KEYS + ["l"], r.randint(0, 3))]
            v0, g0 = dict(vars_), (dict(globals_) if globals_ is not None else None)
            c = new_context(env, None, {}, vars_, shared, globals_, dict(locals_))
            parent_is = "vars" if c.parent is vars_ else ("globals" if (globals_ is not None and c.parent is globals_) else "fresh")
            ob = [parent_is, enc_dict(c.parent), enc_dict(vars_), enc_dict(globals_) if globals_ is not None else "none"]
            if c.vars is c.parent or c.vars is vars_ or c.vars or (globals_ is not None and c.vars is globals_):
                ob.append("vars-not-fresh")
            reqs.append([Atom("c29"), Atom("newctx"), enc_dict(v0), shared, enc_dict(g0) if g0 is not None else Atom("none"),
                         [[k, (Atom("missing") if v is missing else v)] for k, v in locals_]])
        elif which == "getall":
            vars_, parent = gen_dict(r, 2), gen_dict(r, 2)
            c = Context(env, parent, None, {})
            c.vars.update(vars_)
            ga = c.get_all()
            ob = ["parent" if ga is c.parent else ("vars" if ga is c.vars else "fresh"), enc_dict(ga)]
            reqs.append([Atom("c29"), Atom("getall"), enc_dict(vars_), enc_dict(parent)])
        else:
            vars_, parent = gen_dict(r, 2), gen_dict(r, 2)
            locals_ = [(k, (missing if r.random() < 0.25 else r.randint(10, 19))) for k in r.sample(KEYS + ["l"], r.randint(0, 2))]
            c = Context(env, parent, None, {})
            c.vars.update(vars_)
            dctx = c.derived(dict(locals_))
            ob = ["parent" if dctx.parent is c.parent else ("vars" if dctx.parent is c.vars else "fresh"), enc_dict(dctx.parent),
                  enc_dict(c.vars), enc_dict(c.parent)]
            reqs.append([Atom("c29"), Atom("derived"), enc_dict(vars_), enc_dict(parent),
                         [[k, (Atom("missing") if v is missing else v)] for k, v in locals_]])
        obs.append(ob)
        metas.append(dict(which=which, request=core.sx(reqs[-1])))
    replies = core.driver_batch(reqs)

    def canon(x):
        if isinstance(x, list):
            return [canon(y) for y in x]
        return str(x) if isinstance(x, Atom) else x

    for rep, ob, meta in zip(replies, obs, metas):
        stats["unit"] += 1
        stats["unit_" + meta["which"]] = stats.get("unit_" + meta["which"], 0) + 1
        if rep[0] != "ok":
            raise core.HarnessError(f"driver: {rep!r} for {meta}")
        want = canon(rep[1])
        if want != canon(ob):
            # the model is the statement of what may alias / be written: a difference in *which object* is written or
            # in the caller's dicts afterwards is a violation of the property; anything else is drift
            inputs_changed = (meta["which"] == "newctx" and (want[2] != canon(ob)[2] or want[3] != canon(ob)[3])) or \
                             (meta["which"] == "derived" and (want[2:] != canon(ob)[2:]))
            if inputs_changed or want[0] != canon(ob)[0]:
                res.violate(f"C29:{meta['which']}:aliasing", f"{meta['which']}: implementation gives {canon(ob)!r}, the model (which never "
                            f"writes a caller's dict) gives {want!r} for {meta['request']}", meta)
            else:
                res.violate(f"C29:model-drift:{meta['which']}", f"{meta['which']}: implementation {canon(ob)!r} vs model {want!r}", meta,
                            no_input=True)


# --------------------------------------------------------------------------------------------------------------------
# model render vs real templates
# --------------------------------------------------------------------------------------------------------------------

NAMES = ["a", "b", "c", "g"]


def gen_prog(r, depth, counter):
    ops = []
    for _ in range(r.randint(1, 4)):
        k = r.choice(["set", "copy", "out", "out", "scope"] if depth > 0 else ["set", "copy", "out", "out"])
        if k == "set":
            ops.append(["set", r.choice(NAMES), r.randint(20, 29)])
        elif k == "copy":
            ops.append(["copy", r.choice(NAMES), r.choice(NAMES)])
        elif k == "out":
            ops.append(["out", r.choice(NAMES + ["l"])])
        else:
            locs = [["l", r.randint(30, 39)]] if r.random() < 0.6 else []
            ops.append(["scope", locs, gen_prog(r, depth - 1, counter)])
    return ops


def prog_to_templates(ops, templates, prefix="p"):
    """the program as Jinja source; scopes become `{% with l = v %}{% include 'pN' %}{% endwith %}`"""
    out = []
    for op in ops:
        if op[0] == "set":
            out.append("{%% set %s = %d %%}" % (op[1], op[2]))
        elif op[0] == "copy":
            out.append("{%% if %s is defined %%}{%% set %s = %s %%}{%% endif %%}" % (op[2], op[1], op[2]))
        elif op[0] == "out":
            out.append("[{{ %s }}]" % op[1])
        else:
            name = "%s_%d" % (prefix, len(templates))
            templates[name] = None
            templates[name] = prog_to_templates(op[2], templates, prefix)
            if op[1]:
                out.append("{%% with l = %d %%}{%% include '%s' %%}{%% endwith %%}" % (op[1][0][1], name))
            else:
                out.append("{%% include '%s' %%}" % name)
    return "".join(out)


def sx_prog(ops):
    out = []
    for op in ops:
        if op[0] == "scope":
            out.append([Atom("scope"), [[k, v] for k, v in op[1]], sx_prog(op[2])])
        elif op[0] == "set":
            out.append([Atom("set"), op[1], op[2]])
        else:
            out.append([Atom(op[0])] + op[1:])
    return out


def model_render_cases(ctx, res, jinja2, stats, intensify=False):
    n = ctx.pick(150, 1500) * (6 if intensify and ctx.quick else 1)
    reqs, obs, metas = [], [], []
    for i in range(n):
        r = ctx.rng("prog", i)
        ops = gen_prog(r, 2, [0])
        templates = {}
        templates["main"] = prog_to_templates(ops, templates)
        vars_ = {k: r.randint(0, 9) for k in r.sample(NAMES, r.randint(0, 3))}
        globals_ = {k: r.randint(40, 49) for k in r.sample(NAMES, r.randint(0, 3))}
        env = jinja2.Environment(loader=jinja2.DictLoader(templates), enable_async=(i % 3 == 0))
        env.globals.clear()
        env.globals.update(globals_)
        v0, g0 = dict(vars_), dict(globals_)
        t = env.get_template("main")
        kind, out = render(t, vars_, "render")
        again = render(t, vars_, "render")
        observed = [re.findall(r"\[(\d*)\]", out) if kind == "ok" else kind, enc_dict(vars_), enc_dict(dict(env.globals))]
        observed[0] = [int(x) if x else "missing" for x in observed[0]] if kind == "ok" else observed[0]
        reqs.append([Atom("c29"), Atom("render"), enc_dict(v0), enc_dict(g0), sx_prog(ops)])
        obs.append((observed, (kind, out), again))
        metas.append(dict(source=templates, vars=v0, globals=g0))
    replies = core.driver_batch(reqs)
    for rep, (ob, first, again), meta in zip(replies, obs, metas):
        stats["model_render"] += 1
        if rep[0] != "ok":
            raise core.HarnessError(f"driver: {rep!r}")
        outs, vafter, gafter = rep[1]
        want = [[("missing" if isinstance(x, Atom) else x) for x in outs], [list(p) for p in vafter], [list(p) for p in gafter]]
        if first != again:
            res.violate("C29:repeat-differs:model-program", f"rendering twice gives {first!r} then {again!r}", meta)
        if ob[1] != want[1] or ob[2] != want[2]:
            res.violate("C29:input-modified:model-program", f"data/globals after the render {ob[1:]} differ from before {want[1:]}", meta)
        elif ob[0] != want[0]:
            res.violate("C29:model-drift:render", f"model outputs {want[0]} vs rendered {ob[0]} for {meta['source']['main']!r}", meta, no_input=True)


# --------------------------------------------------------------------------------------------------------------------
# imports without context by templates that carry their own template-level globals
# --------------------------------------------------------------------------------------------------------------------
# A library imported *without* context sees the environment globals plus the importing template's extra template-level
# globals (Template._get_default_module(ctx), environment.py).  Every importer must get a module built for *its* globals:
# anonymous templates (from_string: name None) and a named template whose globals are extended by a later
# get_template(name, globals=…) are rendered in both orders, interleaved, repeatedly, from threads, sync and async;
# the oracle is the solo render of the same job in a brand new environment.

IMP_LIBS = [
    "{% macro greet(who) %}{{ greeting }}, {{ who }} from {{ site }}!{% endmacro %}{% set top = site|default('no-site') %}",
    "{% set top = (site, tg2|default(0)) %}{% macro greet(who) %}[{{ who }}|{{ site|default('-') }}|{{ tg2|default('-') }}|{{ GL|sort }}]{% endmacro %}",
    "{% macro greet(who) %}{{ inner(who) }}{% endmacro %}{% macro inner(w) %}<{{ w }}@{{ site }}>{% endmacro %}{% set top = site ~ ':' ~ greeting %}",
]
IMP_PAGES = [
    "{% import 'modlib' as m %}{{ m.greet(name) }}/{{ m.top }}",
    "{% from 'modlib' import greet, top %}{{ greet(name) }}/{{ top }}",
    "{% from 'modlib' import greet as g2 %}{% for x in [1, 2] %}{{ g2(name ~ x) }}{% endfor %}",
    "{% import 'modlib' as m %}{% macro wrap(n) %}({{ m.greet(n) }}){% endmacro %}{{ wrap(name) }}{{ m.top }}",
    "{% import 'modlib' as a %}{% import 'modlib' as b %}{{ a.greet(name) }}{{ b.top }}",
]
SITES = ["alpha", "beta", "gamma", "delta"]


def imp_env(jinja2, is_async, lib, named_src):
    env = jinja2.Environment(loader=jinja2.DictLoader({"modlib": lib, "named": named_src}), enable_async=is_async)
    env.globals["greeting"] = "Hello"
    env.globals["GL"] = [3, 1, 2]
    return env


def imp_template(env, job):
    kind, src, tglobals, _data = job
    g = dict(tglobals)
    if kind == "named":
        return env.get_template("named", globals=g), g
    return env.from_string(src, globals=g), g


def imp_solo(jinja2, is_async, lib, named_src, job):
    """one render of this job alone in a brand new environment"""
    env = imp_env(jinja2, is_async, lib, named_src)
    t, _g = imp_template(env, job)
    return render(t, dict(job[3]), "render")


def import_globals_histories(ctx, res, jinja2, stats):
    n = ctx.pick(12, 120)
    for i in range(n):
        r = ctx.rng("impglobals", i)
        is_async = r.random() < 0.4
        lib = r.choice(IMP_LIBS)
        named_src = r.choice(IMP_PAGES)
        jobs = []
        for _ in range(r.randint(3, 6)):
            tg = {"site": r.choice(SITES)}
            if r.random() < 0.4:
                tg["tg2"] = r.randint(1, 9)
            if r.random() < 0.15:
                tg = {}
            jobs.append((r.choice(["anon", "anon", "named"]), r.choice(IMP_PAGES), tg, {"name": r.choice(["Ann", "Bob", "Cy"])}))
        # a named template keeps the globals it was given earlier (documented): keep its key set constant over the history
        named_keys = None
        fixed = []
        for kind, src, tg, data in jobs:
            if kind == "named":
                if named_keys is None:
                    named_keys = sorted(tg)
                tg = {k: tg.get(k, r.randint(1, 9) if k == "tg2" else r.choice(SITES)) for k in named_keys}
            fixed.append((kind, src, tg, data))
        jobs = fixed
        solo = [imp_solo(jinja2, is_async, lib, named_src, j) for j in jobs]
        env = imp_env(jinja2, is_async, lib, named_src)
        anon = {ji: imp_template(env, j) for ji, j in enumerate(jobs) if j[0] == "anon"}
        order = list(range(len(jobs))) + list(reversed(range(len(jobs)))) + [r.randrange(len(jobs)) for _ in range(len(jobs) * 2)]
        meta = dict(kind="import-template-globals", lib=lib, named=named_src, jobs=[list(j) for j in jobs], order=order, is_async=is_async,
                    seed=ctx.seed)
        hows = ["render", "kwargs", "generate"] + (["render_async"] if is_async else [])
        for pos, ji in enumerate(order):
            job = jobs[ji]
            if job[0] == "named":
                t, g = imp_template(env, job)       # get_template(name, globals=…) on the cached template
            else:
                t, g = anon[ji]
            g_before, data = dict(g), dict(job[3])
            got = render(t, data, r.choice(hows))
            stats["import_globals_renders"] = stats.get("import_globals_renders", 0) + 1
            if got != solo[ji]:
                res.violate("C29:repeat-differs:import-template-globals",
                            f"history position {pos}: {job[0]} template {job[1]!r} with template globals {job[2]!r} gives {got!r:.120} after the "
                            f"renders {order[:pos]} of {[(j[0], j[2]) for j in jobs]!r:.300}; alone in a fresh environment it gives "
                            f"{solo[ji]!r:.120} (library {lib!r:.120})", dict(meta, position=pos))
            if g != g_before or data != job[3]:
                res.violate("C29:input-modified:template-globals", f"render of job {ji} changed its template globals or data: {g_before} -> {g}",
                            dict(meta, position=pos))
        # threads: anonymous templates only (each thread owns its template objects; the library module is shared), cold environment
        if not is_async and anon:
            tenv = imp_env(jinja2, False, lib, named_src)
            tjobs = [ji for ji in anon]
            ttempl = {ji: imp_template(tenv, jobs[ji])[0] for ji in tjobs}
            nthreads = r.choice([8, 12, 16])
            plan = [[r.choice(tjobs) for _ in range(ctx.pick(6, 10))] for _ in range(nthreads)]
            results = [None] * nthreads
            barrier = threading.Barrier(nthreads)

            def work(k):
                barrier.wait()
                results[k] = [render(ttempl[ji], dict(jobs[ji][3]), "render") for ji in plan[k]]

            old = sys.getswitchinterval()
            sys.setswitchinterval(1e-6)
            try:
                ths = [threading.Thread(target=work, args=(k,)) for k in range(nthreads)]
                for th in ths:
                    th.start()
                for th in ths:
                    th.join()
            finally:
                sys.setswitchinterval(old)
            for k in range(nthreads):
                for ji, got in zip(plan[k], results[k] or []):
                    stats["import_globals_renders"] = stats.get("import_globals_renders", 0) + 1
                    if got != solo[ji]:
                        res.violate("C29:thread-differs:import-template-globals",
                                    f"thread {k}/{nthreads}: anonymous template {jobs[ji][1]!r} with template globals {jobs[ji][2]!r} gives "
                                    f"{got!r:.120}; alone in a fresh environment {solo[ji]!r:.120}", dict(meta, threads=nthreads))


# --------------------------------------------------------------------------------------------------------------------
# run
# --------------------------------------------------------------------------------------------------------------------

def run(ctx, res):
    jinja2 = core.import_jinja()
    import warnings
    warnings.simplefilter("ignore", RuntimeWarning)
    stats = {"unit": 0, "model_render": 0}

    # ---- the write tables: counterexample finders --------------------------------------------------------------------
    audit = core.driver_batch([[Atom("c29"), Atom("audit")]])[0]
    em_off, st_off, n_em, n_st = audit[1]
    for o in list(em_off) + list(st_off):
        res.notes.append("offending write: " + " | ".join(map(str, o)))
    intensify = bool(em_off or st_off or ctx.proof_broken or ctx.tie_broken)

    unit_cases(ctx, res, jinja2, stats)
    model_render_cases(ctx, res, jinja2, stats, intensify)
    import_globals_histories(ctx, res, jinja2, stats)

    # ---- deep snapshots around generated templates ---------------------------------------------------------------------
    n_envs = ctx.pick(32, 200) * (3 if intensify and ctx.quick else 1)
    repeats = ctx.pick(2, 3)
    evaluations = 0
    distinct = set()
    how_hist, expr_hits, samples = {}, {}, []
    failing_templates = 0
    thread_runs = 0
    for ei in range(n_envs):
        r = ctx.rng("env", ei)
        is_async = r.random() < 0.4
        templates, mains = gen_templates(r)
        env = make_env(jinja2, is_async, templates, autoescape=r.random() < 0.3)
        fresh = make_env(jinja2, is_async, templates, autoescape=env.autoescape)
        try:
            tmpl = {n: env.get_template(n, globals={"TG": {"t": [1], "u": 2}}) for n in templates}
            for n in templates:
                fresh.get_template(n, globals={"TG": {"t": [1], "u": 2}})
        except jinja2.TemplateSyntaxError as x:
            raise core.HarnessError(f"generator produced a template that does not compile: {x}: {templates}")
        datasets = [make_data(0), make_data(1), make_data(2)]
        data_snaps = [snap(d) for d in datasets]
        env_in = env_inputs(env, tmpl)      # one wrapper object, re-walked after every render
        env_snap = snap(env_in)
        # reference outputs from the fresh environment with fresh data (one isolated render each)
        ref = {}
        for nm in mains:
            for di in range(3):
                ref[(nm, di)] = render(fresh.get_template(nm), make_data(di), "render")
        if not is_async:
            mod_before = {nm: module_view(fresh.get_template(nm)) for nm in ("lib", "libctx")}
        hows = ["render", "kwargs", "generate", "stream"] + (["render_async"] if is_async else [])
        schedule = [(nm, di) for nm in mains for di in range(3)] * repeats
        r.shuffle(schedule)
        for nm, di in schedule:
            how = r.choice(hows)
            got = render(tmpl[nm], datasets[di], how)
            evaluations += 1
            how_hist[how] = how_hist.get(how, 0) + 1
            distinct.add((templates[nm], di, how, is_async))
            if got[0] != "ok":
                failing_templates += 1
            meta = dict(templates=templates, main=nm, dataset=di, how=how, is_async=is_async, autoescape=env.autoescape, seed=ctx.seed)
            if nm.startswith("guard") and got != ("exc", "TemplateRuntimeError"):
                res.violate("C29:attribute-assignment-unguarded", f"{templates[nm]!r} must raise TemplateRuntimeError (attribute assignment "
                            f"on something that is not a namespace() object); via {how} it gives {got!r:.160}", meta)
            if got != ref[(nm, di)]:
                res.violate("C29:repeat-differs", f"{nm} with data set {di} via {how} gives {got!r:.200}; an isolated render on a fresh "
                            f"environment gives {ref[(nm, di)]!r:.200}", meta)
            after = snap(datasets[di])
            bad = same_snapshot(data_snaps[di], after)
            if bad:
                res.violate("C29:input-modified:data", f"rendering {nm} via {how} modified the data ({bad}): "
                            f"{first_diff(data_snaps[di][0], after[0])}; template {templates[nm]!r:.300}", meta)
                data_snaps[di] = after
            eafter = snap(env_in)
            bad = same_snapshot(env_snap, eafter)
            if bad:
                res.violate("C29:input-modified:environment", f"rendering {nm} via {how} modified env.globals / template.globals / policies "
                            f"/ filter tables ({bad}): {first_diff(env_snap[0], eafter[0], 'env')}", meta)
                env_snap = eafter
            if len(samples) < 4:
                samples.append(dict(template=templates[nm][:200], dataset=di, how=how, output=str(got[1])[:80]))
        for e in EXPRS:
            if any(e in templates[n] for n in templates):
                expr_hits[e] = expr_hits.get(e, 0) + 1
        if not is_async:
            for nm in ("lib", "libctx"):
                now = module_view(tmpl[nm])
                if now != mod_before[nm]:
                    res.violate("C29:module-cache", f"template.module of {nm} after the renders is {now!r:.150}; on a fresh environment "
                                f"{mod_before[nm]!r:.150}",
                                dict(templates=templates, seed=ctx.seed))
        # ---- threads (exploration) -----------------------------------------------------------------------------------
        if not is_async and ei % ctx.pick(2, 1) == 0:
            nthreads = r.choice([8, 12, 16])
            tenv = make_env(jinja2, False, templates, autoescape=env.autoescape)   # cold caches: first loads race too
            for n in templates:      # (template globals are given at load time; the race is on the first *renders*)
                tenv.get_template(n, globals={"TG": {"t": [1], "u": 2}})
            shared_data = [make_data(0), make_data(1)]
            shared_snaps = [snap(d) for d in shared_data]
            results = [None] * nthreads
            plan = [[(r.choice(mains), r.randint(0, 1)) for _ in range(ctx.pick(6, 12))] for _ in range(nthreads)]
            barrier = threading.Barrier(nthreads)

            def work(i):
                barrier.wait()
                results[i] = [render(tenv.get_template(nm), shared_data[di], "render") for nm, di in plan[i]]

            old = sys.getswitchinterval()
            sys.setswitchinterval(1e-6)
            try:
                ths = [threading.Thread(target=work, args=(i,)) for i in range(nthreads)]
                for th in ths:
                    th.start()
                for th in ths:
                    th.join()
            finally:
                sys.setswitchinterval(old)
            thread_runs += 1
            for i in range(nthreads):
                for (nm, di), got in zip(plan[i], results[i] or []):
                    evaluations += 1
                    if got != ref[(nm, di)]:
                        res.violate("C29:thread-differs", f"thread {i}/{nthreads}: {nm} with data set {di} gives {got!r:.160}; isolated "
                                    f"{ref[(nm, di)]!r:.160}", dict(templates=templates, main=nm, dataset=di, threads=nthreads, seed=ctx.seed))
            for di in range(2):
                bad = same_snapshot(shared_snaps[di], snap(shared_data[di]))
                if bad:
                    res.violate("C29:input-modified:data:threads", f"concurrent renders modified shared data ({bad})",
                                dict(templates=templates, threads=nthreads, seed=ctx.seed))

    res.coverage.update({
        "evaluations": evaluations + stats["unit"] + stats["model_render"] + stats.get("import_globals_renders", 0),
        "import_template_globals_renders": stats.get("import_globals_renders", 0),
        "distinct_nontrivial": len(distinct) + stats["unit"] + stats["model_render"],
        "rule": "L-unit: random dicts over 3 keys x shared x globals x locals (with missing) through new_context / get_all / derived, "
                "identity and contents compared with the model; model programs (set/copy/lookup/scope, depth <= 2) rendered as real "
                "templates; L-e2e: templates from ~110 container expressions x 24 statement forms (partials, imports with/without "
                "context, inheritance) over 3 data sets with aliasing, each (template, data) rendered `repeats` times in a shuffled "
                "schedule through render/generate/stream(/render_async), snapshots of data and environment compared after every "
                "render; distinct = (template source, data set, entry point, async); non-trivial = snapshot and output compared",
        "samples": samples,
        "exhaustive": False,
        "unit_cases": {k: v for k, v in stats.items() if k.startswith("unit")},
        "model_render_cases": stats["model_render"],
        "entry_points": how_hist,
        "expressions_exercised": len(expr_hits), "expressions_total": len(EXPRS),
        "renders_raising_naturally": failing_templates,
        "thread_runs": thread_runs, "threads_claim": "partial: exploration, not proof",
        "tables": {"emitted_writes": int(n_em), "runtime_stores": int(n_st), "emitted_offenders": len(em_off), "store_offenders": len(st_off)},
        "intensified": intensify,
    })


def replay(ctx, case):
    jinja2 = core.import_jinja()
    case = case.get("case", case)      # a replay file wraps the case
    if case.get("kind") == "import-template-globals":
        jobs = [tuple(j) for j in case["jobs"]]
        env = imp_env(jinja2, case["is_async"], case["lib"], case["named"])
        anon = {ji: imp_template(env, j) for ji, j in enumerate(jobs) if j[0] == "anon"}
        out = []
        for pos, ji in enumerate(case["order"][:case.get("position", len(case["order"])) + 1]):
            t = imp_template(env, jobs[ji])[0] if jobs[ji][0] == "named" else anon[ji][0]
            out.append({"position": pos, "job": ji, "template_globals": jobs[ji][2], "got": render(t, dict(jobs[ji][3])),
                        "solo_in_fresh_environment": imp_solo(jinja2, case["is_async"], case["lib"], case["named"], jobs[ji])})
        return {"library": case["lib"], "history": out}
    if "templates" not in case:
        return {"note": "not an end-to-end case", "case": case}
    env = make_env(jinja2, case.get("is_async", False), case["templates"], autoescape=case.get("autoescape", False))
    data = make_data(case.get("dataset", 0))
    before = snap(data)
    env_in = env_inputs(env, {n: env.get_template(n) for n in case["templates"]})
    ebefore = snap(env_in)
    t = env.get_template(case["main"])
    first = render(t, data, case.get("how", "render"))
    second = render(t, data, case.get("how", "render"))
    after = snap(data)
    eafter = snap(env_in)
    return {"template": case["templates"][case["main"]], "first": first, "second": second,
            "data_changed": first_diff(before[0], after[0]), "env_changed": first_diff(ebefore[0], eafter[0], "env")}
