"""C11 — plain text, comments and raw blocks render verbatim."""
from __future__ import annotations

import itertools

from harness import core
from harness import envways as ew
from harness import lexcommon as lc
from harness.core import Atom

ID = "C11"
LEAN_MODULES = ["JinjaV.Props.C11"]
LEVEL = "proof"
TRUSTED = [
    "Model/Lex.lean (hand scanners for the lexer's regular expressions), tied by differential runs (C39) and by this run",
    "rendering of a template that lexes to data/comment/raw tokens only = concatenation of its data tokens with line "
    "breaks converted (parser, compiler and str.join are exercised end-to-end, not modelled)",
]
ASSUMPTIONS = ["valid configuration (non-empty, whitespace-free delimiters)"]

ALPHA = ["a", " ", "\t", "{", "%", "#", "}", "\n", "\r"]


def run(ctx, res):
    jinja2 = core.import_jinja()
    maxlen = ctx.pick(5, 6)
    plain = ["".join(p) for n in range(maxlen + 1) for p in itertools.product(ALPHA, repeat=n)]
    rng = ctx.rng("c11")
    chars = ["a", "é", " ", "\x0b", "\x0c", "\x1c", "\x85", " ", "\t", "\n", "\r", "\r\n", "{", "}", "%", "#", "<", "-", "\x00",
             "中", "\\", "'", "{ {", "% }"]
    longs = ["".join(rng.choice(chars) for _ in range(rng.randrange(5, 60))) for _ in range(ctx.pick(1500, 15000))]
    base = lc.CONFIGS["default"]
    raws = []
    for _ in range(ctx.pick(1500, 10000)):
        c = base
        body = "".join(rng.choice(["x", " ", "\n", "{{", "}}", "{%", "%}", "{#", "#}", "raw", "endraw ", "{% end", "\r\n", "\r", "-", "é"])
                       for _ in range(rng.randrange(0, 8)))
        kind = rng.random()
        # what stands before the tag (incl. indentation at a line start made by any of the three line breaks) and after it
        # (a line break of any kind directly after the tag; "\n\r", form feed and vertical tab for contrast)
        before = rng.choice(["", "t ", "\n", "\r\n", "\r", "t\r\n  ", "t\r  ", "t\n\t", "\x0c "])
        after = rng.choice(["", "\n", " u", "\n\n", "\r\n", "\r", "\r\nu", "\ru", "\r\n\r\n", "\n\r", "\x0c", "\x0b\n"])
        if kind < 0.5:
            src = before + "{%" + rng.choice(["", "-", "+"]) + " raw " + rng.choice(["", "-"]) + "%}" + body \
                + "{%" + rng.choice(["", "-", "+"]) + " endraw " + rng.choice(["", "-", "+"]) + "%}" + after
        else:
            src = before + "{#" + rng.choice(["", "-", "+"]) + body.replace("#}", "# }") + rng.choice(["", "-", "+"]) + "#}" + after
        if rng.random() < 0.3:  # a second tag on the next line
            src += rng.choice(["  ", "\t", ""]) + "{# c #}" + rng.choice(["\r\n", "\r", "\n", ""])
        raws.append(src)
    total, distinct, mism, singles = 0, set(), 0, 0
    way_counts = {}
    samples = []
    for nlseq in ("\n", "\r\n", "\r"):
        for keep in (False, True):
            for trim in (False, True):
                c = lc.cfg(keep_trailing_newline=keep, trim_blocks=trim, lstrip_blocks=trim)
                # the configuration reached in every way a user can reach it (harness/envways.py), used in rotation
                variants = ew.variants(jinja2, dict(c, newline_sequence=nlseq))
                for vn, _ in variants:
                    way_counts.setdefault(vn, 0)
                if trim and ctx.quick:   # quick: trimming/lstripping only for the sources that have tags
                    srcs = raws
                else:
                    srcs = (plain if (nlseq, keep) in (("\n", False), ("\r\n", True)) or not ctx.quick else plain[::7]) + longs + raws
                reps = core.driver_batch([[Atom("lex-plain"), lc.enc_cfg(c), nlseq, s] for s in srcs])
                n = 0
                for s, rep in zip(srcs, reps):
                    if rep[0] != "ok":
                        continue
                    want, single = rep[1], rep[2]
                    singles += bool(single)
                    vname, env = variants[n % len(variants)]
                    n += 1
                    way_counts[vname] += 1
                    try:
                        got = env.from_string(s).render()
                    except Exception as e:  # noqa
                        got = f"raised:{type(e).__name__}:{e}"
                    total += 1
                    distinct.add((s, nlseq, keep, trim))
                    if got != want:
                        mism += 1
                        kind = "plain" if single else ("raw" if "raw" in s else "comment")
                        res.violate(f"C11:{kind}:nl={nlseq!r}:keep={keep}",
                                    f"newline_sequence={nlseq!r} keep_trailing_newline={keep} trim/lstrip={trim} ({vname}): source {s!r} "
                                    f"renders {got!r}; documented {want!r}",
                                    {"source": s, "newline_sequence": nlseq, "keep": keep, "trim": trim, "way": vname, "documented": want})
                if len(samples) < 3:
                    samples.append({"source": longs[0], "newline_sequence": nlseq, "keep_trailing_newline": keep})
    ways = run_env_ways(ctx, res, jinja2)
    fin = run_finalize(ctx, res, jinja2, plain, longs, raws)
    res.coverage.update({
        "evaluations": total + ways["evaluations"] + fin["evaluations"],
        "distinct_nontrivial": len({d for d in distinct if d[0]}) + ways["distinct_nontrivial"] + fin["distinct_nontrivial"],
        "rule": (f"every string of length <= {maxlen} over {{a, space, tab, '{{', '%', '#', '}}', LF, CR}} (exhaustive; those in which "
                 "the Lean lexer model finds no start sequence, or only comments/raw blocks), random long texts with Unicode "
                 "line-break look-alikes and control characters, random raw blocks and comments with delimiter look-alikes "
                 "and signs, preceded by text / indentation after LF, CRLF or lone CR / form feed and followed by LF, CRLF, "
                 "CR, LF CR, FF, VT; rendered under the 3 newline sequences x keep_trailing_newline x trim/lstrip (quick: "
                 "trim/lstrip for the tagged sources), each configuration reached in " + str(len(way_counts)) + " ways in rotation "
                 "(fresh; Template(...); overlays of used parents overriding everything / whitespace options / "
                 "newline_sequence alone / keep_trailing_newline alone / both / delimiters; chains; siblings; parent after its "
                 "overlays); expected text = data tokens of the Lean model with line breaks converted; then environment "
                 "histories: " + ways["rule"] + "; then environments with a finalize callable: " + fin["rule"]),
        "samples": samples,
        "finalize_environments": fin,
        "renders_by_way": way_counts,
        "environment_ways": ways,
        "sources_with_cr": sum(1 for d in distinct if "\r" in d[0]),
        "exhaustive": True,
        "single_data_token_cases": singles,
        "mismatches": mism,
    })


def run_env_ways(ctx, res, jinja2):
    """environment histories (harness/envways.py): whatever its history, an environment renders a plain source as the
    Lean lexer model says for the options in effect, and as a fresh Environment with these options does"""
    rng = ctx.rng("env-ways")
    roots = ew.default_roots(rng, ctx.pick(0, 6))
    # roots that differ in the newline policy only, so that overrides of newline_sequence / keep_trailing_newline alone
    # start from every value
    roots += [ew.options(newline_sequence="\r\n", keep_trailing_newline=True), ew.options(newline_sequence="\r")]
    scenarios = ew.systematic(rng, roots) + [ew.random_scenario(rng) for _ in range(ctx.pick(60, 1500))]
    stats = ew.attach_plain_probes(rng, scenarios, ctx.pick(2, 4))
    fresh = ew.Fresh(jinja2)
    st = {"evaluations": 0, "uses": 0, "overlay_uses": 0, "overlay_uses_where_the_parents_options_give_another_result": 0,
          "newline_only_overlay_uses": 0, "suppressed_repeats": 0}
    by_way, distinct, per_key = {}, set(), {}
    for sc in scenarios:
        events = sc.events

        def on_use(ev, env, events=events):
            o, way, dk = ev["opts"], ev["way"], ev["delta"]
            by_way[f"{way}:{dk}"] = by_way.get(f"{way}:{dk}", 0) + 1
            st["uses"] += 1
            shows = False
            for p in ev["plain"]:
                src, want = p["source"], p["documented"]
                got, ref = ew.render(env, src), fresh(o, src)
                st["evaluations"] += 1
                distinct.add((ew.okey(o), way, dk, src))
                if ev["parent_opts"] is not None and fresh(ev["parent_opts"], src) != want:
                    shows = True
                if got != want or got != ref:
                    key = f"C11:env:{way}:{dk}"
                    per_key[key] = per_key.get(key, 0) + 1
                    if per_key[key] > 3:
                        st["suppressed_repeats"] += 1
                        continue
                    res.violate(key, f"{ew.describe(events, ev)}: {src!r} renders {got!r}; the lexer model under the options in "
                                f"effect ({ew._short(o) or 'defaults'}) gives {want!r}; a fresh Environment with these options "
                                f"renders {ref!r}",
                                {"history": ew.history(events, ev), "source": src, "observed": got, "documented": want,
                                 "fresh_environment": ref})
            if ev["parent_opts"] is not None:
                st["overlay_uses"] += 1
                st["overlay_uses_where_the_parents_options_give_another_result"] += shows
                po = ev["parent_opts"]
                st["newline_only_overlay_uses"] += all(po[k] == o[k] for k in o if k not in ("newline_sequence", "keep_trailing_newline")) \
                    and po != o

        ew.execute(jinja2, events, on_use)
    shapes = {}
    for sc in scenarios:
        shapes[sc.shape] = shapes.get(sc.shape, 0) + 1
    st.update({
        "distinct_nontrivial": len(distinct), "scenarios": shapes, "roots": [ew._short(r) or "defaults" for r in roots],
        "uses_by_way_and_overridden_option_group": dict(sorted(by_way.items())), "violations_by_key": per_key, **stats,
        "rule": (f"{len(scenarios)} histories over {len(roots)} root option sets (Environment(...) or Template('',...).environment): "
                 "for every root and every override set (newline_sequence alone, keep_trailing_newline alone, both, every other "
                 "combination of the four whitespace options, line prefixes, delimiter sets, mixtures, none) an overlay of "
                 "the fresh and of the already used root, sibling overlays, chains of depth 3 used at each level, parents used "
                 "again after their overlays, plus random histories; at each use 2 fixed sources (LF / CRLF / CR lines with a "
                 "trailing line break) + random plain sources (text, comments, raw blocks; all three line breaks, FF/VT, "
                 "Unicode look-alikes) are rendered and compared with the Lean lexer model (lex-plain) under the options in "
                 "effect and with a fresh Environment"),
    })
    return st


# ---------------------------------------------------------------------------------------------------------------
# environments with a finalize callable: finalize post-processes the results of expressions only; template data
# (plain text, text around comments, raw-block bodies) is never passed through it, so every plain source renders
# exactly as without finalize, i.e. as the lexer model says
# ---------------------------------------------------------------------------------------------------------------

def _tf_strip(v):
    return v.strip() if isinstance(v, str) else v


def _tf_upper(v):
    return v.upper() if isinstance(v, str) else v


def _tf_escape(v):
    from markupsafe import escape
    return str(escape(v)) if isinstance(v, str) else v


def _tf_placeholder(v):
    """the common 'render None / empty as a dash' finalize; also trims"""
    if v is None:
        return "-"
    if isinstance(v, str):
        return v.strip() or "-"
    return v


def _tf_wrap(v):
    return f"[{v}]"


TRANSFORMS = {"strip": _tf_strip, "upper": _tf_upper, "escape": _tf_escape, "placeholder": _tf_placeholder, "wrap": _tf_wrap}
DECORATIONS = ("plain", "pass_context", "pass_eval_context", "pass_environment")
FIN_WAYS = ("environment-ctor", "overlay-adds-finalize", "template-ctor", "overlay-of-used-replaces-finalize")


def make_finalize(jinja2, decoration, transform, calls=None):
    """a finalize callable with the given calling convention (jinja2.pass_* decoration or none) and effect on strings;
    every value it is called with is appended to ``calls``"""
    tf = TRANSFORMS[transform]
    calls = calls if calls is not None else []
    if decoration == "plain":
        def fin(value):
            calls.append(value)
            return tf(value)
        return fin

    def fin2(_first, value):
        calls.append(value)
        return tf(value)
    return getattr(jinja2, decoration)(fin2)


def finalize_env(jinja2, way, opts, fin):
    """an environment with options ``opts`` and finalize ``fin``, reached in one of FIN_WAYS"""
    if way == "environment-ctor":
        return jinja2.Environment(finalize=fin, **opts)
    if way == "overlay-adds-finalize":
        return _used(jinja2.Environment(**opts)).overlay(finalize=fin)
    if way == "template-ctor":
        return jinja2.Template("", finalize=fin, **opts).environment
    if way == "overlay-of-used-replaces-finalize":
        return _used(jinja2.Environment(finalize=lambda v: v, **opts)).overlay(finalize=fin)
    raise ValueError(way)


def _used(env):
    env.from_string("a {# c #} b\n").render()
    return env


def _kind(src, single):
    return "plain" if single else ("raw" if "raw" in src else "comment")


def run_finalize(ctx, res, jinja2, plain, longs, raws):
    rng = ctx.rng("c11", "finalize")
    per = ctx.pick(48, 240)
    fixed = ["  hello\n  world  \n", " \r\n", "", "\n", "  left {# {{ no }} {% no %} #} right  ", "a<b {#- c #} 'q' & \r",
             "{% raw %}  {{ x }} {# y #} {% z %}  {% endraw %}", " t {%- raw -%} <a> {% endraw %}\n u \n"]
    defaults = ew.options()
    combos = [(d, t) for d in DECORATIONS for t in TRANSFORMS]
    st = {"evaluations": 0, "mismatches": 0, "suppressed_repeats": 0, "model_declined": 0,
          "finalize_calls_during_plain_renders": 0, "expression_probe_finalized": 0, "expression_probes": 0}
    by_deco, by_tf, by_way, by_kind, by_trim = {}, {}, {}, {}, {}
    distinct, alters, per_key, samples = set(), set(), {}, []
    n, block = 0, 0
    jobs, reqs = [], []
    for nlseq in ("\n", "\r\n", "\r"):
        for keep in (False, True):
            block += 1
            for ci, (deco, tname) in enumerate(combos):
                trim = bool((ci + block) % 2) if ctx.quick else None
                for tr in ((trim,) if trim is not None else (False, True)):
                    n += 1
                    c = lc.cfg(keep_trailing_newline=keep, trim_blocks=tr, lstrip_blocks=tr)
                    srcs = list(fixed)
                    for _ in range(per):
                        r = rng.random()
                        if r < 0.25:
                            srcs.append(rng.choice(plain))
                        elif r < 0.5:
                            srcs.append(rng.choice(longs))
                        elif r < 0.75:
                            srcs.append(rng.choice(raws))
                        else:
                            srcs.append(ew.plain_source(rng, defaults))
                    jobs.append((nlseq, keep, tr, deco, tname, FIN_WAYS[(n + block) % len(FIN_WAYS)], dict(c, newline_sequence=nlseq), srcs, len(reqs)))
                    reqs += [[Atom("lex-plain"), lc.enc_cfg(c), nlseq, s] for s in srcs]
    allreps = core.driver_batch(reqs)
    for jn, (nlseq, keep, tr, deco, tname, way, opts, srcs, r0) in enumerate(jobs):
        reps = allreps[r0:r0 + len(srcs)]
        calls = []
        env = finalize_env(jinja2, way, opts, make_finalize(jinja2, deco, tname, calls))
        # the generator is not degenerate: this finalize is in effect for expression results
        st["expression_probes"] += 1
        try:
            st["expression_probe_finalized"] += env.from_string("{{ x }}").render(x=" a<b ") == str(TRANSFORMS[tname](" a<b "))
        except Exception:  # noqa
            pass
        del calls[:]
        for s, rep in zip(srcs, reps):
            if rep[0] != "ok":
                st["model_declined"] += 1
                continue
            want, single = rep[1], rep[2]
            c0 = len(calls)
            try:
                got = env.from_string(s).render()
            except Exception as e:  # noqa
                got = f"raised:{type(e).__name__}:{e}"
            st["evaluations"] += 1
            kind = _kind(s, single)
            case = (s, nlseq, keep, tr, deco, tname)
            distinct.add(case)
            # non-trivial: passing the text through this finalize would change the output
            if want and TRANSFORMS[tname](want) != want:
                alters.add(case)
            for d, k in ((by_deco, deco), (by_tf, tname), (by_way, f"{deco}:{way}"), (by_kind, kind), (by_trim, f"trim/lstrip={tr}")):
                d[k] = d.get(k, 0) + 1
            if got != want:
                st["mismatches"] += 1
                key = f"C11:finalize:{deco}:{kind}"
                per_key[key] = per_key.get(key, 0) + 1
                if per_key[key] > 3:
                    st["suppressed_repeats"] += 1
                    continue
                res.violate(key, f"Environment with finalize (@{deco}, effect on strings: {tname}; {way}) "
                            f"newline_sequence={nlseq!r} keep_trailing_newline={keep} trim/lstrip={tr}: source {s!r} "
                            f"(no expression in it) renders {got!r}; documented {want!r}; finalize was called with "
                            f"{calls[c0:][:4]!r}",
                            {"source": s, "newline_sequence": nlseq, "keep": keep, "trim": tr, "documented": want,
                             "finalize": {"decoration": deco, "transform": tname, "way": way}})
        st["finalize_calls_during_plain_renders"] += len(calls)
        if len(samples) < 4 and jn % 29 == 3:
            samples.append({"source": srcs[-1], "finalize": f"@{deco}:{tname}", "way": way, "newline_sequence": nlseq})
    st.update({
        "distinct_nontrivial": len(alters), "distinct_cases": len(distinct), "by_decoration": by_deco, "by_transform": by_tf,
        "by_decoration_and_way": dict(sorted(by_way.items())), "by_source_kind": by_kind, "by_trim": by_trim, "violations_by_key": per_key, "samples": samples,
        "rule": (f"{len(DECORATIONS)} calling conventions (plain, @pass_context, @pass_eval_context, @pass_environment) x "
                 f"{len(TRANSFORMS)} effects on strings (strip, upper, escape, placeholder-for-empty, wrap) x 3 newline sequences "
                 "x keep_trailing_newline (x trim/lstrip; quick: alternating), the environment made by Environment(finalize=), "
                 "overlay(finalize=) of a used environment without / with another finalize, or Template(..., finalize=), in "
                 f"rotation; per environment {len(fixed)} fixed + {per} random plain sources (short exhaustive strings, long "
                 "texts, raw blocks / comments with surroundings, multi-part text+comment+raw sources); expected = the Lean "
                 "lexer model's data tokens with line breaks converted (finalize is for expression results only); a case is "
                 "non-trivial when applying the finalize's string effect to the expected output would change it"),
    })
    return st


def replay(ctx, case):
    jinja2 = core.import_jinja()
    c = case["case"]
    if "history" in c:
        return ew.replay_history(jinja2, c)
    if "finalize" in c:
        f = c["finalize"]
        cf = lc.cfg(keep_trailing_newline=c["keep"], trim_blocks=c["trim"], lstrip_blocks=c["trim"])
        opts = dict(cf, newline_sequence=c["newline_sequence"])
        calls = []
        env = finalize_env(jinja2, f["way"], opts, make_finalize(jinja2, f["decoration"], f["transform"], calls))
        rep = core.driver_batch([[Atom("lex-plain"), lc.enc_cfg(cf), c["newline_sequence"], c["source"]]])[0]
        return {"render": ew.render(env, c["source"]), "documented": rep, "finalize_called_with": [repr(v) for v in calls],
                "render_without_finalize": ew.render(jinja2.Environment(**opts), c["source"])}
    cf = lc.cfg(keep_trailing_newline=c["keep"], trim_blocks=c["trim"], lstrip_blocks=c["trim"])
    env = jinja2.Environment(**cf, newline_sequence=c["newline_sequence"])
    rep = core.driver_batch([[Atom("lex-plain"), lc.enc_cfg(cf), c["newline_sequence"], c["source"]]])[0]
    out = {"render": env.from_string(c["source"]).render(), "documented": rep}
    if c.get("way"):
        venv = dict(ew.variants(jinja2, dict(cf, newline_sequence=c["newline_sequence"])))[c["way"]]
        out["render_through_" + c["way"]] = venv.from_string(c["source"]).render()
    return out
