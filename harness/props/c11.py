"""C11 — plain text, comments and raw blocks render verbatim."""
from __future__ import annotations

import itertools

from harness import core
from harness import lexcommon as lc
from harness.core import Atom

ID = "C11"
LEAN_MODULES = ["JinjaV.Props.C11"]
LEVEL = "proof"
TRUSTED = [
    "Model/Lex.lean (hand scanners for the lexer's regular expressions), tied by differential runs (C39) and by this run",
    "rendering of a template that lexes to data/comment/raw tokens only = concatenation of its data tokens with line "
    "breaks converted (parser, compiler and str.join are exercised end-to-end, not modelled)",
]
ASSUMPTIONS = ["valid configuration (non-empty, whitespace-free delimiters)"]

ALPHA = ["a", " ", "\t", "{", "%", "#", "}", "\n", "\r"]


def run(ctx, res):
    jinja2 = core.import_jinja()
    maxlen = ctx.pick(5, 6)
    plain = ["".join(p) for n in range(maxlen + 1) for p in itertools.product(ALPHA, repeat=n)]
    rng = ctx.rng("c11")
    chars = ["a", "é", " ", "\x0b", "\x0c", "\x1c", "\x85", " ", "\t", "\n", "\r", "\r\n", "{", "}", "%", "#", "<", "-", "\x00",
             "中", "\\", "'", "{ {", "% }"]
    longs = ["".join(rng.choice(chars) for _ in range(rng.randrange(5, 60))) for _ in range(ctx.pick(1500, 15000))]
    base = lc.CONFIGS["default"]
    raws = []
    for _ in range(ctx.pick(1500, 10000)):
        c = base
        body = "".join(rng.choice(["x", " ", "\n", "{{", "}}", "{%", "%}", "{#", "#}", "raw", "endraw ", "{% end", "\r\n", "-", "é"])
                       for _ in range(rng.randrange(0, 8)))
        kind = rng.random()
        if kind < 0.5:
            src = rng.choice(["", "t ", "\n"]) + "{%" + rng.choice(["", "-", "+"]) + " raw " + rng.choice(["", "-"]) + "%}" + body \
                + "{%" + rng.choice(["", "-", "+"]) + " endraw " + rng.choice(["", "-", "+"]) + "%}" + rng.choice(["", "\n", " u"])
        else:
            src = rng.choice(["", "t ", "\n"]) + "{#" + rng.choice(["", "-", "+"]) + body.replace("#}", "# }") + rng.choice(["", "-", "+"]) + "#}" \
                + rng.choice(["", "\n", " u", "\n\n"])
        raws.append(src)
    total, distinct, mism, singles = 0, set(), 0, 0
    samples = []
    for nlseq in ("\n", "\r\n", "\r"):
        for keep in (False, True):
            for trim in ((False, True) if not ctx.quick else (False,)):
                c = lc.cfg(keep_trailing_newline=keep, trim_blocks=trim, lstrip_blocks=trim)
                env = jinja2.Environment(**c, newline_sequence=nlseq)
                srcs = (plain if (nlseq, keep) in (("\n", False), ("\r\n", True)) or not ctx.quick else plain[::7]) + longs + raws
                reps = core.driver_batch([[Atom("lex-plain"), lc.enc_cfg(c), nlseq, s] for s in srcs])
                for s, rep in zip(srcs, reps):
                    if rep[0] != "ok":
                        continue
                    want, single = rep[1], rep[2]
                    singles += bool(single)
                    try:
                        got = env.from_string(s).render()
                    except Exception as e:  # noqa
                        got = f"raised:{type(e).__name__}:{e}"
                    total += 1
                    distinct.add((s, nlseq, keep, trim))
                    if got != want:
                        mism += 1
                        kind = "plain" if single else ("raw" if "raw" in s else "comment")
                        res.violate(f"C11:{kind}:nl={nlseq!r}:keep={keep}",
                                    f"newline_sequence={nlseq!r} keep_trailing_newline={keep} trim/lstrip={trim}: source {s!r} renders {got!r}; "
                                    f"documented {want!r}", {"source": s, "newline_sequence": nlseq, "keep": keep, "trim": trim})
                if len(samples) < 3:
                    samples.append({"source": longs[0], "newline_sequence": nlseq, "keep_trailing_newline": keep})
    res.coverage.update({
        "evaluations": total,
        "distinct_nontrivial": len({d for d in distinct if d[0]}),
        "rule": (f"every string of length <= {maxlen} over {{a, space, tab, '{{', '%', '#', '}}', LF, CR}} (exhaustive; those in which "
                 "the Lean lexer model finds no start sequence, or only comments/raw blocks), random long texts with Unicode "
                 "line-break look-alikes and control characters, random raw blocks and comments with delimiter look-alikes "
                 "and signs; rendered under the 3 newline sequences x keep_trailing_newline x trim/lstrip; expected text "
                 "= data tokens of the Lean model with line breaks converted"),
        "samples": samples,
        "exhaustive": True,
        "single_data_token_cases": singles,
        "mismatches": mism,
    })


def replay(ctx, case):
    jinja2 = core.import_jinja()
    c = case["case"]
    cf = lc.cfg(keep_trailing_newline=c["keep"], trim_blocks=c["trim"], lstrip_blocks=c["trim"])
    env = jinja2.Environment(**cf, newline_sequence=c["newline_sequence"])
    rep = core.driver_batch([[Atom("lex-plain"), lc.enc_cfg(cf), c["newline_sequence"], c["source"]]])[0]
    return {"render": env.from_string(c["source"]).render(), "documented": rep}
