"""C30 — template compilation is deterministic (same generated source across compilations and across hash seeds)."""
from __future__ import annotations

import json
import os
import re
import subprocess
import sys

from harness import core
from harness.core import Atom
from harness.gen.c30_templates import ADDRESS_TEMPLATES, DISTINCT_PART_TEMPLATES, TGen, const_fold_templates
from translate import set_iter_sites as tr_sites

ID = "C30"
GEN = [tr_sites.gen]
LEAN_MODULES = ["JinjaV.Props.C30", "JinjaV.Props.C30Sites"]
LEVEL = "proof"
TRUSTED = [
    "translator translate/set_iter_sites.py: static set typing is intra-procedural plus attribute/return types over "
    "compiler.py, idtracking.py, ext.py, parser.py, nodes.py, meta.py, optimizer.py, filters.py, tests.py, utils.py; a set that reaches an iteration through "
    "an untyped parameter or another module is not seen (the hash-seed experiment is the net for those)",
    "Model/Symbols.lean is a hand transcription of idtracking.Symbols and of enter_frame/leave_frame/dump_local_context/"
    "pop_assign_tracking/pull_dependencies, tied by the L-unit/L-code correspondence of this run; the rest of the code "
    "generator (expression and statement visitors) iterates only lists and dicts per the inventory and is covered by the "
    "experiment only",
    "CPython: iterating a set yields each element once; dicts iterate in insertion order; sorted() on str is code-point order",
]
ASSUMPTIONS = ["names are identifiers (repr(name) is the name in single quotes)",
               "extensions other than the bundled ones are outside the inventory"]
# keys of the two defects this check found (both fixed in /repo: 73a6db1, df6ea54); a regression is reported under the same key
KNOWN_KEY = "C30:set-iteration:ext.i18n.parse:referenced"
ADDRESS_KEY = "C30:folded-object-address"
CLAIM = dict(
    category="proof",
    technique="Lean 4 proof that the model of idtracking.Symbols and of the symbol-emitting part of the code generator is "
              "independent of set iteration order (arbitrary permutation chooser per iteration) + source-derived inventory of "
              "every set iteration in the compile path checked by decide + differential runs of the model against the real "
              "Symbols/CodeGenerator + the property's own experiment under different PYTHONHASHSEED values",
    text="Theorems (Props/C30.lean): for all symbol programs (declare_parameter/store/load and nested if-branches with "
         "branch_update), all parent chains and any two choosers that return arbitrary permutations independently at every "
         "iteration, the analysed Symbols are equal (analyze_order_independent; branch_update_order_independent rests on the "
         "invariant symbols_invariant and on branchUpdate_targets_exist: every write of the unsorted loop goes to an existing "
         "key of the ordered loads dict); dump_local_context, pop_assign_tracking (unsorted comprehension, next(iter()), "
         "sorted loop) and pull_dependencies emit the same lines (dump_stores/pop_assign/pull_deps_order_independent); hence "
         "cg_order_independent for whole frame trees. Props/C30Sites.lean: set_sites_covered — every iteration over a "
         "statically set-typed expression in compiler/idtracking/ext/parser/nodes/meta/optimizer and in filters/tests/utils (filters "
         "and tests run at compile time under constant folding) (read from the source on "
         "every run) is sorted, structurally order-insensitive, or one of two allow-listed sites (the modelled "
         "branch_update loop and the lookup-only parser tag table); a new unsorted iteration breaks the proof (the former "
         "set iteration in ext.i18n.parse, fixed by 73a6db1, would reappear as an uncovered site). Tie: random symbol programs on the real Symbols (refs/loads ordered, stores as sets) and frame "
         "programs on the real CodeGenerator vs the model; every generated template (tuple unpacking, branch stores, loops, "
         "imports, macros with caller/varargs/kwargs, filters/tests, namespaces, blocks, call blocks, trans blocks) and every "
         "registered filter and test applied to 12 constant operands with its argument combinations (folded at compile time) compiled "
         "raw under 8/16 hash seeds in subprocesses and twice in one process, in six environment configurations.",
    note="Trusted: Lean kernel; translator's set typing (intra-procedural); hand model tied by correspondence; the "
         "expression/statement visitors of the generator are covered by the inventory and the experiment, not by the model. "
         "Two defects found by this check are fixed in /repo (73a6db1 trans variable order, df6ea54 folded object text); their "
         "template families stay in the experiment as regression probes.",
    design_ref="§5 C30",
)

POOL = ["a", "b", "c", "_p", "loop", "x1", "self", "q"]
FPOOL = ["upper", "e", "lower", "trim", "x_f", "abs"]
TPOOL = ["odd", "even", "defined", "x_t"]


# ----------------------------------------------------------------------------------------------------------------
# L-unit / L-code: the model against the real Symbols and CodeGenerator
# ----------------------------------------------------------------------------------------------------------------

def gen_prog(rng, depth, size):
    out = []
    for _ in range(rng.randrange(size + 1)):
        c = rng.randrange(10)
        n = rng.choice(POOL)
        if c < 2:
            out.append(["param", n])
        elif c < 6:
            out.append(["store", n])
        elif c < 8 or depth == 0:
            out.append(["load", n])
        else:
            out.append(["branch", gen_prog(rng, depth - 1, 3), gen_prog(rng, depth - 1, 2), gen_prog(rng, depth - 1, 3)])
    return out


def prog_sx(p):
    return [[Atom(op[0])] + ([op[1]] if op[0] != "branch" else [prog_sx(b) for b in op[1:]]) for op in p]


def prog_names(p, out=None):
    out = set() if out is None else out
    for op in p:
        if op[0] == "branch":
            for b in op[1:]:
                prog_names(b, out)
        else:
            out.add(op[1])
    return out


def branch_stats(p, st):
    for op in p:
        if op[0] == "branch":
            st["branches"] += 1
            stored = set()
            for b in op[1:]:
                stored |= {o[1] for o in b if o[0] in ("store", "param")}
                branch_stats(b, st)
            if len(stored) >= 2:
                st["branches_multi_store"] += 1
        else:
            st[op[0]] += 1


def run_prog(sym, p):
    for op in p:
        if op[0] == "param":
            sym.declare_parameter(op[1])
        elif op[0] == "store":
            sym.store(op[1])
        elif op[0] == "load":
            sym.load(op[1])
        else:  # FrameSymbolVisitor.visit_If
            copies = []
            for b in op[1:]:
                c = sym.copy()
                run_prog(c, b)
                copies.append(c)
            sym.branch_update(copies)


def chooser(rng):
    c = rng.randrange(5)
    return [[Atom("id")], [Atom("rev")], [Atom("sort")], [Atom("sortrev")], [Atom("mix"), rng.randrange(50)]][c]


def lines_of(gen):
    v = gen.stream.getvalue()
    return v.split("\n") if v else []


def real_chain(jinja2, progs):
    from jinja2.compiler import CodeGenerator, Frame
    from jinja2.nodes import EvalContext

    env = jinja2.Environment()
    ectx = EvalContext(env, "t")
    out, frame = [], None
    for p in progs:
        frame = Frame(ectx, frame)
        run_prog(frame.symbols, p)
        s = frame.symbols
        g1 = CodeGenerator(env, "t", "t")
        g1.enter_frame(frame)
        g2 = CodeGenerator(env, "t", "t")
        g2.leave_frame(frame)
        g3 = CodeGenerator(env, "t", "t")
        loads = [[k, v[0], "none" if v[1] is None else v[1]] for k, v in s.loads.items()]
        out.append([[[k, v] for k, v in s.refs.items()], loads, sorted(s.stores), sorted(s.dump_param_targets()),
                    lines_of(g1), lines_of(g2), g3.dump_local_context(frame)])
    return out


def canon(o):
    if isinstance(o, (list, tuple)):
        return [canon(x) for x in o]
    return str(o)


def gen_code(rng, depth, known):
    out = []
    for _ in range(rng.randrange(1, 5)):
        c = rng.randrange(10)
        if c < 2:
            out.append(["derive"])
        elif c < 5 and known:
            ks = sorted(known)
            out.append(["assign"] + [rng.choice(ks) for _ in range(rng.randrange(0, 5))])
        elif c < 7:
            out.append(["deps", [rng.choice(FPOOL) for _ in range(rng.randrange(0, 4))],
                        [rng.choice(TPOOL) for _ in range(rng.randrange(0, 3))]])
        elif depth > 0:
            fl = [rng.random() < 0.4, rng.random() < 0.3, rng.random() < 0.3, rng.random() < 0.5]
            p = gen_prog(rng, 2, 5)
            out.append(["frame", fl, p, gen_code(rng, depth - 1, known | prog_names(p))])
    return out


def code_sx(code):
    out = []
    for a in code:
        if a[0] == "derive":
            out.append([Atom("derive")])
        elif a[0] == "assign":
            out.append([Atom("assign")] + a[1:])
        elif a[0] == "deps":
            out.append([Atom("deps"), a[1], a[2]])
        else:
            out.append([Atom("frame"), a[1], prog_sx(a[2]), code_sx(a[3])])
    return out


def real_cg(jinja2, flags, prog, code):
    from jinja2 import nodes
    from jinja2.compiler import CodeGenerator, Frame
    from jinja2.nodes import EvalContext

    env = jinja2.Environment()
    ectx = EvalContext(env, "t")
    gen = CodeGenerator(env, "t", "t")

    def set_flags(frame, fl):
        frame.loop_frame, frame.block_frame, frame.toplevel = fl[0], fl[1], fl[2]

    def body(frame, code):
        for a in code:
            if a[0] == "derive":
                gen.writeline(gen.derive_context(frame))
            elif a[0] == "assign":
                gen.push_assign_tracking()
                for n in a[1:]:
                    gen._assign_stack[-1].add(n)
                gen.pop_assign_tracking(frame)
            elif a[0] == "deps":
                c = nodes.Const(1)
                ns = [nodes.Filter(c, f, [], [], None, None) for f in a[1]] + [nodes.Test(c, t, [], [], None, None) for t in a[2]]
                gen.pull_dependencies([nodes.Output(ns)])
            else:
                child = frame.inner()
                set_flags(child, a[1])
                run_prog(child.symbols, a[2])
                gen.enter_frame(child)
                body(child, a[3])
                gen.leave_frame(child, with_python_scope=a[1][3])

    root = Frame(ectx)
    set_flags(root, flags)
    run_prog(root.symbols, prog)
    gen.enter_frame(root)
    body(root, code)
    gen.leave_frame(root, with_python_scope=flags[3])
    return lines_of(gen)


def run_model_tie(ctx, res, jinja2, cov):
    rng = ctx.rng("unit")
    n_sym = ctx.pick(250, 2500)
    n_cg = ctx.pick(150, 1500)
    reqs, meta = [], []
    stats = {"param": 0, "store": 0, "load": 0, "branches": 0, "branches_multi_store": 0}
    for i in range(n_sym):
        progs = [gen_prog(rng, 2, 6) for _ in range(rng.randrange(1, 4))]
        for p in progs:
            branch_stats(p, stats)
        reqs.append([Atom("c30-sym"), chooser(rng), [prog_sx(p) for p in progs]])
        meta.append(("sym", progs))
    for i in range(n_cg):
        fl = [False, rng.random() < 0.2, rng.random() < 0.7, rng.random() < 0.7]
        p = gen_prog(rng, 2, 6)
        code = gen_code(rng, 2, prog_names(p))
        branch_stats(p, stats)
        reqs.append([Atom("c30-cg"), chooser(rng), fl, prog_sx(p), code_sx(code)])
        meta.append(("cg", (fl, p, code)))
    replies = core.driver_batch(reqs)
    distinct, mism = set(), 0
    for (kind, case), req, rep in zip(meta, reqs, replies):
        if not (isinstance(rep, list) and rep and rep[0] == "ok"):
            raise core.HarnessError(f"driver reply {rep!r} for {core.sx(req)[:200]}")
        model = canon(rep[1])
        real = canon(real_chain(jinja2, case)) if kind == "sym" else canon(real_cg(jinja2, *case))
        distinct.add(json.dumps(case))
        if model != real:
            mism += 1
            diff = next((i for i, (a, b) in enumerate(zip(model, real)) if a != b), min(len(model), len(real)))
            res.violate(f"C30:model-drift:{kind}",
                        f"Lean model and real {'Symbols' if kind == 'sym' else 'CodeGenerator'} differ at position {diff}: "
                        f"model {model[diff] if diff < len(model) else None!r} real {real[diff] if diff < len(real) else None!r}; "
                        "the order-independence theorems are about the model only",
                        {"layer": "L-unit" if kind == "sym" else "L-code", "case": case, "request": core.sx(req)}, no_input=True)
    cov["model_tie"] = {"symbol_chains": n_sym, "frame_programs": n_cg, "ops": stats, "mismatches": mism,
                        "distinct": len(distinct)}
    return n_sym + n_cg, len(distinct)


# ----------------------------------------------------------------------------------------------------------------
# the property's own experiment: compile under several hash seeds
# ----------------------------------------------------------------------------------------------------------------

CONFIGS = ["plain", "auto", "async", "i18n-new", "i18n-old", "ext"]

WORKER = r'''
import sys, json
sys.dont_write_bytecode = True
sys.path.insert(0, sys.argv[1])
import jinja2
from jinja2 import nodes
from jinja2.ext import Extension
assert jinja2.__file__.startswith(sys.argv[1]), jinja2.__file__

class MultiTag(Extension):
    tags = {"tagone", "tagtwo", "tagthree", "tagfour", "tagfive"}
    def parse(self, parser):
        tok = next(parser.stream)
        return nodes.Output([nodes.Const("<" + tok.value + ">")]).set_lineno(tok.lineno)

class SortedI18n(jinja2.ext.InternationalizationExtension):
    """attribution aid: the ONLY change is that `variables` reaches _make_node in sorted order, i.e. any dependence on the
    order in which InternationalizationExtension.parse registers the free names of the body is neutralised"""
    def _make_node(self, singular, plural, context, variables, *a, **kw):
        return super()._make_node(singular, plural, context, dict(sorted(variables.items())), *a, **kw)

def make(cfg, alt=False):
    if alt:
        e = jinja2.Environment(extensions=[SortedI18n])
        e.install_null_translations(newstyle=cfg == "i18n-new")
        return e
    if cfg == "plain":
        return jinja2.Environment()
    if cfg == "auto":
        return jinja2.Environment(autoescape=True)
    if cfg == "async":
        return jinja2.Environment(enable_async=True)
    if cfg in ("i18n-new", "i18n-old"):
        e = jinja2.Environment(extensions=["jinja2.ext.i18n"])
        e.install_null_translations(newstyle=cfg == "i18n-new")
        return e
    if cfg == "ext":
        return jinja2.Environment(extensions=["jinja2.ext.do", "jinja2.ext.loopcontrols", MultiTag])
    raise SystemExit("cfg " + cfg)

def comp(env, src):
    try:
        return env.compile(src, "t.html", "t.html", raw=True)
    except jinja2.TemplateError as e:
        return "ERR:" + type(e).__name__ + ":" + str(e)
    except RecursionError:
        return "ERR:RecursionError"

import os
MODE = os.environ.get("JV_C30_MODE", "")

def render_quietly(env, src):
    """history: run the template too (filters/tests that are not folded execute now); outcomes are irrelevant here"""
    try:
        t = env.from_string(src)
        if env.is_async:
            import asyncio
            asyncio.run(t.render_async())
        else:
            t.render()
    except Exception:
        pass

payload = json.load(sys.stdin)
if MODE == "culprit":
    # which template of the pool changes what compiling the victim gives?  compile victim, then pool members one by one
    v, pool = payload["victim"], payload["pool"]
    base = comp(make(v["cfg"]), v["src"])
    found = None
    for k, it in enumerate(pool):
        env = make(it["cfg"])
        comp(env, it["src"])
        render_quietly(env, it["src"])
        now = comp(make(v["cfg"]), v["src"])
        if now != base:
            found = {"index": k, "item": it, "before": base, "after": now}
            break
    json.dump(found, sys.stdout)
    raise SystemExit(0)

items = payload
order = list(range(len(items)))
if MODE == "history-rev":
    order.reverse()
envs, out = {}, [None] * len(items)
for i in order:
    it = items[i]
    env = envs.get(it["cfg"]) or envs.setdefault(it["cfg"], make(it["cfg"]))
    a = comp(env, it["src"])
    if it.get("once") or MODE:      # constant-folding family / history workers: one compile in the first pass
        out[i] = {"src": a, "b": None, "c": None, "alt": None}
        continue
    b = comp(env, it["src"])
    c = comp(make(it["cfg"]), it["src"])
    alt = None
    if it["cfg"].startswith("i18n"):
        try:
            alt = comp(make(it["cfg"], alt=True), it["src"])
        except Exception:
            alt = None
    out[i] = {"src": a, "b": None if a == b else b, "c": None if a == c else c, "alt": alt}
if MODE:
    # history: everything has been compiled once; now RUN the small constant-operand templates (every registered filter and
    # test with its optional arguments executes at least here), then compile every template again, in the environment that
    # has seen everything and in a brand-new Environment: the generated source must not have changed
    for i in order:
        if items[i].get("once") or len(items[i]["src"]) < 400:
            render_quietly(envs[items[i]["cfg"]], items[i]["src"])
    for i in order:
        it = items[i]
        same = comp(envs[it["cfg"]], it["src"])
        # a fresh Environment for the small templates (the constant-operand family and the fixed shapes); the large random ones
        # are covered by the environment that has seen everything
        fresh = comp(make(it["cfg"]), it["src"]) if (it.get("once") or len(it["src"]) < 400) else out[i]["src"]
        out[i]["h_same"] = None if same == out[i]["src"] else same
        out[i]["h_fresh"] = None if fresh == out[i]["src"] else fresh
json.dump(out, sys.stdout)
'''


def run_workers(jobs, parallel=4):
    """jobs: list of dict(key, seed, mode, payload); one worker process each, `parallel` at a time; returns key -> result"""
    out = {}
    todo = list(jobs)
    while todo:
        group, todo = todo[:parallel], todo[parallel:]
        procs = []
        for job in group:
            env = dict(os.environ)
            env["PYTHONHASHSEED"] = str(job["seed"])
            env["JV_C30_MODE"] = job.get("mode", "")
            env.pop("PYTHONPATH", None)
            p = subprocess.Popen([sys.executable, "-B", "-c", WORKER, str(core.REPO / "src")], stdin=subprocess.PIPE,
                                 stdout=subprocess.PIPE, stderr=subprocess.PIPE, text=True, env=env)
            procs.append((job, p))
        # feed and drain one after the other; the workers compute concurrently once they have their input
        for job, p in procs:
            p.stdin.write(job["payload"])
            p.stdin.close()
        for job, p in procs:
            so = p.stdout.read()
            se = p.stderr.read()
            if p.wait(timeout=1800) != 0:
                raise core.HarnessError(f"compile worker (PYTHONHASHSEED={job['seed']}, mode {job.get('mode')!r}) failed: {se[-1500:]}")
            out[job["key"]] = json.loads(so)
    return out


def compile_batches(items, seeds, parallel=4, history_seed=None):
    """one worker process per hash seed (all templates in one batch); with `history_seed` two more workers under that seed
    that compile the batch in order / in reverse order, run the small templates, and compile everything again"""
    payload = json.dumps(items)
    jobs = [dict(key=s, seed=s, mode="", payload=payload) for s in seeds]
    if history_seed is not None:
        jobs = [dict(key="history", seed=history_seed, mode="history", payload=payload),
                dict(key="history-rev", seed=history_seed, mode="history-rev", payload=payload)] + jobs
    return run_workers(jobs, parallel)


def compile_batch(items, seed):
    return compile_batches(items, [seed])[seed]


_ADDR = re.compile(r"0[xX][0-9a-fA-F]{6,}")


def no_addr(src):
    return _ADDR.sub("0xADDR", src)


def first_diff(a, b):
    la, lb = a.split("\n"), b.split("\n")
    for i, (x, y) in enumerate(zip(la, lb)):
        if x != y:
            return i + 1, x.strip()[:200], y.strip()[:200]
    return min(len(la), len(lb)) + 1, "<end>", "<end>"


def gen_items(ctx, n):
    rng = ctx.rng("templates")
    items, hits = [], {}
    for i in range(n):
        cfg = CONFIGS[i % len(CONFIGS)]
        g = TGen(rng, i18n=cfg.startswith("i18n"), ext=cfg == "ext", depth=rng.choice([2, 3, 3, 4]))
        src = g.template()
        if cfg == "ext":
            src += "".join("{%% %s %%}" % t for t in rng.sample(["tagone", "tagtwo", "tagthree", "tagfour", "tagfive"], 2))
        for k, v in g.hit.items():
            hits[k] = hits.get(k, 0) + v
        items.append({"cfg": cfg, "src": src, "family": "grammar"})
    # fixed members of the two families in which this check found defects (fixed in /repo): regression probes
    items.append({"cfg": "i18n-old", "family": "grammar",
                  "src": "{% trans %}{{ alpha }} {{ beta }} {{ gamma }} {{ delta }} {{ eps }}{% endtrans %}"})
    items.append({"cfg": "i18n-new", "family": "grammar",
                  "src": "{% trans n=items|length %}{{ alpha }} {{ beta }} {{ n }}{% pluralize %}{{ gamma }} {{ delta }} {{ zeta }}{% endtrans %}"})
    items.append({"cfg": "plain", "family": "grammar",
                  "src": "{% if a %}{% set alpha, beta, gamma = 1, 2, 3 %}{% elif b %}{% set delta = 1 %}{% set eps = 2 %}"
                         "{% else %}{% set zeta, eta = 1, 2 %}{% endif %}{{ alpha|upper|trim|e }}{{ beta is odd }}"
                         "{% from 'lib' import phi, chi as _psi, omega %}"})
    # one template per construct with distinct fresh names in every part, in a nested frame and at top level (fixed shapes:
    # the order of the visit of args / defaults / iter / test / body / else pins the order of the resolve lines)
    for j, src in enumerate(DISTINCT_PART_TEMPLATES):
        items.append({"cfg": ["plain", "async", "auto"][j % 3], "src": src, "family": "grammar"})
        items.append({"cfg": "plain", "src": "{% macro outer() %}" + src + "{% endmacro %}", "family": "grammar"})
    for j, src in enumerate(ADDRESS_TEMPLATES):
        items.append({"cfg": ["plain", "auto", "async"][j % 3], "src": src, "family": "address"})
    # every registered filter / test on constant operands (folded at compile time): exhaustive over the registry, both tiers
    from jinja2.filters import FILTERS
    from jinja2.tests import TESTS
    folds = const_fold_templates(FILTERS, TESTS)
    for j, (kind, name, src) in enumerate(folds):
        for cfg in (("plain", "auto")[j % 2],) if ctx.quick else ("plain", "auto"):
            items.append({"cfg": cfg, "src": src, "family": f"constfold:{kind}:{name}", "once": True})
    hits["const-fold-templates"] = len(folds) * (1 if ctx.quick else 2)
    return items, hits


def classify(it, a, b, alt_equal):
    """which finding explains that sources a and b of one template differ; None = not explained"""
    if it["family"] == "address" and no_addr(a) == no_addr(b):
        return ADDRESS_KEY
    if it["cfg"].startswith("i18n") and alt_equal:
        return KNOWN_KEY
    if it["family"].startswith("constfold:"):
        return "C30:folded-constant:" + it["family"].split(":", 1)[1]
    return None


def run_experiment(ctx, res, cov, boost):
    rng = ctx.rng("seeds")
    nseeds = ctx.pick(8, 16)
    ntempl = ctx.pick(100, 900) * boost
    seeds = [0] + sorted(rng.sample(range(1, 2 ** 32 - 1), nseeds - 1))
    items, hits = gen_items(ctx, ntempl)
    results = compile_batches(items, seeds, parallel=10, history_seed=seeds[0])
    hist = {k: results.pop(k) for k in ("history", "history-rev")}
    base = results[seeds[0]]
    differing, errors, explained = 0, 0, {}

    def report(key, it, what, replay):
        if key is not None:
            explained[key] = explained.get(key, 0) + 1
        if key == KNOWN_KEY:
            res.violate(key, "{% trans %} block: " + what + "; the difference disappears when `variables` reaches _make_node in "
                             "sorted order: InternationalizationExtension.parse registers the free names of the body in a hash-seed "
                             "dependent order again (regression of 73a6db1)", replay)
        elif key == ADDRESS_KEY:
            res.violate(key, what + "; the sources are equal once hexadecimal object addresses are masked: the optimizer folded a "
                             "constant expression through a generator / bound method whose str() holds its memory address "
                             "(regression of df6ea54, nodes._const_result)", replay)
        elif key is not None and key.startswith("C30:folded-constant:"):
            res.violate(key, what + f"; the {key.split(':')[2]} `{key.split(':')[3]}` applied to a constant operand is folded at compile "
                             "time and its result is not a function of its arguments alone", replay)
        else:
            res.violate(f"C30:hash-seed-difference:{it['cfg']}" if replay["seeds"][0] != replay["seeds"][1]
                        else f"C30:same-process-difference:{it['cfg']}", what, replay)

    # shortest templates first: a key is reported once, with the smallest template that shows it
    for i in sorted(range(len(items)), key=lambda k: len(items[k]["src"])):
        it = items[i]
        if base[i]["src"].startswith("ERR:"):
            errors += 1
        alts = {results[s][i]["alt"] for s in seeds}
        alt_equal = len(alts) == 1 and None not in alts
        for s in seeds:
            r = results[s][i]
            for other in (r["b"], r["c"]):
                if other is not None:
                    ln, xa, xb = first_diff(r["src"], other)
                    report(classify(it, r["src"], other, False), it,
                           f"compiling the same template twice in one process (PYTHONHASHSEED={s}, config {it['cfg']}) gives "
                           f"different generated source at line {ln}: {xa[:100]!r} vs {xb[:100]!r}",
                           {"template": it["src"], "config": it["cfg"], "seeds": [s, s], "first_difference_line": ln})
        other = next((s for s in seeds[1:] if results[s][i]["src"] != base[i]["src"]), None)
        if other is None:
            continue
        differing += 1
        a, b = base[i]["src"], results[other][i]["src"]
        ln, xa, xb = first_diff(a, b)
        report(classify(it, a, b, alt_equal), it,
               f"generated source differs between PYTHONHASHSEED={seeds[0]} and {other} (config {it['cfg']}) at line {ln}: "
               f"{xa[:100]!r} vs {xb[:100]!r}",
               {"template": it["src"], "config": it["cfg"], "seeds": [seeds[0], other], "first_difference_line": ln,
                "line_a": xa, "line_b": xb})
    hist_found = history_check(res, items, seeds[0], base, hist)
    cov["history"] = {"workers": 2, "templates_recompiled": 2 * 2 * len(items), "templates_whose_source_depends_on_history": hist_found,
                      "rule": "same hash seed as the base worker; worker 1 compiles the batch in order, worker 2 in reverse order; "
                              "both then render the small templates and compile every template again in the same environment and "
                              "in a fresh Environment; all four sources and the base worker's must be equal"}
    cov["experiment"] = {"templates": len(items), "hash_seeds": seeds, "configs": CONFIGS,
                         "compilations": len(items) * len(seeds) * 3,
                         "templates_failing_to_compile": errors, "templates_differing_across_seeds": differing,
                         "differences_explained_by_known_findings": explained, "feature_hits": hits,
                         "mean_source_lines": round(sum(b["src"].count("\n") for b in base) / max(1, len(base)), 1)}
    return items, len(items) * len(seeds)


def history_check(res, items, seed, base, hist):
    """compile determinism across HISTORY in one process (same hash seed throughout)"""
    found = 0
    culprit_done = False
    for i in sorted(range(len(items)), key=lambda k: len(items[k]["src"])):
        it = items[i]
        variants = [("compiled first in a worker that takes the batch in order", base[i]["src"])]
        for mode in ("history", "history-rev"):
            r = hist[mode][i]
            how = "in order" if mode == "history" else "in reverse order"
            variants.append((f"first compile in a process that takes the batch {how}", r["src"]))
            if r["h_same"] is not None:
                variants.append((f"compiled again in the same environment after the whole batch ({how}) was compiled and run", r["h_same"]))
            if r["h_fresh"] is not None:
                variants.append((f"compiled in a fresh Environment after the whole batch ({how}) was compiled and run", r["h_fresh"]))
        other = next((v for v in variants[1:] if v[1] != variants[0][1]), None)
        if other is None:
            continue
        if it["family"] == "address" and no_addr(other[1]) == no_addr(variants[0][1]):
            res.violate(ADDRESS_KEY, "folded object address (regression of df6ea54): " + it["src"], {"template": it["src"], "config": it["cfg"], "seeds": [seed, seed]})
            continue
        found += 1
        tag = it["family"].split(":", 1)[1] if it["family"].startswith("constfold:") else it["cfg"]
        ln, xa, xb = first_diff(variants[0][1], other[1])
        replay = {"template": it["src"], "config": it["cfg"], "seeds": [seed, seed], "history": other[0],
                  "first_difference_line": ln, "line_a": xa, "line_b": xb}
        if not culprit_done:
            culprit_done = True
            try:
                c = run_workers([dict(key="c", seed=seed, mode="culprit",
                                      payload=json.dumps({"victim": it, "pool": [x for x in items if x is not it]}))])["c"]
            except core.HarnessError:
                c = None
            if c:
                replay["culprit"] = {"template": c["item"]["src"], "config": c["item"]["cfg"]}
        res.violate(f"C30:history-dependence:{tag}",
                    f"the generated source of a template depends on what the process compiled / rendered before (PYTHONHASHSEED={seed} "
                    f"throughout, config {it['cfg']}): {other[0]} it differs at line {ln}: {xa[:110]!r} vs {xb[:110]!r}"
                    + (f"; first template of the batch after which it changes: {replay['culprit']['template'][:160]!r}" if "culprit" in replay else ""),
                    replay)
    return found


def run(ctx, res):
    jinja2 = core.import_jinja()
    cov = {}
    ev1, d1 = run_model_tie(ctx, res, jinja2, cov)
    broken = bool(ctx.proof_broken or ctx.tie_broken)
    if broken:
        # a new / changed set iteration site: name it, and search harder for a template on which it shows
        try:
            sites, _ = tr_sites.analyse()
            res.notes.append("order-sensitive set-iteration sites now: " + "; ".join(
                f"{s['file']}:{s['line']} {s['func']} {s['kind']} {s['expr']}" for s in sites if not (s["sorted"] or s["insensitive"])))
        except Exception as e:  # noqa
            res.notes.append(f"translator: {type(e).__name__}: {e}")
    items, ev3 = run_experiment(ctx, res, cov, 3 if broken else 1)
    distinct_templates = len({(i["cfg"], i["src"]) for i in items})
    res.coverage.update({
        "evaluations": ev1 + ev3,
        "distinct_nontrivial": d1 + distinct_templates,
        "rule": "L-unit: random chains of 1-3 frames, each a random program over 8 names of declare_parameter/store/load and "
                "nested if-branches (three copies + branch_update), real Symbols vs Lean model (refs, loads in dict order; stores, "
                "param targets sorted; enter_frame/leave_frame/dump_local_context text). L-code: random frame trees (derive, "
                "assignment tracking with 0-4 names, pull_dependencies, nested frames with loop/block/toplevel flags) interpreted "
                "on the real CodeGenerator vs the model's lines. Experiment: grammar-generated templates (30 names, 35+17 "
                "filters, 28 tests) in 6 environment configurations, each compiled raw under every hash seed in a subprocess "
                "(one subprocess per seed), twice in the same environment and once in a fresh one; non-trivial = distinct "
                "template; plus 9 fixed constant expressions of the folded-address family, fixed many-variable trans blocks, and one "
                "template per (registered filter, argument combination) and per registered test over 12 constant operands",
        "samples": [items[0], items[1], items[-1]],
        **cov,
    })


def replay(ctx, case):
    c = case.get("case", case)
    if "template" not in c:
        return c
    if "history" in c:
        v = {"cfg": c["config"], "src": c["template"], "family": "x"}
        if "culprit" in c:
            pool = [{"cfg": c["culprit"]["config"], "src": c["culprit"]["template"], "family": "x"}]
        else:
            pool = [x for x in gen_items(ctx, ctx.pick(100, 900))[0] if x["src"] != c["template"]]
        r = run_workers([dict(key="c", seed=c["seeds"][0], mode="culprit", payload=json.dumps({"victim": v, "pool": pool}))])["c"]
        if not r:
            return {"template": c["template"], "history_dependent": False}
        ln, xa, xb = first_diff(r["before"], r["after"])
        return {"template": c["template"], "config": c["config"], "history_dependent": True,
                "after_compiling_and_rendering": r["item"]["src"], "first_difference_line": ln, "before": xa, "after": xb}
    item = [{"cfg": c["config"], "src": c["template"]}]
    s1, s2 = c["seeds"]
    a, b = compile_batch(item, s1)[0], compile_batch(item, s2)[0]
    ln, xa, xb = first_diff(a["src"], b["src"])
    return {"template": c["template"], "config": c["config"], "seeds": [s1, s2], "sources_equal": a["src"] == b["src"],
            "same_process_equal": [a["b"] is None and a["c"] is None, b["b"] is None and b["c"] is None],
            "first_difference_line": None if a["src"] == b["src"] else ln, "line_a": xa, "line_b": xb}
