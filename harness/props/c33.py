"""C33 — translation blocks render like their source text and are fully extractable.

Lean: Model/I18n.lean (transcription of ext.py: _parse_block, _trim_whitespace, parse, _make_node, new-style gettext
wrappers, extract_from_ast), Spec/I18n.lean (the oracle: source text, trimmed at source-symbol level, form chosen by
the count, variables substituted), Props/C33.lean (theorems).  This runner ties the model to /repo:
  L-unit  Environment.parse → the Call/Mod node the extension builds  vs  parseTrans
          ext._trim_whitespace vs trimWhitespace;  Python's `str % dict` vs pyPercentFormat
  L-e2e   render with recording identity / marking translations, both gettext styles, autoescape on/off, trimmed policy
          on/off: output vs model vs Spec oracle; recorded gettext call vs model
  extract extract_from_ast / babel_extract vs extractFromAst; every recorded message covered (Spec predicate in Lean)
"""
from __future__ import annotations

import io
import itertools

from harness import core
from harness.core import Atom

ID = "C33"
LEAN_MODULES = ["JinjaV.Props.C33"]
LEVEL = "proof"
TRUSTED = [
    "Model/I18n.lean is a hand transcription of ext.py (_parse_block, _trim_whitespace, InternationalizationExtension.parse, "
    "_make_node, _make_new_*gettext, extract_from_ast), tied by this correspondence run only",
    "CPython `str % mapping` is modelled for the directives %(name)s and %% only (pyPercentFormat); everything else is "
    "declined; validated against the real operator on generated format strings",
    "markupsafe: Markup % mapping escapes non-markup values (Val.show); escape() table of 5 characters",
    "Py_UNICODE_ISSPACE table pyWs (str.strip, re \\s) is measured, validated over all code points < 0x3100 each run",
    "the compiler evaluates a Call with Const arguments by passing exactly those constants (checked end to end by the "
    "recording translations); the lexer delivers block text as data tokens unchanged (no \\r, no whitespace control in "
    "generated sources)",
    "babel_extract's re-lexing, option parsing and comment collection: correspondence only",
]
ASSUMPTIONS = [
    "variable names are identifiers without parentheses, not _trans (parameter names of the new-style wrappers such as "
    "__string are probed too since b0352aa made them positional-only)",
    "values are str, Markup, int or undefined; ngettext is the identity choice n == 1",
    "extraction and rendering use the same newstyle_gettext / ext.i18n.trimmed settings (the property's 'same options')",
]
CLAIM = dict(
    category="proof",
    technique="Lean 4 proof over a transcription of the i18n extension (percent-format round trip, plural choice, trimming "
              "characterisation, extraction completeness) + AST-level, unit and end-to-end correspondence with recording "
              "translations in both gettext styles",
    text="Theorems (Props/C33.lean): for every trans block that parses (any header, context string, pluralize, trimmed flag or "
         "policy), every assignment of values and both autoescape modes, formatting the message built by _parse_block/_make_node "
         "under the identity translation yields exactly the block's source text with variables substituted (escaped unless "
         "markup), with the singular form iff the count variable == 1 (trans_format_roundtrip, plural_choice, "
         "render_eq_expected incl. trimming: trimming the %-message equals trimming the source symbols); new style and old style "
         "agree (styles_agree); old style without variables un-doubles statically (oldstyle_static_undouble); trimming is "
         "idempotent, leaves no outer whitespace and no line break, keeps non-whitespace, maps exactly the runs with a line "
         "break to one space (trimmed_spec_*); context routes to pgettext/npgettext (context_routing); only variable values are "
         "escaped (autoescape_vars); %(num)s always resolves under new style (num_injected); every call a gettext "
         "callable receives is covered by extract_from_ast's output for the same node list and options (extraction_complete). "
         "The formerly failing shape — old style, variables declared in the tag but none referenced, '%' in the text (fixed in "
         "/repo by a1dc827) — is covered by the full-strength statement (declared_unreferenced_percent_renders_source) and "
         "probed on every run. Tie: the "
         "AST built by Environment.parse, _trim_whitespace, Python's % operator, rendered output and recorded calls in 16 "
         "configurations, extract_from_ast and babel_extract are compared with the model on enumerated shapes and random blocks.",
    note="Trusted: Lean kernel; hand model (tied by correspondence only); Python %-formatting subset, markupsafe, "
         "Py_UNICODE_ISSPACE table; compiler/lexer reached end to end only; babel_extract option handling by correspondence. "
         "Two defects found by this check were fixed in /repo (a1dc827, b0352aa); their shapes stay in the generators.",
    design_ref="§5 C33",
)

KNOWN_KEY = "C33:oldstyle:declared-unreferenced-vars:percent"
RESERVED_KEY = "C33:newstyle:reserved-kwarg-name"

NAMES = ["a", "b", "n", "num", "count", "user", "x1", "_u", "context", "trimmed", "notrimmed", "name", "größe", "s"]
DATA_ATOMS = [
    "%", "%%", "%(", "%(a)s", "%(num)s", "%s", "%d", " 100% ", "%)", "{", "}", "}}", "%}", "{ %", "<b>", "</b>", "&", "&amp;", "\"", "'",
    "\n", "\n\n", " \n ", "\t", "  ", " ", " ", " ", "\x0c", "\x1c", "\n\t\n", "é", "☃", "\U0001f600", "中文",
    "Hello", "apple", "apples", "x", "y z", ".", ",", "-", "+", "#", "(", ")", "s", "()s", "0", "1", "\\", "${", "\u0085", " ",
]
CTX_STRINGS = ["c", "menu", "100%", "<ctx>", "a b", "été"]
STR_VALUES = ["", "v", "<i>", "a&b", "%", "%(a)s", "%%", "50%", "x y", "\n", "é", "'q'", "\"", "1", " pad "]
INT_VALUES = [0, 1, 2, 2, 1, 0, -1, 10, 7]


def clean_data(t: str) -> str:
    """keep generated literal text free of tag starts (so that the lexer yields it as one data token)"""
    while True:
        u = t.replace("{{", "{ {").replace("{%", "{ %").replace("{#", "{ #")
        if u == t:
            break
        t = u
    if t.endswith("{"):
        t += "."
    return t


def gen_text(rng, maxatoms=5):
    return clean_data("".join(rng.choice(DATA_ATOMS) for _ in range(rng.randrange(1, maxatoms + 1))))


def gen_body(rng, names, maxlen=5):
    body = []
    for _ in range(rng.randrange(0, maxlen + 1)):
        r = rng.random()
        if r < 0.5:
            body.append(("d", gen_text(rng)))
        elif r < 0.93 or not body:
            body.append(("v", rng.choice(names)))
        else:
            body.append(("c", rng.choice(["c", "", "note: %(x)s {{ "])))   # a comment between pieces
    return body


def gen_block(rng):
    names = rng.sample(NAMES, rng.randrange(1, 5))
    header, seen = [], set()
    for _ in range(rng.choice([0, 0, 1, 1, 2, 3])):
        n = rng.choice(names + ["trimmed", "notrimmed", "num"])
        kind = rng.choice(["name", "name", "str", "int", "ref", "call"])
        if n in seen and rng.random() < 0.9:
            continue
        seen.add(n)
        header.append((n, kind))
    plural = None
    if rng.random() < 0.45:
        r = rng.random()
        declared = [n for n, _ in header]
        pn = None
        if r < 0.3 and declared:
            pn = rng.choice(declared)
        elif r < 0.36:
            pn = rng.choice(names)
        plural = (pn, gen_body(rng, names, 4))
    return {"ctx": rng.choice(CTX_STRINGS) if rng.random() < 0.3 else None, "header": header,
            "singular": gen_body(rng, names), "plural": plural}


def shape_blocks():
    """systematic small shapes: header × body × plural × context"""
    headers = [[], [("a", "name")], [("a", "int")], [("num", "int")], [("trimmed", "name")], [("a", "str"), ("trimmed", "name")],
               [("n", "name"), ("a", "call")], [("a", "call")], [("a", "int"), ("a", "name")], [("notrimmed", "name"), ("b", "ref")],
               [("trimmed", "int")], [("trimmed", "name"), ("trimmed", "name")]]
    bodies = [[], [("d", "plain")], [("d", " 100% \n sure ")], [("v", "a")], [("d", "%(a)s and %%\n"), ("v", "num"), ("d", " <b>{ }</b>")],
              [("v", "b"), ("d", "\n \n"), ("v", "a")]]
    plurals = [None, (None, [("d", "many % ")]), (None, [("v", "a"), ("d", " things\n")]), ("a", [("v", "num"), ("d", "s")]), ("zz", [])]
    for h, b, p, c in itertools.product(headers, bodies, plurals, [None, "ctx"]):
        yield {"ctx": c, "header": list(h), "singular": list(b), "plural": p}


def jstr(s: str) -> str:
    """a Jinja string literal (the lexer decodes it with the unicode-escape rules; keep to a safe alphabet)"""
    return "'" + s + "'"


def unparse(block, exprs):
    parts = ["{% trans"]
    if block["ctx"] is not None:
        parts.append(' "' + block["ctx"] + '"')
    defined = False
    flag = None
    for i, (n, kind) in enumerate(block["header"]):
        parts.append("," if defined else "")
        parts.append(" " + n)
        if kind != "name":
            parts.append("=" + exprs[i])
            defined = True
        elif flag is None and n in ("trimmed", "notrimmed"):
            flag = n
        else:
            defined = True
    parts.append(" %}")

    def body(b):
        out = []
        for k, v in b:
            out.append(v if k == "d" else ("{{ " + v + " }}" if k == "v" else "{# " + v.replace("#}", "") + " #}"))
        return "".join(out)

    parts.append(body(block["singular"]))
    if block["plural"] is not None:
        pn, pb = block["plural"]
        parts.append("{% pluralize" + (" " + pn if pn else "") + " %}" + body(pb))
    parts.append("{% endtrans %}")
    return "".join(parts)


def sx_body(b):
    return [[Atom("d"), v] if k == "d" else [Atom("v"), v] for k, v in b if k != "c"]


def sx_block(block):
    return [block["ctx"] if block["ctx"] is not None else Atom("none"),
            [[n, kind != "name"] for n, kind in block["header"]],
            sx_body(block["singular"]),
            Atom("none") if block["plural"] is None else
            [block["plural"][0] if block["plural"][0] else Atom("none"), sx_body(block["plural"][1])]]


def all_names(block):
    ns = [n for n, _ in block["header"]]
    ns += [v for k, v in block["singular"] if k == "v"]
    if block["plural"]:
        ns += [v for k, v in block["plural"][1] if k == "v"]
        if block["plural"][0]:
            ns.append(block["plural"][0])
    out = []
    for n in ns:
        if n not in out:
            out.append(n)
    return out


class Case:
    """one block + values: template source, render context, the model's σ"""

    def __init__(self, jinja2, rng, block, count=None):
        from markupsafe import Markup
        self.block = block
        self.exprs, self.data, self.sigma = [], {}, {}

        def pick_val(intish):
            r = rng.random()
            if intish or r < 0.35:
                return rng.choice(INT_VALUES)
            if r < 0.5:
                return Markup(rng.choice(["<em>m</em>", "m&amp;", "%", ""]))
            return rng.choice(STR_VALUES)

        assigned = {}
        for i, (n, kind) in enumerate(block["header"]):
            if kind == "name":
                self.exprs.append(None)
                continue
            if n in assigned:        # defined twice: a syntax error anyway
                self.exprs.append("0")
                continue
            if kind == "int":
                v = rng.choice(INT_VALUES)
                self.exprs.append(str(v))
            elif kind == "str":
                v = rng.choice(["lit", "<b>", "a&b", "50%", "%(a)s", "", "é"])
                self.exprs.append(jstr(v))
            elif kind == "ref":
                v = pick_val(False)
                self.data[f"zz{i}"] = v
                self.exprs.append(f"zz{i}")
            else:
                v = pick_val(False)
                self.data[f"mk{i}"] = (lambda v=v: v)
                self.exprs.append(f"mk{i}()")
            assigned[n] = v
        self.sigma.update(assigned)
        for n in all_names(block):
            if n in assigned:
                continue
            if rng.random() < 0.12:
                continue            # undefined
            v = pick_val(False)
            self.data[n] = v
            self.sigma[n] = v
        self.src = unparse(block, self.exprs)

    def with_count(self, key, value):
        """override the value of the count variable where it comes from the context"""
        if key in self.data and not callable(self.data[key]):
            self.data[key] = value
            self.sigma[key] = value
            return True
        return False

    def sx_sigma(self):
        from markupsafe import Markup
        out = []
        for k, v in self.sigma.items():
            if isinstance(v, bool):
                raise AssertionError
            if isinstance(v, int):
                out.append([k, [Atom("i"), v]])
            else:
                out.append([k, [Atom("s"), str(v), isinstance(v, Markup)]])
        return out


def recorder(log, mark):
    def g(s):
        log.append(["gettext", s])
        return f"[g|{s}]" if mark else s

    def ng(s, p, n):
        log.append(["ngettext", s, p])
        r = s if n == 1 else p
        return f"[n|{r}]" if mark else r

    def pg(c, s):
        log.append(["pgettext", c, s])
        return f"[p|{c}|{s}]" if mark else s

    def npg(c, s, p, n):
        log.append(["npgettext", c, s, p])
        r = s if n == 1 else p
        return f"[np|{c}|{r}]" if mark else r

    return g, ng, pg, npg


def make_env(jinja2, newstyle, autoescape, policy, mark, log):
    env = jinja2.Environment(extensions=["jinja2.ext.i18n"], autoescape=autoescape)
    env.policies["ext.i18n.trimmed"] = policy
    g, ng, pg, npg = recorder(log, mark)
    env.install_gettext_callables(g, ng, newstyle=newstyle, pgettext=pg, npgettext=npg)
    return env


def err_kind(e):
    name = type(e).__name__
    msg = str(e)
    if name == "TemplateAssertionError" and "defined twice" in msg:
        return "definedTwice"
    if name == "TemplateAssertionError" and "for pluralization" in msg:
        return "unknownPluralVar"
    if name == "TemplateSyntaxError" and "pluralize without variables" in msg:
        return "pluralizeWithoutVariables"
    return f"Other:{name}:{msg[:60]}"


def observe_ast(jinja2, env, src):
    """decode the node the extension built: [func, ctx, singular, plural, countKey, keys, kwargs, modKeys]"""
    nodes = jinja2.nodes
    try:
        tpl = env.parse(src)
    except jinja2.TemplateSyntaxError as e:
        return ("err", err_kind(e))
    outs = [n for n in tpl.body if isinstance(n, nodes.Output)]
    if len(outs) != 1 or len(outs[0].nodes) != 1:
        return ("shape", repr(tpl)[:200])
    node = outs[0].nodes[0]
    mod = None
    if isinstance(node, nodes.Mod):
        if not isinstance(node.right, nodes.Dict):
            return ("shape", "Mod without Dict")
        mod = [(p.key.value, p.value) for p in node.right.items]
        node = node.left
    wrapped = isinstance(node, nodes.MarkSafeIfAutoescape)
    if wrapped:
        node = node.expr
    if not isinstance(node, nodes.Call) or not isinstance(node.node, nodes.Name):
        return ("shape", repr(node)[:200])
    func = node.node.name
    args = list(node.args)
    if node.dyn_args is not None or node.dyn_kwargs is not None:
        return ("shape", "dyn args")
    ctx = None
    if func in ("pgettext", "npgettext"):
        ctx = args.pop(0).value
    singular = args.pop(0).value
    plural = count = None
    if func in ("ngettext", "npgettext"):
        plural = args.pop(0).value
        count = args.pop(0)
    if args:
        return ("shape", "extra args")
    kwargs = [(k.key, k.value) for k in node.kwargs]
    variables = mod if mod is not None else kwargs
    count_key = None
    if count is not None:
        for k, v in variables:
            if v is count:
                count_key = k
        if count_key is None and isinstance(count, nodes.Name):
            for k, v in variables:     # the fallback Name(first referenced): a fresh node equal to the registered free name
                if k == count.name and isinstance(v, nodes.Name) and v.name == k:
                    count_key = k
        if count_key is None and mod is None and "num" not in [k for k, _ in kwargs]:
            count_key = "num"           # new style: the count variable is called num and is left to the wrapper's setdefault
    newstyle = env.newstyle_gettext
    if newstyle == wrapped:
        return ("shape", "MarkSafeIfAutoescape iff old style expected")
    return ("ok", [func, ctx, singular, plural, count_key, sorted(k for k, _ in kwargs),
                   None if mod is None else sorted(k for k, _ in mod)])


def canon_model_node(rep):
    """model node → the same shape (keys are only comparable as sets: F11, C30)"""
    def opt(x):
        return None if isinstance(x, Atom) and x == "none" else x
    func, ctx, singular, plural, count_key, keys, kwargs, modkeys = rep
    return [func, opt(ctx), singular, opt(plural), opt(count_key), sorted(kwargs),
            None if (isinstance(modkeys, Atom) and modkeys == "none") else sorted(modkeys)], sorted(keys)


def known_shape(block, newstyle):
    declared = False
    flag = False
    for n, kind in block["header"]:
        if kind == "name" and not flag and n in ("trimmed", "notrimmed"):
            flag = True
        else:
            declared = True
    bodies = [block["singular"]] + ([block["plural"][1]] if block["plural"] else [])
    referenced = any(k == "v" for b in bodies for k, _ in b)
    pct = any(k == "d" and "%" in v for b in bodies for k, v in b)
    return (not newstyle) and declared and not referenced and pct


def render(env, src, data):
    try:
        return env.from_string(src).render(**data)
    except Exception as e:  # noqa
        return ("raised", type(e).__name__)


def run(ctx, res):
    jinja2 = core.import_jinja()
    stats = {"unit_parse": 0, "unit_parse_err": {}, "e2e": 0, "e2e_model_declined": 0, "formerly_failing_shape_probes": 0, "funcs": {},
             "trim_unit": 0, "format_unit": 0, "format_declined": 0, "format_keyerror": 0, "extract_templates": 0,
             "extract_messages": 0, "ws_codepoints": 0, "plural_counts": {}, "trimmed_blocks": 0, "blocks_with_percent": 0,
             "vars_per_block": {}, "undefined_vars": 0}
    distinct = set()
    samples = []

    run_blocks(ctx, res, jinja2, stats, distinct, samples)
    run_trim_unit(ctx, res, jinja2, stats, distinct)
    run_format_unit(ctx, res, stats, distinct)
    run_extract(ctx, res, jinja2, stats, distinct, samples)
    run_reserved(ctx, res, jinja2, stats)

    res.coverage.update({
        "evaluations": stats["unit_parse"] + stats["e2e"] + stats["trim_unit"] + stats["format_unit"] + stats["extract_templates"] * 3
                       + stats.get("reserved_name_probes", 0),
        "distinct_nontrivial": len(distinct),
        "rule": ("blocks: product of 12 headers x 6 bodies x 5 pluralize forms x context (720 shapes) plus random blocks over "
                 f"{len(DATA_ATOMS)} text atoms (%, %%, %(x)s look-alikes, braces, markup, Unicode, line breaks, Unicode "
                 "whitespace), 0-3 declared variables (bare, int/str literal, name, call), comments inside bodies; each parsed "
                 "in 4 configs (style x trimmed policy) and rendered in 16 (x autoescape x identity/marking translation), "
                 "pluralised blocks additionally with counts 0,1,2; a case is non-trivial when it has a variable, a '%', "
                 "a pluralize or trimming applies. trim: random strings over all Unicode whitespace + isspace table sweep; "
                 "format: random format strings against Python's % operator; extract: templates of 1-5 nodes (data, "
                 "explicit gettext calls, trans blocks) through extract_from_ast, babel_extract and a recording render"),
        "samples": samples[:6],
        "distribution": stats,
    })


# ----------------------------------------------------------------------------------------------------------------------
def run_blocks(ctx, res, jinja2, stats, distinct, samples):
    rng = ctx.rng("blocks")
    blocks = list(shape_blocks())
    if ctx.quick:
        blocks = [b for i, b in enumerate(blocks) if i % 6 == ctx.seed % 6]
    for _ in range(ctx.pick(130, 5000)):
        blocks.append(gen_block(rng))
    cases = [Case(jinja2, rng, b) for b in blocks]

    # L-unit: the node built by the extension ------------------------------------------------------------------------
    reqs, meta = [], []
    for ci, c in enumerate(cases):
        for ns in (False, True):
            for pt in (False, True):
                reqs.append([Atom("i18n-parse"), ns, pt, sx_block(c.block)])
                meta.append((ci, ns, pt))
    replies = core.driver_batch(reqs)
    envs = {}
    for ns in (False, True):
        for pt in (False, True):
            e = jinja2.Environment(extensions=["jinja2.ext.i18n"])
            e.policies["ext.i18n.trimmed"] = pt
            e.newstyle_gettext = ns
            envs[(ns, pt)] = e
    parse_ok = {}
    for (ci, ns, pt), rep in zip(meta, replies):
        c = cases[ci]
        got = observe_ast(jinja2, envs[(ns, pt)], c.src)
        stats["unit_parse"] += 1
        if rep[0] == "err":
            want = ("err", str(rep[1]))
            stats["unit_parse_err"][want[1]] = stats["unit_parse_err"].get(want[1], 0) + 1
        elif rep[0] == "ok":
            node, keys = canon_model_node(rep[1])
            want = ("ok", node)
            parse_ok[(ci, ns, pt)] = (node, keys)
        else:
            raise core.HarnessError(f"driver: {rep} for {core.sx(reqs[0])[:200]}")
        if got != want:
            res.violate(f"C33:unit:parse:{'new' if ns else 'old'}",
                        f"Environment.parse({c.src!r}) (newstyle={ns}, trimmed policy={pt}) builds {got}; model {want}",
                        {"kind": "parse", "src": c.src, "newstyle": ns, "policy_trimmed": pt, "block": c.block,
                         "observed": got, "model": want}, no_input=True)
        if got[0] == "ok":
            distinct.add(("parse", c.src, ns, pt))

    # L-e2e ----------------------------------------------------------------------------------------------------------
    reqs, meta = [], []
    configs = list(itertools.product((False, True), (False, True), (False, True), (False, True)))
    for ci, c in enumerate(cases):
        if (ci, False, False) not in parse_ok:
            continue
        node, keys = parse_ok[(ci, False, False)]
        stats["vars_per_block"][len(keys)] = stats["vars_per_block"].get(len(keys), 0) + 1
        stats["undefined_vars"] += sum(1 for k in keys if k not in c.sigma)
        variants = [None]
        if node[4] is not None:
            variants = [None, 0, 1, 2]
        for cv in variants:
            if cv is not None and not c.with_count(node[4], cv):
                continue
            data = dict(c.data)
            sig = c.sx_sigma()
            for ns, ae, pt, mark in configs:
                if ctx.quick and mark and (ci + ns + ae + pt) % 2:
                    continue
                reqs.append([Atom("i18n-render"), ns, pt, ae, Atom("mark" if mark else "id"), sx_block(c.block), sig])
                meta.append((ci, ns, ae, pt, mark, data, cv))
    replies = core.driver_batch(reqs)
    logs = {}
    e2e_envs = {}
    for ns, ae, pt, mark in configs:
        log = []
        logs[(ns, ae, pt, mark)] = log
        e2e_envs[(ns, ae, pt, mark)] = make_env(jinja2, ns, ae, pt, mark, log)
    for (ci, ns, ae, pt, mark, data, cv), rep in zip(meta, replies):
        c = cases[ci]
        if rep[0] != "ok":
            raise core.HarnessError(f"driver: render reply {rep} for {c.src!r}")
        model, oracle, rec = rep[1]
        log = logs[(ns, ae, pt, mark)]
        del log[:]
        out = render(e2e_envs[(ns, ae, pt, mark)], c.src, data)
        stats["e2e"] += 1
        cfg = f"{'new' if ns else 'old'}:{'ae' if ae else 'noae'}"
        replay = {"kind": "render", "src": c.src, "data": {k: (repr(v) if callable(v) else v) for k, v in data.items()},
                  "newstyle": ns, "autoescape": ae, "policy_trimmed": pt, "mark": mark, "block": c.block,
                  "observed": out, "model": core.sx(model), "oracle": oracle}
        nontrivial = bool(parse_ok[(ci, False, False)][1]) or "%" in c.src.split("%}", 1)[1].rsplit("{%", 1)[0] or cv is not None
        if nontrivial:
            distinct.add(("render", c.src, ns, ae, pt, mark, cv, tuple(sorted((k, str(v)) for k, v in data.items() if not callable(v)))))
        stats["funcs"][str(rec[0])] = stats["funcs"].get(str(rec[0]), 0) + 1
        if cv is not None:
            stats["plural_counts"][cv] = stats["plural_counts"].get(cv, 0) + 1
        # recorded call: routing and message
        want_log = [[str(rec[0])] + list(rec[1:])]
        if log != want_log and not (isinstance(out, tuple) and log == []):
            res.violate(f"C33:e2e:recorded:{cfg}", f"{c.src!r} ({cfg}): gettext callables received {log}; model {want_log}",
                        dict(replay, recorded=log, model_recorded=want_log), no_input=True)
        model_text = model[1] if model[0] == "ok" else None
        model_declined = model[0] == "err" and model[1] == "unsupported"
        model_keyerr = model[0] == "err" and model[1] == "keyError"
        if model_declined:
            stats["e2e_model_declined"] += 1
        # (1) the property's oracle (identity translation only)
        if not mark and out != oracle:
            if known_shape(c.block, ns):
                res.violate(KNOWN_KEY,
                            f"old-style gettext, variables declared in the tag but none referenced, literal '%': {c.src!r} "
                            f"gives {out!r}, source text is {oracle!r} (_make_node must un-double '%%' exactly when no "
                            "'% dict' is applied; regression of the defect fixed by a1dc827)", replay)
            else:
                res.violate(f"C33:e2e:oracle:{cfg}", f"{c.src!r} with {replay['data']} ({cfg}, trimmed policy {pt}) renders "
                            f"{out!r}; source text with variables substituted is {oracle!r}", replay)
        if not mark and known_shape(c.block, ns):
            stats["formerly_failing_shape_probes"] += 1
        # (2) transcription vs implementation
        if model_text is not None:
            if out != model_text:
                res.violate(f"C33:e2e:model:{cfg}", f"{c.src!r} ({cfg}{', marking' if mark else ''}) renders {out!r}; model {model_text!r}",
                            replay, no_input=(not mark and out == oracle) or mark)
        elif model_keyerr:
            if out != ("raised", "KeyError"):
                res.violate(f"C33:e2e:model:{cfg}", f"{c.src!r} ({cfg}) gives {out!r}; model KeyError", replay, no_input=True)
        elif model_declined and not isinstance(out, tuple) and not known_shape(c.block, ns):
            # the model says Python's % rejects (or reinterprets) the format string, yet the block rendered
            res.violate(f"C33:e2e:model:{cfg}", f"{c.src!r} ({cfg}) renders {out!r}; model: format string outside %(name)s/%%",
                        replay, no_input=True)
    picked = [c for c in cases if c.block["plural"] and c.block["header"] and "%" in c.src.split("%}", 1)[1]][:2] + cases[-3:]
    for c in picked:
        samples.append({"src": c.src, "data": {k: ("<callable>" if callable(v) else str(v)) for k, v in c.data.items()},
                        "block": core.sx(sx_block(c.block))})
    for c in cases:
        body_txt = "".join(v for k, v in c.block["singular"] if k == "d")
        if "%" in body_txt:
            stats["blocks_with_percent"] += 1
        if any(n in ("trimmed",) and k == "name" for n, k in c.block["header"]):
            stats["trimmed_blocks"] += 1
    stats["blocks"] = len(cases)


# ----------------------------------------------------------------------------------------------------------------------
def run_trim_unit(ctx, res, jinja2, stats, distinct):
    rng = ctx.rng("trim")
    env = jinja2.Environment(extensions=["jinja2.ext.i18n"])
    ext = env.extensions["jinja2.ext.InternationalizationExtension"]
    ws = [" ", "\t", "\n", "\r", "\x0b", "\x0c", "\x1c", "\x1d", "\x1e", "\x1f", "\x85", "\xa0", " ", " ", " ", " ",
          " ", " ", " ", " ", "　", "\n", "\n", " ", " "]
    nonws = ["a", "b", "%", "%%", "(", ")s", "​", "᠎", "\x1b", "\x08", "é", "﻿", "<", "0", "\x00", "\x7f", "\x84", "\x86"]
    texts = ["", " ", "\n", "a", " a ", "a\nb", "a \n b", "a  b", "\n a \n", "a\n\nb", "a \t b", " \n ", "a\rb", "a\r\nb", "a\x0bb"]
    for _ in range(ctx.pick(700, 20000)):
        texts.append("".join(rng.choice(ws) if rng.random() < 0.55 else rng.choice(nonws) for _ in range(rng.randrange(0, 12))))
    # the whitespace table itself: one probe per code point (both roles: strippable, and joinable with a line break)
    cps = list(range(0, 0x3100)) + [0xfeff, 0x1d7d8, 0xe0020]
    if ctx.quick:   # quick: the low planes where all of Python's whitespace lives densely, the rest every 4th code point
        cps = [cp for cp in cps if cp < 0x100 or 0x1680 <= cp <= 0x1681 or 0x2000 <= cp < 0x2070 or 0x3000 <= cp < 0x3002 or cp % 4 == ctx.seed % 4]
    for cp in cps:
        if 0xd800 <= cp <= 0xdfff:
            continue
        texts.append(chr(cp) + "x" + chr(cp) + "\n" + chr(cp) + "y" + chr(cp))
    stats["ws_codepoints"] = len(cps)
    replies = core.driver_batch([[Atom("i18n-trim"), t] for t in texts])
    for t, rep in zip(texts, replies):
        got = ext._trim_whitespace(t)
        stats["trim_unit"] += 1
        if t.strip() != t or "\n" in t:
            distinct.add(("trim", t))
        if rep[0] != "ok" or rep[1] != got:
            res.violate("C33:unit:trim", f"_trim_whitespace({t!r}) = {got!r}; model {rep[1] if rep[0] == 'ok' else rep!r}",
                        {"kind": "trim", "text": t, "observed": got, "model": rep[1] if rep[0] == "ok" else str(rep)}, no_input=True)


def run_format_unit(ctx, res, stats, distinct):
    """the assumed semantics of Python's `str % dict` on the modelled subset, against the real operator"""
    rng = ctx.rng("format")
    atoms = ["%%", "%(a)s", "%(b)s", "%(num)s", "%(zz)s", "%", "%(", "%(a", "%(a)", "%(a)d", "%s", "%(a(b))s", "%()s", "x", " ", "(", ")", "s",
             "%(é)s", "\n", "%%%", "100%%", "%(a)s%(a)s", "%5s", "%(a)5s", "%(a)r", "{", "☃"]
    mapping_pool = [("a", "A"), ("b", ""), ("num", "3"), ("é", "E"), ("", "empty"), ("a(b)", "P"), ("a", "%(b)s"), ("b", "%")]
    cases = []
    for _ in range(ctx.pick(700, 20000)):
        f = "".join(rng.choice(atoms) for _ in range(rng.randrange(0, 7)))
        m = {}
        for k, v in rng.sample(mapping_pool, rng.randrange(0, 5)):
            m.setdefault(k, v)
        cases.append((f, m))
    replies = core.driver_batch([[Atom("i18n-format"), f, [[k, v] for k, v in m.items()]] for f, m in cases])
    for (f, m), rep in zip(cases, replies):
        stats["format_unit"] += 1
        try:
            got = ("ok", f % m)
        except KeyError:
            got = ("err", "keyError")
        except (ValueError, TypeError) as e:
            got = ("raised", type(e).__name__)
        if rep[0] == "oom":
            stats["format_declined"] += 1
            continue
        if "%" in f:
            distinct.add(("format", f, tuple(sorted(m.items()))))
        want = ("ok", rep[1]) if rep[0] == "ok" else ("err", str(rep[1]))
        if want[0] == "err":
            stats["format_keyerror"] += 1
        if got != want:
            res.violate("C33:unit:percent-format", f"{f!r} % {m!r} = {got}; model {want}",
                        {"kind": "format", "fmt": f, "mapping": m, "observed": got, "model": want}, no_input=True)


# ----------------------------------------------------------------------------------------------------------------------
EXPLICIT = [
    # (source, (func, [args], nkw), data)  — valid in both styles unless `newonly`
    ('{{ _("plain") }}', ("_", [("s", "plain")], 0), False),
    ('{{ gettext("two words") }}', ("gettext", [("s", "two words")], 0), False),
    ('{{ gettext("<b>") }}', ("gettext", [("s", "<b>")], 0), False),
    ('{{ ngettext("one", "many", n) }}', ("ngettext", [("s", "one"), ("s", "many"), "dyn"], 0), False),
    ('{{ pgettext("ctx", "msg") }}', ("pgettext", [("s", "ctx"), ("s", "msg")], 0), False),
    ('{{ npgettext("ctx", "one", "many", n) }}', ("npgettext", [("s", "ctx"), ("s", "one"), ("s", "many"), "dyn"], 0), False),
    ('{{ gettext("hi %(u)s", u=n) }}', ("gettext", [("s", "hi %(u)s")], 1), True),
    ('{{ _("100%%") }}', ("_", [("s", "100%%")], 0), False),
    ('{{ ngettext("%(num)s one", "%(num)s many", n, who=n) }}', ("ngettext", [("s", "%(num)s one"), ("s", "%(num)s many"), "dyn"], 1), True),
    ('{{ other("not a message") }}', ("other", [("s", "not a message")], 0), False),
    ('{{ gettext(dynmsg) }}', ("gettext", ["dyn"], 0), False),
]


def run_extract(ctx, res, jinja2, stats, distinct, samples):
    from jinja2.ext import babel_extract, extract_from_ast
    rng = ctx.rng("extract")
    keywords = ["_", "gettext", "ngettext", "pgettext", "npgettext"]
    templates = []
    for _ in range(ctx.pick(60, 1500)):
        ns = rng.random() < 0.5
        pt = rng.random() < 0.4
        nodes, parts, data = [], [], {"n": rng.choice([0, 1, 2]), "dynmsg": "dynamic", "other": (lambda s: s)}
        for j in range(rng.randrange(1, 6)):
            r = rng.random()
            if r < 0.25:
                t = clean_data(rng.choice(["text ", "\n", "<p>", "% ", "a {", "x"]))
                nodes.append([Atom("data"), t])
                parts.append(t)
            elif r < 0.5:
                src, (f, args, nkw), newonly = rng.choice(EXPLICIT)
                if newonly and not ns:
                    continue
                nodes.append([Atom("call"), f, [Atom("dyn") if a == "dyn" else [Atom("s"), a[1]] for a in args], nkw])
                parts.append(src)
            else:
                for _try in range(20):
                    b = gen_block(rng)
                    # call-valued header items add an Assign(Call) outside the model's node list; keep blocks valid
                    # and a string literal as count expression is itself an extractable constant (model: count is `dyn`)
                    if not any(k == "call" or (k == "str" and b["plural"]) for _, k in b["header"]):
                        break
                else:
                    continue
                c = Case(jinja2, rng, b)
                for k, v in c.data.items():
                    data.setdefault(k, v)
                nodes.append([Atom("trans"), sx_block(b)])
                parts.append(c.src)
        if parts:
            templates.append((ns, pt, nodes, "".join(parts) + "\n", data))
    replies = core.driver_batch([[Atom("i18n-extract"), ns, pt, keywords, nodes] for ns, pt, nodes, _, _ in templates])
    cover_reqs, cover_meta = [], []
    for (ns, pt, nodes, src, data), rep in zip(templates, replies):
        stats["extract_templates"] += 1
        env_log = []
        env = make_env(jinja2, ns, False, pt, False, env_log)
        replay = {"kind": "extract", "src": src, "newstyle": ns, "policy_trimmed": pt}

        def canon(entries):
            out = []
            for e in entries:
                msg = e[2]
                out.append([e[1]] + ([msg] if not isinstance(msg, tuple) else list(msg)))
            return out
        try:
            ast_out = canon(extract_from_ast(env.parse(src), keywords))
            err = None
        except jinja2.TemplateSyntaxError as e:
            ast_out, err = None, err_kind(e)
        opts = {"trimmed": "true" if pt else "false", "newstyle_gettext": "on" if ns else "off", "silent": "false"}
        try:
            babel_out = canon(babel_extract(io.BytesIO(src.encode("utf-8")), keywords, [], opts))
        except jinja2.TemplateSyntaxError:
            babel_out = None
        via_env = None if err else canon(env.extract_translations(src))
        if rep[0] == "err":
            if err != str(rep[1]) or babel_out is not None:
                res.violate("C33:extract:error", f"{src!r}: model says syntax error {rep[1]}, extract_from_ast {err or ast_out}, "
                            f"babel_extract {babel_out}", replay, no_input=True)
            continue
        want = [[str(e[0])] + [None if (isinstance(x, Atom) and x == "none") else x for x in e[1:]] for e in rep[1][0]]
        stats["extract_messages"] += len(want)
        distinct.add(("extract", src, ns, pt))
        for label, got in (("extract_from_ast", ast_out), ("babel_extract", babel_out), ("extract_translations", via_env)):
            if got != want:
                res.violate(f"C33:extract:{label}", f"{label}({src!r}, newstyle={ns}, trimmed={pt}) = {got}; model {want}",
                            dict(replay, observed=got, model=want), no_input=True)
        # render with the recorder: what the callables saw
        del env_log[:]
        out = render(env, src, data)
        recorded = [list(x) for x in env_log]
        model_rec = [[str(r[0])] + list(r[1:]) for r in rep[1][1]]
        # model_rec lists every call node, also non-gettext callees and dynamic messages: compare on gettext functions
        model_rec = [r for r in model_rec if r[0] in ("gettext", "ngettext", "pgettext", "npgettext")]
        if not isinstance(out, tuple):
            # a dynamic message argument is recorded by the callables but is not a template constant
            rec_const = [r for r in recorded if r != ["gettext", "dynamic"]]
            mrec = [r for r in model_rec if len(r) > 1]
            if rec_const != mrec:
                res.violate("C33:extract:recorded", f"render of {src!r} (newstyle={ns}): callables received {rec_const}; model {mrec}",
                            dict(replay, observed=rec_const, model=mrec), no_input=True)
            # the property's oracle, evaluated in Lean on the implementation's own observations
            if ast_out is not None:
                for lab, ex in (("extract_from_ast", ast_out), ("babel_extract", babel_out)):
                    cover_reqs.append([Atom("i18n-covered"), [[e[0]] + [Atom("none") if x is None else x for x in e[1:]] for e in ex],
                                       rec_const])
                    cover_meta.append((lab, src, ns, pt, ex, rec_const))
    for (lab, src, ns, pt, ex, rec), rep in zip(cover_meta, core.driver_batch(cover_reqs)):
        if rep[0] != "ok":
            raise core.HarnessError(f"driver: covered reply {rep}")
        missing = rep[1]
        if missing:
            res.violate(f"C33:extract:incomplete:{lab}",
                        f"render of {src!r} (newstyle={ns}, trimmed policy={pt}) passed {missing} to a gettext callable but {lab} with the "
                        f"same options yields only {ex}", {"kind": "extract", "src": src, "newstyle": ns, "policy_trimmed": pt,
                                                            "extracted": ex, "recorded": rec, "missing": missing})
    if templates:
        samples.append({"extract_src": templates[0][3], "newstyle": templates[0][0]})


RESERVED_NAMES = ["__string", "__context", "__num", "__singular", "__plural", "__string_ctx"]


def run_reserved(ctx, res, jinja2, stats):
    """trans variables named like the parameters of the new-style wrappers (TypeError 'multiple values' before b0352aa made
    those parameters positional-only): every name x the four wrappers, declared and referenced, through the same oracle"""
    cases = []
    for name in RESERVED_NAMES:
        for ctxs in (None, "c"):
            for plural in (None, (None, [("d", "many "), ("v", name)])):
                block = {"ctx": ctxs, "header": [(name, "int")], "singular": [("d", "one % "), ("v", name)], "plural": plural}
                cases.append((name, block, unparse(block, ["1"])))
    reqs = [[Atom("i18n-render"), True, False, ae, Atom("id"), sx_block(b), [[n, [Atom("i"), 1]]]]
            for n, b, _ in cases for ae in (False, True)]
    replies = core.driver_batch(reqs)
    k = 0
    hits = []
    for name, block, src in cases:
        for ae in (False, True):
            rep = replies[k]
            k += 1
            if rep[0] != "ok":
                raise core.HarnessError(f"driver: reserved-name reply {rep}")
            oracle = rep[1][1]
            out = render(make_env(jinja2, True, ae, False, False, []), src, {})
            if out != oracle:
                hits.append((name, src, ae, out, oracle))
    stats["reserved_name_probes"] = k
    if hits:
        name, src, ae, out, oracle = hits[0]
        res.violate(RESERVED_KEY, f"new-style gettext: a trans variable named like a parameter of the wrapper "
                    f"({', '.join(sorted({h[0] for h in hits}))}) fails: {src!r} gives {out!r}, expected {oracle!r} "
                    "(the wrappers' own parameters must be positional-only; regression of the defect fixed by b0352aa)",
                    {"kind": "render", "src": src, "data": {}, "newstyle": True, "autoescape": ae, "policy_trimmed": False,
                     "mark": False, "observed": out, "oracle": oracle})


def replay(ctx, case):
    jinja2 = core.import_jinja()
    c = case["case"]
    if c.get("kind") == "render":
        log = []
        env = make_env(jinja2, c["newstyle"], c["autoescape"], c["policy_trimmed"], c.get("mark", False), log)
        data = {k: v for k, v in c.get("data", {}).items() if not (isinstance(v, str) and v.startswith("<function"))}
        out = render(env, c["src"], data)
        return {"src": c["src"], "observed_now": out, "recorded_now": log, "expected": c.get("oracle"), "then": c.get("observed")}
    if c.get("kind") == "trim":
        env = jinja2.Environment(extensions=["jinja2.ext.i18n"])
        ext = env.extensions["jinja2.ext.InternationalizationExtension"]
        return {"text": c["text"], "observed_now": ext._trim_whitespace(c["text"]), "model": c.get("model")}
    if c.get("kind") == "format":
        try:
            return {"observed_now": c["fmt"] % c["mapping"], "model": c.get("model")}
        except Exception as e:  # noqa
            return {"observed_now": type(e).__name__, "model": c.get("model")}
    if c.get("kind") in ("parse", "extract"):
        env = jinja2.Environment(extensions=["jinja2.ext.i18n"])
        env.policies["ext.i18n.trimmed"] = c["policy_trimmed"]
        env.newstyle_gettext = c["newstyle"]
        try:
            return {"src": c["src"], "ast_now": repr(env.parse(c["src"])), "extracted_now": [list(map(str, e)) for e in env.extract_translations(c["src"])],
                    "model": c.get("model")}
        except Exception as e:  # noqa
            return {"src": c["src"], "raised_now": f"{type(e).__name__}: {e}", "model": c.get("model")}
    return c
