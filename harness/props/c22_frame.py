"""C22, frame half (used by harness/props/c22.py): argument preservation and result freshness of every collection filter.

The Lean list models are pure functions, so "the argument is unchanged" is not a statement about them; it is stated here as the
harness oracle and it needs no re-implementation of any filter:

  frame      a deep structural snapshot (types, order, nested lists, dict item order) of EVERY argument (the value in each container
             form, the list the generators read from, fill / start / default arguments, args, kwargs) taken before the call equals
             the snapshot taken after the result was fully consumed;
  fresh      where the contract is "a new list / iterator" (list, sort, dictsort, groupby, unique, batch, slice, reverse, map,
             select, reject, selectattr, rejectattr, items; sum's start) the result object (and the second-level lists of
             batch / slice / groupby) is not the argument object, and reversing / appending to the result afterwards leaves the
             snapshot unchanged;
  variant    the consumed result is the same for the sync and the async environment and for every container form.

Route 1 (L-unit): Environment.call_filter -> the filter function (the `async_variant` wrapper picks the async function in the async
environment; coroutines / async generators are driven with asyncio.run), value given as list, tuple, list subclass, dict values view,
generator and (async) async generator; plus async_utils.auto_to_list itself.
Route 2 (templates): `{{ xs|F(..) }}` / `{% for r in xs|F(..) %}` / `{% set r = xs|F(..) %}{% set _ = r.append(99) %}` followed by a
dump of the same variables, in Environment(enable_async=False/True); the dump must equal the dump rendered without the filter.
"""
from __future__ import annotations

import asyncio
import copy
import inspect
import json

from harness import core


class Sub(list):
    """a list subclass (isinstance(list) holds, type(x) is list does not)"""


class VarRef:
    """an argument that is passed as an object (unit) / as the template variable `s` (template)"""

    def __repr__(self):
        return "<s>"


S = VarRef()
KEYS = ["a", "B", "b", "A", "ab", "Ab", "c", "10", "9", "aB"]
NEW_OBJECT = {"list", "sort", "dictsort", "groupby", "unique", "batch", "slice", "reverse", "map", "select", "reject", "selectattr",
              "rejectattr", "items"}
SECOND_LEVEL = {"batch", "slice", "groupby"}
SCALAR_RESULT = {"first", "last", "min", "max", "sum", "join", "length", "count"}
SEQ = ["list", "tuple", "sub", "view", "gen", "agen"]
SIZED = ["list", "tuple", "sub", "view"]


# ---------------------------------------------------------------------------------------------------------------- generators
def mk_elems(rng, kind, n):
    if kind == "int":
        return [rng.randrange(-5, 20) for _ in range(n)]
    if kind == "str":
        return [rng.choice(KEYS) for _ in range(n)]
    if kind == "nested":
        return [[rng.randrange(0, 6) for _ in range(rng.randrange(1, 4))] for _ in range(n)]
    if kind == "pair":
        return [[rng.choice(KEYS), rng.randrange(0, 5)] for _ in range(n)]
    if kind == "rec":
        return [{"k": rng.choice(KEYS), "v": rng.randrange(0, 6), "id": i, "t": [rng.randrange(0, 4) for _ in range(rng.randrange(0, 3))]}
                for i in range(n)]
    if kind == "dstr":      # items of a dict: distinct mixed-case keys in random order
        ks = list(KEYS)
        rng.shuffle(ks)
        return [[k, rng.randrange(0, 5)] for k in ks[:n]]
    raise ValueError(kind)


def _fill(rng):
    return rng.choice([([], {}, None), ([77], {}, None), ([S], {}, [7])])


def a_batch(rng, kind):
    a, k, s = _fill(rng)
    return [rng.randrange(1, 5)] + a, k, s


def a_keyed(rng, kind):
    kw = {}
    if rng.random() < 0.7:
        kw["case_sensitive"] = rng.random() < 0.5
    if kind == "rec":
        kw["attribute"] = rng.choice(["k", "v", "id"])
    elif kind == "pair":
        kw["attribute"] = rng.choice([0, 1])
    return [], kw, None


def a_sort(rng, kind):
    a, kw, s = a_keyed(rng, kind)
    if kind == "rec" and rng.random() < 0.4:
        kw["attribute"] = rng.choice(["k,v", "v,k", "k,id"])
    if kind == "pair" and rng.random() < 0.3:
        kw.pop("attribute")
    if rng.random() < 0.5:
        kw["reverse"] = True
    return a, kw, s


def a_groupby(rng, kind):
    kw = {}
    if rng.random() < 0.6:
        kw["case_sensitive"] = rng.random() < 0.5
    if rng.random() < 0.2:
        kw["default"] = "zz"
    return [rng.choice(["k", "v"]) if kind == "rec" else rng.choice([0, 1])], kw, None


def a_dictsort(rng, kind):
    kw = {}
    if rng.random() < 0.6:
        kw["case_sensitive"] = rng.random() < 0.5
    if rng.random() < 0.5:
        kw["by"] = rng.choice(["key", "value"])
    if rng.random() < 0.5:
        kw["reverse"] = True
    return [], kw, None


def a_none(rng, kind):
    return [], {}, None


def a_sum(rng, kind):
    if kind == "nested":
        return [], {"start": S}, rng.choice([[], [1], [[2]]])
    if kind == "rec":
        return [], {"attribute": "v", "start": rng.randrange(-2, 3)}, None
    return [], {"start": rng.randrange(-3, 4)}, None


def a_join(rng, kind):
    if kind == "rec":
        return [rng.choice([",", ""])], {"attribute": rng.choice(["k", "v"])}, None
    return [rng.choice([",", "-", ""])], {}, None


def a_map(rng, kind):
    if kind == "int":
        return [rng.choice(["abs", "string"])], {}, None
    if kind == "str":
        return [rng.choice(["upper", "length", "list"])], {}, None
    if kind == "nested":
        return [rng.choice(["list", "sort", "length", "sum", "last"])], {}, None
    if kind == "pair":
        return [rng.choice(["last", "first", "list", "length"])], {}, None
    if rng.random() < 0.3:
        return [], {"attribute": "zz", "default": S}, [0]
    return [], {"attribute": rng.choice(["k", "v", "t"])}, None


def a_select(rng, kind):
    if kind == "int":
        return rng.choice([[], ["odd"], ["gt", 2], ["in", S]]), {}, [1, 3, 5, 8]
    if kind == "str":
        return rng.choice([[], ["eq", "a"], ["lower"], ["in", S]]), {}, ["a", "B", "ab"]
    return rng.choice([[], ["sequence"], ["mapping"]]), {}, None


def a_selectattr(rng, kind):
    if kind == "rec":
        return rng.choice([["v"], ["v", "odd"], ["k", "eq", "a"], ["t"], ["v", "in", S]]), {}, [1, 2, 3]
    return rng.choice([[1], [1, "odd"], [0, "eq", "b"]]), {}, None


#: (filter, element kinds, container forms, argument generator)
SPECS = [
    ("batch", ["int", "str", "nested", "rec"], SEQ, a_batch),
    ("slice", ["int", "str", "nested", "rec"], SEQ, a_batch),
    ("unique", ["int", "str", "rec", "pair"], SEQ, a_keyed),
    ("groupby", ["rec", "pair"], SEQ, a_groupby),
    ("sort", ["int", "str", "rec", "pair", "nested"], SEQ, a_sort),
    ("sort", ["dstr"], ["dict"], a_none),
    ("dictsort", ["dstr"], ["dict"], a_dictsort),
    ("items", ["dstr"], ["dict"], a_none),
    ("reverse", ["int", "str", "nested", "rec"], ["list", "tuple", "sub", "view", "gen"], a_none),
    ("first", ["int", "str", "nested", "rec"], SEQ, a_none),
    ("last", ["int", "str", "nested", "rec"], ["list", "tuple", "sub", "view"], a_none),
    ("min", ["int", "str", "rec", "pair", "nested"], ["list", "tuple", "sub", "view", "gen"], a_keyed),
    ("max", ["int", "str", "rec", "pair", "nested"], ["list", "tuple", "sub", "view", "gen"], a_keyed),
    ("sum", ["int", "nested", "rec"], SEQ, a_sum),
    ("join", ["int", "str", "rec"], SEQ, a_join),
    ("list", ["int", "str", "nested", "rec"], SEQ, a_none),
    ("list", ["dstr"], ["dict"], a_none),
    ("length", ["int", "nested", "rec"], SIZED, a_none),
    ("count", ["int", "str"], SIZED, a_none),
    ("length", ["dstr"], ["dict"], a_none),
    ("map", ["int", "str", "nested", "pair", "rec"], SEQ, a_map),
    ("select", ["int", "str", "nested", "rec"], SEQ, a_select),
    ("reject", ["int", "str", "nested", "rec"], SEQ, a_select),
    ("selectattr", ["rec", "pair"], SEQ, a_selectattr),
    ("rejectattr", ["rec", "pair"], SEQ, a_selectattr),
]


# ----------------------------------------------------------------------------------------------------------------- machinery
def agen(xs):
    async def g():
        for x in xs:
            yield x
    return g()


def build(form, elems):
    """-> (the value handed to the filter, the objects to watch)"""
    base = copy.deepcopy(elems)
    if form == "list":
        return base, [base]
    if form == "tuple":
        v = tuple(base)
        return v, [v, base]
    if form == "sub":
        v = Sub(base)
        return v, [v, base]
    if form == "view":
        d = dict(enumerate(base))
        return d.values(), [d, base]
    if form == "dict":
        d = {k: v for k, v in base}
        return d, [d, base]
    if form == "gen":
        return (x for x in base), [base]
    if form == "agen":
        return agen(base), [base]
    raise ValueError(form)


def snap(o):
    """deep structural snapshot: container types, order (also of dict items), nested values"""
    if isinstance(o, dict):
        return [type(o).__name__, [[snap(k), snap(v)] for k, v in o.items()]]
    if isinstance(o, (list, tuple)):
        return [type(o).__name__, [snap(x) for x in o]]
    if isinstance(o, (str, int, float, bool)) or o is None:
        return o
    return repr(type(o).__name__)


def plain(o):
    """result canonicalisation for the sync/async/form comparison: containers by content only"""
    if isinstance(o, dict):
        return {"d": [[plain(k), plain(v)] for k, v in o.items()]}
    if isinstance(o, (list, tuple)):
        return [plain(x) for x in o]
    if isinstance(o, (str, int, float, bool)) or o is None:
        return str(o) if isinstance(o, str) else o     # Markup -> str
    if hasattr(o, "__next__"):
        return [plain(x) for x in o]
    if type(o).__name__.endswith("Undefined"):
        return "<undefined>"
    return "<" + type(o).__name__ + ">"


async def _adrain(r):
    if inspect.isawaitable(r):
        r = await r
    raw = r
    if hasattr(r, "__anext__"):      # an async iterator (not Undefined, which merely has __aiter__)
        r = [x async for x in r]
    elif hasattr(r, "__next__"):
        r = list(r)
    return raw, r


def _drain(r):
    raw = r
    if hasattr(r, "__next__"):
        r = list(r)
    return raw, r


def subst(args, kwargs, sval):
    return [sval if a is S else a for a in args], {k: (sval if v is S else v) for k, v in kwargs.items()}


def call_unit(env, tctx, name, form, elems, args, kwargs, sjson):
    """one direct call; -> dict(result, frame_before, frame_after, fresh problems, after-poke frame)"""
    value, watch = build(form, elems)
    sval = copy.deepcopy(sjson)
    a, kw = subst(args, kwargs, sval)
    watch = watch + [sval, a, kw]
    before = snap(watch)
    problems = []
    try:
        r = env.call_filter(name, value, a, kw, context=tctx)
        raw, out = asyncio.run(_adrain(r)) if env.is_async else _drain(r)
    except Exception as e:  # noqa
        return {"result": f"raised:{type(e).__name__}", "before": before, "after": snap(watch), "problems": [], "poked": None}
    res = plain(out)
    after = snap(watch)
    poked = None
    if name in NEW_OBJECT or (name == "sum" and sval is not None and elems):
        for label, obj in (("the value", value), ("an argument", sval)):
            if isinstance(obj, (list, dict)):
                if raw is obj or out is obj:
                    problems.append(f"the result is {label} object itself")
                if name in SECOND_LEVEL and isinstance(out, list):
                    for part in out:
                        inner = part[1] if name == "groupby" else part
                        if inner is obj:
                            problems.append(f"a second-level list of the result is {label} object itself")
    if name in NEW_OBJECT:
        # the result is the caller's to modify: doing so must not reach any argument
        if isinstance(out, list):
            if name in SECOND_LEVEL:
                for part in out:
                    inner = part[1] if name == "groupby" else part
                    if isinstance(inner, list):
                        inner.reverse()
                        inner.append("poke")
            out.reverse()
            out.append("poke")
        if isinstance(raw, list) and raw is not out:
            raw.reverse()
            raw.append("poke")
        poked = snap(watch)
    return {"result": res, "before": before, "after": after, "problems": problems, "poked": poked}


def lit(v):
    if v is S:
        return "s"
    if v is True:
        return "true"
    if v is False:
        return "false"
    if v is None:
        return "none"
    return json.dumps(v)


def call_src(name, args, kwargs):
    parts = [lit(a) for a in args] + [f"{k}={lit(v)}" for k, v in kwargs.items()]
    return name + ("(" + ", ".join(parts) + ")" if parts else "")


def dump_src(form):
    xs = "xs|items|list|tojson" if form == "dict" else "xs|list|tojson"
    return "#{{ " + xs + " }}#{{ s|tojson }}"


def template_src(shape, name, args, kwargs, form):
    f = call_src(name, args, kwargs)
    if shape == "expr":
        body = "{{ xs|%s|default('U')|tojson }}" % f if name in SCALAR_RESULT else "{{ xs|%s|list|tojson }}" % f
    elif shape == "for":
        body = "{%% for r in xs|%s %%}{{ r|tojson }};{%% endfor %%}" % f
    elif shape == "poke":
        body = ("{%% set r = xs|%s %%}{%% if r.append is defined %%}{%% set _ = r.reverse() %%}{%% set _ = r.append(99) %%}{%% endif %%}"
                "{{ r|list|length }}") % f
    else:
        raise ValueError(shape)
    return body + dump_src(form)


class Templates:
    def __init__(self):
        self.cache = {}

    def render(self, env, src, data):
        try:
            key = (id(env), src)
            t = self.cache.get(key)
            if t is None:
                t = self.cache[key] = env.from_string(src)
            if env.is_async:
                return asyncio.run(t.render_async(**data))
            return t.render(**data)
        except Exception as e:  # noqa
            return f"raised:{type(e).__name__}:{e}"


def render_case(tpls, env, shape, name, form, elems, args, kwargs, sjson):
    value, _ = build(form, elems)
    out = tpls.render(env, template_src(shape, name, args, kwargs, form), {"xs": value, "s": copy.deepcopy(sjson)})
    value2, _ = build(form, elems)
    want_dump = tpls.render(env, dump_src(form), {"xs": value2, "s": copy.deepcopy(sjson)})
    return out, want_dump


def jsonable_args(args, kwargs):
    return [("<s>" if a is S else a) for a in args], {k: ("<s>" if v is S else v) for k, v in kwargs.items()}


def unjson_args(args, kwargs):
    return [(S if a == "<s>" else a) for a in args], {k: (S if v == "<s>" else v) for k, v in kwargs.items()}


def flagged_filters():
    """filters whose functions the translator flags on the current tree (to aim the search): -> (set of names or None=all, notes)"""
    try:
        import translate.filter_mutators as fm
        d = fm.analyse()
    except Exception as e:  # noqa
        return set(), [f"translator: {type(e).__name__}: {e}"]
    bad = {f for f, _, _ in d["mutations"]}
    roster = dict(d["roster"])
    for name in NEW_OBJECT:
        for f in roster.get(name, []):
            kinds = dict(d["results"]).get(f, [])
            if any(k.startswith("alias") for k in kinds):
                bad.add(f)
    if any(k.startswith("alias") for k in dict(d["results"]).get("auto_to_list", [])):
        bad.add("auto_to_list")
    names = {n for n, fs in d["roster"] if any(f in bad for f in fs)}
    helpers = bad - {f for fs in roster.values() for f in fs}
    if helpers:
        names = {n for n, _ in d["roster"]}
    return names, sorted(bad)


# ----------------------------------------------------------------------------------------------------------------------- run
def run_frame(ctx, res, jinja2, env, aenv):
    rng = ctx.rng("frame")
    envs2 = (("sync", env), ("async", aenv))
    # join takes a different path (a list it assigns into) when autoescaping is on
    envs4 = envs2 + (("sync-autoescape", jinja2.Environment(autoescape=True)),
                     ("async-autoescape", jinja2.Environment(autoescape=True, enable_async=True)))
    tctx = {n: e.from_string("").new_context() for n, e in envs4}
    hot, hot_funcs = flagged_filters()
    per_spec = ctx.pick(30, 250)
    per_spec_tpl = ctx.pick(12, 100)
    stats = {"unit_calls": 0, "template_renders": 0, "raised": 0, "by_filter": {}, "by_form": {}, "by_kind": {}, "sizes": {},
             "nontrivial": 0, "flagged_by_translator": hot_funcs}
    distinct = set()
    samples = []
    reported = set()

    def violate(key, what, case):
        if key in reported:      # one replay per (kind, filter, env, form)
            return
        reported.add(key)
        res.violate(key, what, case)

    # auto_to_list, the materialiser shared by the async variants ---------------------------------------------------------
    from jinja2 import async_utils
    for _ in range(ctx.pick(40, 300)):
        kind = rng.choice(["int", "nested", "rec"])
        elems = mk_elems(rng, kind, rng.randrange(0, 6))
        for form in SEQ:
            value, watch = build(form, elems)
            before = snap(watch)
            out = asyncio.run(async_utils.auto_to_list(value))
            stats["unit_calls"] += 1
            distinct.add(("auto_to_list", form, json.dumps(elems)))
            case = {"mode": "auto_to_list", "form": form, "elems": elems}
            if type(out) is not list or plain(out) != plain(elems):
                violate(f"C22:variant:auto_to_list:{form}", f"auto_to_list({form} of {elems}) = {out!r}", case)
            if out is value:
                violate(f"C22:fresh:auto_to_list:{form}", f"auto_to_list({form} of {elems}) returns its argument object, not a new list", case)
            out.reverse()
            out.append("poke")
            if snap(watch) != before:
                violate(f"C22:fresh:auto_to_list:{form}", f"modifying the list returned by auto_to_list({form} of {elems}) modifies the argument", case)

    # L-unit: every filter x element kind x arguments x container form x environment -------------------------------------------
    tpls = Templates()
    for name, kinds, forms, argf in SPECS:
        boost = 4 if name in hot else 1
        envs = envs4 if name == "join" else envs2
        for i in range(per_spec * boost):
            kind = kinds[i % len(kinds)]
            n = rng.choice([0, 1, 2, 3, 4, 5, 6, 8])
            elems = mk_elems(rng, kind, n)
            args, kwargs, sjson = argf(rng, kind)
            if not any(v is S for v in list(args) + list(kwargs.values())):
                sjson = None
            jargs, jkw = jsonable_args(args, kwargs)
            ref = None
            stats["by_filter"][name] = stats["by_filter"].get(name, 0) + 1
            stats["by_kind"][kind] = stats["by_kind"].get(kind, 0) + 1
            stats["sizes"][n] = stats["sizes"].get(n, 0) + 1
            if n >= 2:
                stats["nontrivial"] += 1
            for envname, e in envs:
                for form in forms:
                    if form == "agen" and (not e.is_async or not getattr(e.filters[name], "jinja_async_variant", False)):
                        continue      # async generators are accepted by the async variants only
                    case = {"mode": "unit", "filter": name, "env": envname, "form": form, "kind": kind, "elems": elems,
                            "args": jargs, "kwargs": jkw, "s": sjson}
                    r = call_unit(e, tctx[envname], name, form, elems, args, kwargs, sjson)
                    stats["unit_calls"] += 1
                    stats["by_form"][form] = stats["by_form"].get(form, 0) + 1
                    distinct.add((name, envname, form, json.dumps([elems, jargs, jkw, sjson], sort_keys=True)))
                    if isinstance(r["result"], str) and r["result"].startswith("raised:"):
                        stats["raised"] += 1
                    tag = f"{name}:{envname}:{form}"
                    what = f"{envname} {call_src(name, args, kwargs)} on {form} of {elems}" + (f" with s={sjson}" if sjson is not None else "")
                    if r["after"] != r["before"]:
                        diff = [(b, a) for b, a in zip(r["before"][1], r["after"][1]) if a != b][:1] or [(r["before"], r["after"])]
                        violate(f"C22:frame:{tag}", f"{what} modifies its arguments: before {json.dumps(diff[0][0])} after {json.dumps(diff[0][1])}",
                                dict(case, observed=r["after"], expected=r["before"]))
                    for p in r["problems"]:
                        violate(f"C22:fresh:{tag}", f"{what}: {p} (the contract is a new object)", dict(case, observed=p))
                    if r["poked"] is not None and r["poked"] != r["after"]:
                        violate(f"C22:fresh:{tag}", f"{what}: reversing/appending to the RESULT changes an argument: {json.dumps(r['poked'])}",
                                dict(case, observed=r["poked"], expected=r["after"]))
                    if ref is None:
                        ref = (r["result"], envname, form)
                    elif r["result"] != ref[0]:
                        violate(f"C22:variant:{tag}", f"{what} gives {json.dumps(r['result'])}; {ref[1]}/{ref[2]} gives {json.dumps(ref[0])}",
                                dict(case, observed=r["result"], reference=ref[0], reference_variant=[ref[1], ref[2]]))
            if len(samples) < 6 and i == 1:
                samples.append({"filter": name, "elems": elems, "args": jargs, "kwargs": jkw, "s": sjson})

        # templates: the same variable is used again after the filter ------------------------------------------------------------
        tforms = [f for f in forms if f not in ("gen", "agen")]
        shapes = ["expr"] + ([] if name in SCALAR_RESULT else ["for"]) + (["poke"] if name in NEW_OBJECT else [])
        for i in range(per_spec_tpl * boost):
            kind = kinds[i % len(kinds)]
            n = rng.choice([1, 2, 3, 4, 5, 6, 8])
            elems = mk_elems(rng, kind, n)
            args, kwargs, sjson = argf(rng, kind)
            if not any(v is S for v in list(args) + list(kwargs.values())):
                sjson = None
            jargs, jkw = jsonable_args(args, kwargs)
            shape = shapes[i % len(shapes)]
            ref = None
            for envname, e in envs:
                for form in tforms:
                    out, want_dump = render_case(tpls, e, shape, name, form, elems, args, kwargs, sjson)
                    stats["template_renders"] += 2
                    src = template_src(shape, name, args, kwargs, form)
                    distinct.add(("tpl", src, envname, form, json.dumps([elems, sjson])))
                    case = {"mode": "template", "shape": shape, "filter": name, "env": envname, "form": form, "kind": kind,
                            "elems": elems, "args": jargs, "kwargs": jkw, "s": sjson, "src": src}
                    tag = f"{name}:{envname}:{form}"
                    if out.startswith("raised:"):
                        stats["raised"] += 1
                        head, dump = out, None
                    else:
                        head, _, dump = out.partition("#")
                        dump = "#" + dump
                    if dump is not None and dump != want_dump:
                        violate(f"C22:frame:tpl:{tag}", f"{envname} {src!r} on xs={form} of {elems}, s={sjson}: the variables after the filter "
                                f"render as {dump!r}, without the filter as {want_dump!r}", dict(case, observed=dump, expected=want_dump))
                    if ref is None:
                        ref = (head, envname, form)
                    elif head != ref[0]:
                        violate(f"C22:variant:tpl:{tag}", f"{envname} {src!r} on xs={form} of {elems} renders {head!r}; {ref[1]}/{ref[2]} renders {ref[0]!r}",
                                dict(case, observed=head, reference=ref[0]))
    stats["distinct"] = len(distinct)
    stats["samples"] = samples
    stats["filters"] = sorted({s[0] for s in SPECS})
    stats["raised_rate"] = round(stats["raised"] / max(1, stats["unit_calls"] + stats["template_renders"]), 4)
    return stats


def replay_frame(jinja2, case):
    envname = case.get("env", "sync")
    env = jinja2.Environment(enable_async=envname.startswith("async"), autoescape=envname.endswith("autoescape"))
    if case["mode"] == "auto_to_list":
        from jinja2 import async_utils
        value, watch = build(case["form"], case["elems"])
        before = snap(watch)
        out = asyncio.run(async_utils.auto_to_list(value))
        same = out is value
        out.append("poke")
        return {"result_is_argument": same, "argument_before": before, "argument_after_appending_to_result": snap(watch)}
    args, kwargs = unjson_args(case["args"], case["kwargs"])
    if case["mode"] == "unit":
        r = call_unit(env, env.from_string("").new_context(), case["filter"], case["form"], case["elems"], args, kwargs, case["s"])
        return {"result": r["result"], "arguments_before": r["before"], "arguments_after": r["after"], "fresh_problems": r["problems"],
                "arguments_after_modifying_result": r["poked"]}
    out, want_dump = render_case(Templates(), env, case["shape"], case["filter"], case["form"], case["elems"], args, kwargs, case["s"])
    return {"src": template_src(case["shape"], case["filter"], args, kwargs, case["form"]), "rendered": out, "dump_without_filter": want_dump}
