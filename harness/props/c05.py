"""C05 — include and import honor the documented context visibility.

Lean: Model/CtxFlow.lean (transcription of new_context / get_all / _get_default_module / exported_vars / select_template
and of what visit_Include, _import_common hand over), Spec/CtxFlow.lean (the documentation), Model/CtxRun.lean (a reference
interpreter for template *sets* that asks either of the two for every include / import it executes), Props/C05.lean.

This runner ties the model to /repo:
  L-unit  runtime.new_context, Context.get_all, Context.get_exported + exported_vars operations, Template._get_default_module /
          make_module, Environment.get_or_select_template / select_template  vs  the Lean primitives
  L-code  Environment.compile(raw=True) of every generated template: the call emitted for each include / import (function,
          arguments, the keys of the dump_local_context dict)  vs  what the model says the statement hands over
  L-e2e   generated template sets in a DictLoader whose templates PRINT probes `{{ name|default('~') }}`; the same set is sent
          to the Lean driver as a tree; reply = the text under the transcription and the text under the documentation.
          real == transcription is the tie; transcription != documentation would be a property failure found by the model
          and confirmed on the real code (that is how F16 was found; none since 1454414); real != transcription is decided
          by the documentation's text.
Python never decides what is visible: it only writes the tree as Jinja source and compares strings.
"""
from __future__ import annotations

import ast
import asyncio
import itertools

from harness import core
from harness.core import Atom

ID = "C05"
LEAN_MODULES = ["JinjaV.Props.C05"]
LEVEL = "proof"
TRUSTED = [
    "Model/CtxFlow.lean is a hand transcription of runtime.new_context, Context.get_all/get_exported/resolve_or_missing, "
    "Template.new_context/make_module/_get_default_module(_async), TemplateModule.__init__, select_template and of the calls "
    "emitted by visit_Include/_import_common/visit_Import/visit_FromImport; tied by the L-unit, L-code and L-e2e runs only",
    "Model/CtxRun.lean (reference interpreter: frames after idtracking.py, contexts as heap objects, macros, call blocks) "
    "is not a subject of the theorems; it is validated by output equality with the real renderer",
    "Spec/CtxFlow.lean is my reading of docs/templates.rst (Include, Import, Import Context Behavior) and docs/api.rst "
    "(global namespace); where the docs are silent on precedence between the imported template's own globals and the "
    "importing template's globals the spec takes the imported template's own first",
    "dicts / ChainMaps are association lists (first entry wins); sets are lists read by membership only",
]
ASSUMPTIONS = [
    "templates of a set do not include / import each other cyclically; values are strings; autoescape off",
    "a template probes only names it does not itself assign anywhere (its own scoping is C03's subject)",
    "globals are not changed between the first render and the last (a cached default module is never stale)",
    "macros are defined at top level (root or inside a top-level if), call blocks target macros that use caller",
    "blocks appear in templates that extend nothing (inheritance is C04's subject), outside macros, not nested",
]
CLAIM = dict(
    category="proof",
    technique="Lean 4 proof over a transcription of context creation for include/import, of the exported_vars bookkeeping "
              "and of template selection, against a specification written from the docs + unit, generated-code and "
              "end-to-end correspondence on generated template sets whose targets print what they see",
    text="Theorems (Props/C05.lean), for all contexts, locals, globals, flags and value types: `with context` (include and "
         "import alike) gives the target exactly the current local variables over the current context, a non-missing local "
         "winning, a `missing` one skipped (with_context_sees, get_all_is_resolve), where the locals dict gives every name "
         "its innermost declaration among the enclosing scopes (locals_are_innermost); an include sees that, or without "
         "context exactly the target's own globals, independent of everything in the including template (include_ctx, "
         "include_without_independent); a default import sees exactly the imported template's globals then the importing "
         "template's globals — full strength: whatever the render variables, context variables, shared parents and locals "
         "are (import_ctx proves ImportStatement; import_without_independent). The only hypothesis, CreatedFor, says which "
         "template the importing context belongs to (its _globals read like that template's globals, whose keys are among "
         "its globals_keys); every context the runtime builds has it (created_for_new_context, created_for_derived). "
         "Whatever is served from the cached default module was rendered with a context that depends on no importer "
         "(cached_module_is_context_free, uncached_import_has_extra). A module's attributes are exactly the public names "
         "whose current top-level binding is a set / block set / macro, with that value, for every order of assignments and "
         "imports (module_exports). ignore missing skips the statement iff nothing named exists and changes nothing else "
         "(ignore_missing_only_missing, ignore_missing_keeps_everything_else), and it guards the lookup only: once the named "
         "template is found the statement does exactly what rendering it does, any exception raised while it renders — a "
         "TemplateNotFound of a template it includes, imports or extends included — comes out with the flag as without it "
         "(ignore_missing_guards_lookup_only, ignore_missing_statement); a list selects the first entry that exists "
         "(select_first_existing). Tie: real new_context / get_all / get_exported / Context.derived / "
         "_get_default_module(_async) / include resolution against the primitives; the calls emitted for every "
         "include/import of every generated template, the keys of their dump_local_context dict and the try statement around "
         "every include lookup (what the try body holds, what is caught, where the target renders) against the model; "
         "output of render, generate, render_async, generate_async (with the text yielded before an exception), "
         "make_module(_async), .module for the three F16 replays, 96 sets in which an existing ignore-missing target fails "
         "while rendering (nested missing include/list/import/from/extends, UndefinedError also under StrictUndefined, "
         "ZeroDivisionError, depth 1-2, name/list/variable target, with/without context), "
         "an exhaustive small scope (statement kind x context flag x ignore missing x 21 places where the local is defined "
         "x shadowing pattern; every sequence of <=3 top-level binding events of a module) and random acyclic template sets "
         "(loops, macros, with, call blocks, blocks incl. scoped, nested imports, aliases colliding with assignments, name "
         "lists, missing / broken / undefined targets, Template objects as data) against the interpreter's text under the "
         "transcription; a difference is decided by the interpreter's text under the documentation.",
    note="Trusted: Lean kernel; hand models incl. the reference interpreter (tied by correspondence only); the spec's reading "
         "of 'globals' and of precedence. Finding F16 (three faces: render variable shadowing an importer global; KeyError in "
         "an included-with-context template with own globals; scoped block losing the importer's globals) was found by this "
         "check and fixed in /repo by 1454414; the model follows the fixed read site (ctx._globals), the three replays are "
         "permanent generator productions, a revert is reported under the findings' keys with concrete inputs.",
    design_ref="§5 C05",
)

F16_KEY = "C05:import-without-context:render-var-shadows-template-global"
F16B_KEY = "C05:import-without-context:template-global-key-missing-in-parent:KeyError"
F16C_KEY = "C05:import-without-context:scoped-block-loses-template-globals"

MISSING = "~"
POOL = ["eg", "tg", "tt", "rv", "ts", "ti", "lv", "mp", "wv", "cp", "_pv", "un", "sh"]
EXTRA = ["ex1", "ex2", "_hid"]
MACROS = ["m1", "m2", "_m3", "show"]
ALIASES = ["a1", "a2", "_a3"]
TVARS = ["tva", "tvb", "tvu"]


# ------------------------------------------------------------------------------------------------------------------
# the statement tree: tuples; written once as Jinja source and once as an S-expression
# ------------------------------------------------------------------------------------------------------------------

def q(s):
    return "'" + s + "'"


# a statement that raises while the template renders: what is written, and the exception class it raises
FAIL_SRC = {"undefined-call": "{{ zz9() }}", "strict-undefined": "{{ zz9 }}", "zero-division": "{{ 1 // 0 }}"}
FAIL_CLASS = {"undefined-call": "UndefinedError", "strict-undefined": "UndefinedError", "zero-division": "ZeroDivisionError"}


def target_src(t):
    return q(t[1]) if t[0] == "lit" else t[1]


def callee_src(c):
    return c[1] if c[0] == "name" else f"{c[1]}.{c[2]}"


def ctx_suffix(with_ctx, explicit):
    if explicit:
        return " with context" if with_ctx else " without context"
    return ""


def src_of(body):
    return "".join(stmt_src(s) for s in body)


def stmt_src(s):
    k = s[0]
    if k == "text":
        return s[1]
    if k == "probe":
        return "[" + s[1] + "".join(" %s={{ %s|default('%s') }}" % (n, n, MISSING) for n in s[2]) + "]"
    if k == "set":
        return "{%% set %s %%}%s{%% endset %%}" % (s[1], s[2]) if s[3] else "{%% set %s = %s %%}" % (s[1], q(s[2]))
    if k == "if":
        return "{%% if %s %%}%s{%% endif %%}" % ("true" if s[1] else "false", src_of(s[2]))
    if k == "for":
        return "{%% for %s in [%s] %%}%s{%% endfor %%}" % (s[1], ", ".join(map(q, s[2])), src_of(s[3]))
    if k == "with":
        return "{%% with %s = %s %%}%s{%% endwith %%}" % (s[1], q(s[2]), src_of(s[3]))
    if k == "macro":
        ps = ", ".join(p[0] if len(p) == 1 else "%s=%s" % (p[0], q(p[1])) for p in s[2])
        return "{%% macro %s(%s) %%}%s{%% endmacro %%}" % (s[1], ps, src_of(s[3]))
    if k == "call":
        return "{{ %s(%s) }}" % (callee_src(s[1]), ", ".join(map(q, s[2])))
    if k == "callblock":
        return "{%% call(%s) %s(%s) %%}%s{%% endcall %%}" % (s[1], callee_src(s[2]), ", ".join(map(q, s[3])), src_of(s[4]))
    if k == "caller":
        return "{{ caller(%s) }}" % q(s[1])
    if k == "include":
        _, targets, is_list, with_ctx, ignore, explicit = s
        t = "[" + ", ".join(map(target_src, targets)) + "]" if is_list else target_src(targets[0])
        return "{%% include %s%s%s %%}" % (t, " ignore missing" if ignore else "", ctx_suffix(with_ctx, explicit or not with_ctx))
    if k == "import":
        _, t, alias, with_ctx, explicit = s
        return "{%% import %s as %s%s %%}" % (target_src(t), alias, ctx_suffix(with_ctx, explicit or with_ctx))
    if k == "from":
        _, t, names, with_ctx, explicit = s
        ns = ", ".join(n if n == a else f"{n} as {a}" for n, a in names)
        return "{%% from %s import %s%s %%}" % (target_src(t), ns, ctx_suffix(with_ctx, explicit or with_ctx))
    if k == "modprobe":
        return "<" + s[1] + "".join(" %s={{ %s.%s|default('%s') }}" % (n, s[1], n, MISSING) for n in s[2]) + ">"
    if k == "modprint":
        return "{{ %s }}" % s[1]
    if k == "nameprobe":
        return "(" + "".join(" %s={{ %s|default('%s') }}" % (n, n, MISSING) for n in s[1]) + ")"
    if k == "block":
        return "{%% block %s%s %%}%s{%% endblock %%}" % (s[1], " scoped" if s[2] else "", src_of(s[3]))
    if k == "extends":
        return "{%% extends %s %%}" % target_src(s[1])
    if k == "fail":
        return FAIL_SRC[s[1]]
    raise ValueError(k)


def body_sx(body):
    return [stmt_sx(s) for s in body]


def callee_sx(c):
    return [Atom(c[0])] + list(c[1:])


def stmt_sx(s):
    k = s[0]
    if k == "text":
        return [Atom("text"), s[1]]
    if k == "probe":
        return [Atom("probe"), s[1], list(s[2])]
    if k == "set":
        return [Atom("set"), s[1], s[2], bool(s[3])]
    if k == "if":
        return [Atom("if"), bool(s[1]), body_sx(s[2])]
    if k == "for":
        return [Atom("for"), s[1], list(s[2]), body_sx(s[3])]
    if k == "with":
        return [Atom("with"), s[1], s[2], body_sx(s[3])]
    if k == "macro":
        return [Atom("macro"), s[1], [list(p) for p in s[2]], body_sx(s[3])]
    if k == "call":
        return [Atom("call"), callee_sx(s[1]), list(s[2])]
    if k == "callblock":
        return [Atom("callblock"), s[1], callee_sx(s[2]), list(s[3]), body_sx(s[4])]
    if k == "caller":
        return [Atom("caller"), s[1]]
    if k == "include":
        return [Atom("include"), [[Atom(t[0]), t[1]] for t in s[1]], bool(s[2]), bool(s[3]), bool(s[4])]
    if k == "import":
        return [Atom("import"), [Atom(s[1][0]), s[1][1]], s[2], bool(s[3])]
    if k == "from":
        return [Atom("from"), [Atom(s[1][0]), s[1][1]], [list(p) for p in s[2]], bool(s[3])]
    if k == "modprobe":
        return [Atom("modprobe"), s[1], list(s[2])]
    if k == "modprint":
        return [Atom("modprint"), s[1]]
    if k == "nameprobe":
        return [Atom("nameprobe"), list(s[1])]
    if k == "block":
        return [Atom("block"), s[1], bool(s[2]), body_sx(s[3])]
    if k == "extends":
        return [Atom("extends"), [Atom(s[1][0]), s[1][1]]]
    if k == "fail":
        return [Atom("fail"), FAIL_CLASS[s[1]]]
    raise ValueError(k)


def stores_of(body):
    """names a template assigns anywhere (syntactic; only used to keep probes inside the model's domain)"""
    out = set()
    for s in body:
        k = s[0]
        if k == "set":
            out.add(s[1])
        elif k == "if":
            out |= stores_of(s[2])
        elif k in ("for", "with"):
            out.add(s[1])
            out |= stores_of(s[3])
        elif k == "block":
            out |= stores_of(s[3])
        elif k == "macro":
            out.add(s[1])
            out |= {p[0] for p in s[2]} | stores_of(s[3])
        elif k == "callblock":
            out.add(s[1])
            out |= stores_of(s[4])
        elif k == "import":
            out.add(s[2])
        elif k == "from":
            out |= {a for _, a in s[2]}
    return out


def fill_probes(body, names):
    out = []
    for s in body:
        k = s[0]
        if k == "probe" and s[2] is None:
            out.append(("probe", s[1], list(names)))
        elif k == "if":
            out.append(("if", s[1], fill_probes(s[2], names)))
        elif k in ("for", "with", "block"):
            out.append((k, s[1], s[2], fill_probes(s[3], names)))
        elif k == "macro":
            out.append(("macro", s[1], s[2], fill_probes(s[3], names)))
        elif k == "callblock":
            out.append(("callblock", s[1], s[2], s[3], fill_probes(s[4], names)))
        else:
            out.append(s)
    return out


class World:
    """envg: dict; templates: list of dict(name, ok, tplg, body); vars: dict name -> ('s', v) | ('t', template name)"""

    def __init__(self, envg, templates, vars, entry="main", strict=False):
        self.envg, self.templates, self.vars, self.entry, self.strict = envg, templates, vars, entry, strict

    def finish(self, pool=POOL):
        for t in self.templates:
            if t["ok"]:
                st = stores_of(t["body"])
                t["body"] = fill_probes(t["body"], [n for n in pool if n not in st])
        return self

    def sources(self):
        return {t["name"]: (src_of(t["body"]) if t["ok"] else "{% if %}") for t in self.templates}

    def request(self, mode):
        tpls = []
        for t in self.templates:
            tplg = [[k, v] for k, v in t["tplg"].items()]
            tpls.append([t["name"], Atom("ok"), tplg, body_sx(t["body"])] if t["ok"] else [t["name"], Atom("broken"), tplg])
        vars_ = [[k, [Atom(v[0]), v[1]]] for k, v in self.vars.items()]
        return [Atom("c05-run"), Atom(mode), self.entry, [[k, v] for k, v in self.envg.items()], vars_, tpls]

    def describe(self):
        return {"env_globals": self.envg, "template_globals": {t["name"]: t["tplg"] for t in self.templates if t["tplg"]},
                "render_vars": {k: (v[1] if v[0] == "s" else f"<Template {v[1]}>") for k, v in self.vars.items()},
                "templates": self.sources(), "entry": self.entry, "strict_undefined": self.strict}


# ------------------------------------------------------------------------------------------------------------------
# the real implementation
# ------------------------------------------------------------------------------------------------------------------

_LOOP = None


def arun(coro):
    global _LOOP
    if _LOOP is None:
        _LOOP = asyncio.new_event_loop()
    return _LOOP.run_until_complete(coro)


def shown(jinja2, v):
    if isinstance(v, jinja2.runtime.Macro):
        return "<Macro %r>" % v.name
    if isinstance(v, jinja2.environment.TemplateModule):
        return "<module>"
    if isinstance(v, jinja2.Undefined):
        return MISSING
    return str(v)


def make_env(jinja2, world, is_async):
    env = jinja2.Environment(loader=jinja2.DictLoader(world.sources()), enable_async=is_async,
                             undefined=jinja2.StrictUndefined if world.strict else jinja2.Undefined)
    env.globals.update(world.envg)
    for t in world.templates:       # "loaded with globals": get_template(name, globals=…) before anything renders
        if t["tplg"] and t["ok"]:
            env.get_template(t["name"], globals=dict(t["tplg"]))
    return env


def real_vars(env, world):
    return {k: (v[1] if v[0] == "s" else env.get_template(v[1])) for k, v in world.vars.items()}


class Real:
    """the real implementation on one template set: one Environment per (sync | async), built when first needed and kept
    for the later flavours (so cached default modules are reused across renders, as in a long-lived application)"""

    def __init__(self, jinja2, world):
        self.jinja2, self.world, self.envs = jinja2, world, {}

    def run(self, flavour):
        """flavour: render | generate | render_async | generate_async | make_module | make_module_async | module"""
        jinja2, world = self.jinja2, self.world
        is_async = flavour.endswith("async")
        try:
            if is_async not in self.envs:
                self.envs[is_async] = make_env(jinja2, world, is_async)
            env = self.envs[is_async]
            t = env.get_template(world.entry)
            data = real_vars(env, world)
            if flavour == "render":
                return ("out", t.render(**data), None)
            if flavour == "generate":
                pieces = []
                try:
                    for x in t.generate(**data):
                        pieces.append(x)
                except Exception as e:  # noqa
                    return ("err", type(e).__name__, "".join(pieces))
                return ("out", "".join(pieces), None)
            if flavour == "render_async":
                return ("out", arun(t.render_async(**data)), None)
            if flavour == "generate_async":
                pieces = []

                async def collect():
                    async for x in t.generate_async(**data):
                        pieces.append(x)
                try:
                    arun(collect())
                except Exception as e:  # noqa
                    return ("err", type(e).__name__, "".join(pieces))
                return ("out", "".join(pieces), None)
            if flavour == "make_module":
                m = t.make_module(data)
            elif flavour == "make_module_async":
                m = arun(t.make_module_async(data))
            else:
                m = t.module
            ex = sorted((k, shown(jinja2, v)) for k, v in m.__dict__.items() if k not in ("_body_stream", "__name__"))
            return ("out", str(m), ex)
        except Exception as e:  # noqa
            return ("err", type(e).__name__, None)


MODE_OF = {"render": "render", "generate": "render", "render_async": "render", "generate_async": "render",
           "make_module": "module-vars", "make_module_async": "module-vars", "module": "module"}


def canon_reply(part):
    """('out', text, exports, notes) | ('err', kind)"""
    if part[0] == "out":
        return ("out", part[1], sorted((k, v) for k, v in part[2]), [str(x) for x in part[3]])
    if part[0] == "err":
        return ("err", str(part[1]), part[2] if len(part) > 2 else "")
    return ("oom", part[1])


# ------------------------------------------------------------------------------------------------------------------
# generators
# ------------------------------------------------------------------------------------------------------------------

LEAF = [("probe", "b", None), ("macro", "show", [], [("probe", "m", None)])]

WHERE = ["none", "root-set", "root-blockset", "if-taken", "if-untaken", "set-after", "loop-var", "loop-set", "macro-param",
         "macro-param-unset", "macro-set", "macro-outer-set", "with-var", "with-set", "call-param", "loop-shadows-set",
         "if-in-loop", "block-after-root-set", "block-set", "scoped-block-in-loop", "scoped-block-after-root-set"]
SHADOW_LAYERS = ["envg", "tplg-main", "tplg-leaf", "render"]


def statement_under_test(kind, with_ctx, explicit, ignore):
    if kind == "include":
        return [("include", [("lit", "leaf")], False, with_ctx, ignore, explicit)]
    if kind == "include-list":
        return [("include", [("lit", "nope"), ("lit", "leaf")], True, with_ctx, ignore, explicit)]
    if kind == "import":
        return [("import", ("lit", "leaf"), "a1", with_ctx, explicit), ("modprint", "a1"), ("call", ("attr", "a1", "show"), [])]
    return [("from", ("lit", "leaf"), [("show", "sh0")], with_ctx, explicit), ("call", ("name", "sh0"), [])]


def place(where, stmts):
    x = "x"
    if where == "none":
        return stmts
    if where == "root-set":
        return [("set", x, "S", False)] + stmts
    if where == "root-blockset":
        return [("set", x, "B", True)] + stmts
    if where == "if-taken":
        return [("if", True, [("set", x, "I", False)])] + stmts
    if where == "if-untaken":
        return [("if", False, [("set", x, "I", False)])] + stmts
    if where == "set-after":
        return stmts + [("set", x, "late", False)]
    if where == "loop-var":
        return [("for", x, ["L1", "L2"], stmts)] + stmts
    if where == "loop-set":
        return [("for", "i", ["1"], [("set", x, "LS", False)] + stmts)] + stmts
    if where == "macro-param":
        return [("macro", "m1", [(x,)], stmts), ("call", ("name", "m1"), ["A"])]
    if where == "macro-param-unset":
        return [("macro", "m1", [(x,)], stmts), ("call", ("name", "m1"), [])]
    if where == "macro-set":
        return [("macro", "m1", [], [("set", x, "MS", False)] + stmts), ("call", ("name", "m1"), [])]
    if where == "macro-outer-set":
        return [("macro", "m1", [], stmts), ("set", x, "OS", False), ("call", ("name", "m1"), [])]
    if where == "with-var":
        return [("with", x, "W", stmts)] + stmts
    if where == "with-set":
        return [("with", "w", "0", [("set", x, "WS", False)] + stmts)] + stmts
    if where == "call-param":
        return [("macro", "m1", [], [("caller", "C")]), ("callblock", x, ("name", "m1"), [], stmts)]
    if where == "loop-shadows-set":
        return [("set", x, "S", False), ("for", x, ["L1"], stmts)] + stmts
    if where == "if-in-loop":
        return [("for", "i", ["1", "2"], [("if", True, [("set", x, "IL", False)])] + stmts)]
    if where == "block-after-root-set":     # only context.get_all() carries x into the block function
        return [("set", x, "S", False), ("block", "b1", False, stmts)]
    if where == "block-set":
        return [("block", "b1", False, [("set", x, "BS", False)] + stmts)]
    if where == "scoped-block-in-loop":
        return [("for", x, ["L1", "L2"], [("block", "b1", True, stmts)])]
    if where == "scoped-block-after-root-set":
        return [("set", x, "S", False), ("block", "b1", True, stmts)]
    raise ValueError(where)


def small_scope(ctx):
    """statement kind x context flag x where the local is defined x shadowing pattern (exhaustive)"""
    kinds = ["include", "import", "from", "include-list"]
    flags = [(True, False), (True, True), (False, True), (False, False)]   # (with_ctx, written explicitly)
    patterns = [c for r in range(len(SHADOW_LAYERS) + 1) for c in itertools.combinations(SHADOW_LAYERS, r)]
    if ctx.quick:
        patterns = [p for i, p in enumerate(patterns) if i in (0, 2, 4, 9, 15)]
    pool = ["x", "y", "u"]
    for kind in kinds:
        for with_ctx, explicit in flags:
            inc = kind.startswith("include")
            if (with_ctx, explicit) == (False, False) and inc:
                continue        # an include without a flag is `with context`
            if (with_ctx, explicit) == (True, False) and not inc:
                continue        # an import without a flag is `without context`
            for ignore in ([False, True] if inc else [False]):
                for where in WHERE:
                    for pat in patterns:
                        main = place(where, statement_under_test(kind, with_ctx, explicit, ignore))
                        envg = {"x": "E"} if "envg" in pat else {}
                        w = World(envg, [
                            dict(name="main", ok=True, tplg={"x": "GM", "y": "GY"} if "tplg-main" in pat else {}, body=main),
                            dict(name="leaf", ok=True, tplg={"x": "GL"} if "tplg-leaf" in pat else {}, body=list(LEAF)),
                        ], {"x": ("s", "R")} if "render" in pat else {})
                        w.finish(pool)
                        yield ("small", (kind, with_ctx, explicit, ignore, where, pat)), w


EXPORT_EVENTS = ["set-x", "set-_y", "blockset-x", "macro-x", "import-x", "from-x", "from-_y", "if-taken-set-x",
                 "if-untaken-set-x", "if-taken-import-x", "loop-set-x", "with-set-x", "loop-import-x", "with-from-x"]


def export_event(ev, i):
    v = f"S{i}"
    return {
        "set-x": [("set", "x", v, False)],
        "set-_y": [("set", "_y", v, False)],
        "blockset-x": [("set", "x", v, True)],
        "macro-x": [("macro", "x", [], [("text", "M")])],
        "import-x": [("import", ("lit", "leaf"), "x", False, False)],
        "from-x": [("from", ("lit", "leaf"), [("show", "x")], False, False)],
        "from-_y": [("from", ("lit", "leaf"), [("show", "_y")], False, False)],
        "if-taken-set-x": [("if", True, [("set", "x", v, False)])],
        "if-untaken-set-x": [("if", False, [("set", "x", v, False)])],
        "if-taken-import-x": [("if", True, [("import", ("lit", "leaf"), "x", True, True)])],
        "loop-set-x": [("for", "i", ["1"], [("set", "x", v, False)])],
        "with-set-x": [("with", "w", "0", [("set", "x", v, False)])],
        "loop-import-x": [("for", "i", ["1"], [("import", ("lit", "leaf"), "x", False, False)])],
        "with-from-x": [("with", "w", "0", [("from", ("lit", "leaf"), [("show", "x")], False, False)])],
    }[ev]


def export_scope(ctx, rng):
    """every sequence of top-level binding events of a module (exhaustive up to length 2 / 3), observed through
    import + attribute probes, from-import, and the Python API (make_module / module) on the module itself"""
    seqs = [c for r in range(0, 3) for c in itertools.product(EXPORT_EVENTS, repeat=r)]
    triples = list(itertools.product(EXPORT_EVENTS, repeat=3))
    seqs += rng.sample(triples, 80) if ctx.quick else triples
    leaf = [("macro", "show", [], [("text", "L")]), ("set", "v", "LV", False)]
    main = [("import", ("lit", "lib"), "m", False, False), ("modprobe", "m", ["x", "_y", "i", "w"]),
            ("from", ("lit", "lib"), [("x", "fx")], False, False), ("nameprobe", ["fx"]),
            ("import", ("lit", "lib"), "n", True, True), ("modprobe", "n", ["x", "_y"])]
    for seq in seqs:
        lib = [st for i, ev in enumerate(seq) for st in export_event(ev, i)]
        for entry in ("main", "lib"):
            w = World({}, [dict(name="main", ok=True, tplg={}, body=list(main)), dict(name="lib", ok=True, tplg={}, body=lib),
                           dict(name="leaf", ok=True, tplg={}, body=list(leaf))], {}, entry=entry)
            yield ("exports", (entry,) + tuple(seq)), w


SHOW_LIB = [("macro", "show", [], [("probe", "m", None)]), ("probe", "b", None)]


def faces_scope():
    """the three replays of F16 (fixed by 1454414), kept as productions of their own: a recurrence is reported under the
    finding's key with this input"""
    use = [("import", ("lit", "lib"), "l", False, False), ("call", ("attr", "l", "show"), []), ("modprint", "l"),
           ("from", ("lit", "lib"), [("show", "sh0")], False, False), ("call", ("name", "sh0"), [])]
    for is_async in (False, True):
        yield ("face", (F16_KEY, is_async)), World({}, [
            dict(name="main", ok=True, tplg={"g": "GLOBAL"}, body=list(use)),
            dict(name="lib", ok=True, tplg={}, body=list(SHOW_LIB))], {"g": ("s", "LOCAL")}).finish(["g", "u"])
        yield ("face", (F16B_KEY, is_async)), World({}, [
            dict(name="main", ok=True, tplg={}, body=[("include", [("lit", "B")], False, True, False, False),
                                                     ("for", "i", ["1"], [("include", [("lit", "B")], False, True, False, True)])]),
            dict(name="B", ok=True, tplg={"g": "GB"}, body=list(use)),
            dict(name="lib", ok=True, tplg={}, body=list(SHOW_LIB))], {}).finish(["g", "u"])
        yield ("face", (F16C_KEY, is_async)), World({}, [
            dict(name="main", ok=True, tplg={"g": "G"}, body=[("block", "b", True, list(use)),
                                                             ("for", "i", ["1"], [("block", "c", True, list(use))])]),
            dict(name="lib", ok=True, tplg={}, body=list(SHOW_LIB))], {}).finish(["g", "u"])


GUARD_FAILS = ["include", "include-list", "import", "from", "extends", "undefined-call", "strict-undefined", "zero-division"]


def failing_stmt(kind):
    return {
        "include": [("include", [("lit", "nope")], False, True, False, False)],
        "include-list": [("include", [("lit", "nope"), ("lit", "nope2")], True, True, False, False)],
        "import": [("import", ("lit", "nope"), "a1", False, False)],
        "from": [("from", ("lit", "nope"), [("show", "sh0")], False, False)],
        "extends": [("extends", ("lit", "nope"))],
    }.get(kind) or [("fail", kind)]


def guard_scope():
    """`ignore missing` guards the lookup only: an EXISTING target that fails while it renders (hard include / import /
    from-import / extends of a missing name, TemplatesNotFound from a list, UndefinedError, ZeroDivisionError), directly
    or one include deeper, text before and after; the exception must come out of the ignore-missing include"""
    for fail in GUARD_FAILS:
        for depth in (1, 2):
            for form in ("name", "list", "var"):
                for with_ctx in (True, False):
                    targets = {"name": [("lit", "partial")], "list": [("lit", "nope"), ("lit", "partial")],
                               "var": [("var", "tva")]}[form]
                    main = [("text", "["), ("include", targets, form == "list", with_ctx, True, not with_ctx), ("text", "]END")]
                    inner = [("text", "I1|")] + failing_stmt(fail) + [("text", "|I2")]
                    if depth == 1:
                        tpls = [("partial", [("text", "P1|")] + failing_stmt(fail) + [("text", "|P2")])]
                    else:       # the failing template is itself reached through an ignore-missing include
                        tpls = [("partial", [("text", "P1|"), ("include", [("lit", "inner")], False, True, True, False),
                                             ("text", "|P2")]), ("inner", inner)]
                    w = World({}, [dict(name="main", ok=True, tplg={}, body=main)] +
                              [dict(name=n, ok=True, tplg={}, body=b) for n, b in tpls],
                              {"tva": ("s", "partial")}, strict=(fail == "strict-undefined"))
                    yield ("guard", (fail, depth, form, with_ctx)), w


class TplGen:
    """random body for template number `idx`; may include / import only templates with a larger number (acyclic)"""

    def __init__(self, rng, idx, names, info, has_bad):
        self.rng, self.idx, self.names, self.info, self.has_bad = rng, idx, names, info, has_bad
        self.counter = 0
        self.macros = []        # (name, nparams, uses_caller) defined so far at top level
        self.own_macro_names = set()
        self.nblocks = 0

    def val(self, tag):
        self.counter += 1
        return f"{tag}{self.idx}{self.counter}"

    def name(self):
        return self.rng.choice(POOL + EXTRA) if self.rng.random() < 0.85 else self.rng.choice(EXTRA)

    def target(self, allow_missing):
        rng = self.rng
        higher = self.names[self.idx + 1:]
        r = rng.random()
        if not higher:
            return ("lit", "nope")
        if r < 0.12:
            return ("var", rng.choice(["tva", "tvb"]))
        if allow_missing and r < 0.2:
            return ("lit", "nope") if rng.random() < 0.7 or not self.has_bad else ("lit", "bad")
        if allow_missing and r < 0.23:
            return ("var", "tvu")
        return ("lit", rng.choice(higher))

    def target_name(self, t, world_vars):
        if t[0] == "lit":
            return t[1]
        v = world_vars.get(t[1])
        return v[1] if v else None

    def flags(self, default_with):
        r = self.rng.random()
        if r < 0.45:
            return default_with, False
        return (r < 0.75), True

    def body(self, budget, depth, scope, world_vars):
        rng = self.rng
        out = []
        n = rng.randint(1, max(1, budget))
        for _ in range(n):
            out += self.stmt(depth, scope, world_vars)
        return out

    def stmt(self, depth, scope, world_vars):
        rng = self.rng
        top = scope["top"]
        choices = ["set"] * 6 + ["probe"] * 2
        if self.names[self.idx + 1:]:
            choices += ["include"] * 9 + ["import"] * 5 + ["from"] * 4
        if depth < 3:
            choices += ["if"] * 3 + ["for"] * 3 + ["with"] * 3
            if scope.get("blocks_ok", True) and self.nblocks < 3:
                choices += ["block"] * 3
        if top and depth == 0 or (top and scope.get("in_if")):
            choices += ["macro"] * 4
        if scope["macros"]:
            choices += ["call"] * 4 + ["callblock"] * 2
        if scope["aliases"]:
            choices += ["moduse"] * 6
        if scope["fromnames"]:
            choices += ["fromuse"] * 3
        if scope.get("caller"):
            choices += ["caller"] * 3
        k = rng.choice(choices)
        if k == "set":
            x = self.name()
            self.unbind(scope, x)
            return [("set", x, self.val("S"), rng.random() < 0.2)]
        if k == "block":
            self.nblocks += 1
            sc = self.inner(scope)
            sc["blocks_ok"] = False
            # a block function sees the context only: names bound at top level so far
            sc["aliases"] = list(scope["root_aliases"])
            sc["fromnames"] = list(scope["root_fromnames"])
            return [("block", f"b{self.idx}{self.nblocks}", rng.random() < 0.5, self.body(3, depth + 1, sc, world_vars))]
        if k == "probe":
            return [("probe", f"p{self.idx}", None)]
        if k == "if":
            cond = rng.random() < 0.7
            sc = dict(scope, in_if=True)
            if not cond:        # what an untaken branch defines is not available afterwards
                sc = dict(self.inner(scope), top=scope["top"], in_if=True, root_aliases=list(scope["root_aliases"]),
                          root_fromnames=list(scope["root_fromnames"]))
            return [("if", cond, self.body(2, depth + 1, sc, world_vars))]
        if k == "for":
            sc = self.inner(scope)
            vals = [self.val("L") for _ in range(rng.choice([0, 1, 1, 2]))]
            x = self.name()
            self.unbind(sc, x)
            return [("for", x, vals, self.body(3, depth + 1, sc, world_vars))]
        if k == "with":
            sc = self.inner(scope)
            x = self.name()
            self.unbind(sc, x)
            return [("with", x, self.val("W"), self.body(3, depth + 1, sc, world_vars))]
        if k == "macro":
            free = [m for m in MACROS if m not in self.own_macro_names]
            if not free:
                return []
            m = rng.choice(free)
            self.own_macro_names.add(m)
            nparams = rng.choice([0, 1, 1, 2])
            params = []
            for p in rng.sample(POOL, nparams):
                params.append((p, self.val("D")) if rng.random() < 0.3 else (p,))
            params.sort(key=len)        # parameters with defaults come last
            uses_caller = rng.random() < 0.3
            sc = self.inner(scope)
            sc["caller"] = uses_caller
            sc["blocks_ok"] = False
            # a macro body sees only the root frame's names: aliases / macros defined at top level so far
            sc["aliases"] = list(scope["root_aliases"])
            sc["fromnames"] = list(scope["root_fromnames"])
            for p in params:
                self.unbind(sc, p[0])
            body = self.body(3, depth + 1, sc, world_vars)
            if uses_caller and not any(s[0] == "caller" for s in body):
                body.append(("caller", self.val("C")))
            scope["macros"].append((m, params, uses_caller))
            return [("macro", m, params, body)]
        if k in ("call", "callblock"):
            m, params, uses_caller = rng.choice(scope["macros"])
            args = [self.val("A") for _ in range(rng.randint(0, len(params)))]
            if uses_caller:
                sc = self.inner(scope)
                sc["caller"] = False
                sc["blocks_ok"] = False
                x = self.name()
                self.unbind(sc, x)
                return [("callblock", x, ("name", m), args, self.body(2, depth + 1, sc, world_vars))]
            return [("call", ("name", m), args)]
        if k == "caller":
            return [("caller", self.val("C"))]
        if k == "include":
            with_ctx, explicit = self.flags(True)
            ignore = rng.random() < 0.35
            if rng.random() < 0.25:
                ts = [self.target(True) for _ in range(rng.choice([1, 2, 2, 3]))]
                if not ignore and rng.random() < 0.9:
                    ts.append(("lit", rng.choice(self.names[self.idx + 1:] or ["nope"])))
                return [("include", ts, True, with_ctx, ignore, explicit)]
            return [("include", [self.target(ignore or rng.random() < 0.15)], False, with_ctx, ignore, explicit)]
        if k == "import":
            with_ctx, explicit = self.flags(False)
            t = self.target(rng.random() < 0.1)
            alias = rng.choice(ALIASES + ALIASES + EXTRA)      # sometimes a name that is also assigned with set
            self.unbind(scope, alias)
            self.bind_alias(scope, alias, self.target_name(t, world_vars))
            out = [("import", t, alias, with_ctx, explicit)]
            if rng.random() < 0.6:
                out += self.moduse(scope)
            return out
        if k == "from":
            with_ctx, explicit = self.flags(False)
            t = self.target(rng.random() < 0.1)
            tn = self.target_name(t, world_vars)
            inf = self.info.get(tn, {"macros": [], "exports": []})
            cands = [m[0] for m in inf["macros"]] + inf["exports"] + ["ex1", "show", "zz"]
            cands = [c for c in cands if not c.startswith("_")]
            names = []
            for c in rng.sample(cands, min(len(cands), rng.choice([1, 1, 2, 3]))):
                if c in [n for n, _ in names]:
                    continue
                alias = c if rng.random() < 0.5 else rng.choice(["f1", "f2", "_f3", "f1", "f2", "_f3"] + EXTRA)
                if alias in [a for _, a in names]:
                    continue
                self.unbind(scope, alias)
                names.append((c, alias))
                macro = next((m for m in inf["macros"] if m[0] == c), None)
                self.bind_from(scope, alias, macro)
            out = [("from", t, names, with_ctx, explicit)]
            if rng.random() < 0.7:
                out += self.fromuse(scope)
            return out
        if k == "moduse":
            return self.moduse(scope)
        if k == "fromuse":
            return self.fromuse(scope)
        raise ValueError(k)

    def inner(self, scope):
        return dict(scope, top=False, in_if=False, macros=list(scope["macros"]), aliases=list(scope["aliases"]),
                    fromnames=list(scope["fromnames"]))

    def unbind(self, scope, name):
        """the name is rebound to something else: forget what the generator knew about it"""
        scope["aliases"] = [a for a in scope["aliases"] if a[0] != name]
        scope["fromnames"] = [a for a in scope["fromnames"] if a[0] != name]
        if scope["top"]:
            scope["root_aliases"][:] = [a for a in scope["root_aliases"] if a[0] != name]
            scope["root_fromnames"][:] = [a for a in scope["root_fromnames"] if a[0] != name]

    def bind_alias(self, scope, alias, tn):
        scope["aliases"] = [a for a in scope["aliases"] if a[0] != alias] + [(alias, tn)]
        if scope["top"]:
            scope["root_aliases"][:] = [a for a in scope["root_aliases"] if a[0] != alias] + [(alias, tn)]

    def bind_from(self, scope, alias, macro):
        scope["fromnames"] = [a for a in scope["fromnames"] if a[0] != alias] + [(alias, macro)]
        if scope["top"]:
            scope["root_fromnames"][:] = [a for a in scope["root_fromnames"] if a[0] != alias] + [(alias, macro)]

    def moduse(self, scope):
        rng = self.rng
        alias, tn = rng.choice(scope["aliases"])
        inf = self.info.get(tn, {"macros": [], "exports": []})
        r = rng.random()
        if r < 0.35:
            return [("modprobe", alias, EXTRA + MACROS + rng.sample(POOL, 3))]
        if r < 0.55:
            return [("modprint", alias)]
        plain = [m for m in inf["macros"] if not m[2] and not m[0].startswith("_")]
        withc = [m for m in inf["macros"] if m[2] and not m[0].startswith("_")]
        if withc and rng.random() < 0.3:
            m = rng.choice(withc)
            sc = self.inner(scope)
            sc["caller"] = False
            sc["blocks_ok"] = False
            x = self.name()
            self.unbind(sc, x)
            return [("callblock", x, ("attr", alias, m[0]), [self.val("A") for _ in range(rng.randint(0, len(m[1])))],
                     self.body(2, 3, sc, {}))]
        if plain and rng.random() < 0.97:
            m = rng.choice(plain)
            return [("call", ("attr", alias, m[0]), [self.val("A") for _ in range(rng.randint(0, len(m[1])))])]
        return [("modprobe", alias, EXTRA + MACROS)]

    def fromuse(self, scope):
        rng = self.rng
        alias, macro = rng.choice(scope["fromnames"])
        if macro and not macro[2] and rng.random() < 0.7:
            return [("call", ("name", alias), [self.val("A") for _ in range(rng.randint(0, len(macro[1])))])]
        return [("nameprobe", [a for a, _ in scope["fromnames"]][:3])]


def cost_of(body, tcost, mcost, maxm):
    """an upper estimate of how many statements a body executes (includes multiply): keeps generated sets small"""
    c = 0
    for s in body:
        k = s[0]
        if k == "if":
            c += 1 + cost_of(s[2], tcost, mcost, maxm)
        elif k == "for":
            c += 1 + max(1, len(s[2])) * cost_of(s[3], tcost, mcost, maxm)
        elif k in ("with", "block"):
            c += 1 + cost_of(s[3], tcost, mcost, maxm)
        elif k == "macro":
            mcost[s[1]] = 1 + cost_of(s[3], tcost, mcost, maxm)
            c += 1
        elif k == "call":
            c += mcost.get(s[1][1], maxm) if s[1][0] == "name" else maxm
        elif k == "callblock":
            m = mcost.get(s[2][1], maxm) if s[2][0] == "name" else maxm
            c += m * (1 + cost_of(s[4], tcost, mcost, maxm))
        elif k in ("include", "import", "from"):
            c += 1 + max(tcost.values(), default=1)
        else:
            c += 1
    return c


def gen_template(rng, idx, names, info, has_bad, vars_, size):
    g = TplGen(rng, idx, names, info, has_bad)
    # tva / tvb may only be used by templates with a smaller number than the template they point to
    usable = {k for k, v in vars_.items() if k in ("tva", "tvb") and v[1] in names[idx + 1:] + ["nope"]}
    plain_target = g.target

    def target(allow_missing):
        t = plain_target(allow_missing)
        if t[0] == "var" and t[1] in ("tva", "tvb") and t[1] not in usable:
            return ("lit", rng.choice(names[idx + 1:])) if names[idx + 1:] else ("lit", "nope")
        return t
    g.target = target
    scope = dict(top=True, in_if=False, macros=[], aliases=[], fromnames=[], root_aliases=[], root_fromnames=[], caller=False)
    budget = 3 + size if idx == 0 else rng.randint(1, 2 + size // 2)
    body = [("probe", f"h{idx}", None)] + g.body(budget, 0, scope, vars_)
    if rng.random() < 0.5:
        body.append(("probe", f"e{idx}", None))
    exports = sorted({s[1] for s in body if s[0] == "set"})
    return body, {"macros": list(scope["macros"]), "exports": exports}


def random_world(rng, size):
    n = rng.randint(2, 2 + size)
    names = ["main"] + [f"t{i}" for i in range(1, n)]
    has_bad = rng.random() < 0.3
    vars_ = {}
    for p in POOL + EXTRA:
        if rng.random() < 0.3:
            vars_[p] = ("s", "R:" + p)
    vars_["tva"] = ("s", rng.choice(names[1:])) if rng.random() < 0.93 else ("s", "nope")
    vars_["tvb"] = ("t", rng.choice(names[1:]))
    info, templates, tcost, maxm = {}, {}, {}, 1
    for idx in range(n - 1, -1, -1):
        limit = 3000 if idx == 0 else 150
        for attempt in range(40):
            body, inf = gen_template(rng, idx, names, info, has_bad, vars_, size)
            mcost = {}
            c = cost_of(body, tcost, mcost, maxm)
            if c <= limit:
                break
        else:
            body, inf, mcost, c = [("probe", f"h{idx}", None)], {"macros": [], "exports": []}, {}, 1
        info[names[idx]] = inf
        tcost[names[idx]] = c
        maxm = max([maxm] + list(mcost.values()))
        tplg = {p: f"G{idx}:{p}" for p in POOL + EXTRA if rng.random() < (0.35 if idx == 0 else 0.15)}
        templates[idx] = dict(name=names[idx], ok=True, tplg=tplg, body=body)
    tl = [templates[i] for i in range(n)]
    if has_bad:
        tl.append(dict(name="bad", ok=False, tplg={}, body=[]))
    envg = {p: "E:" + p for p in POOL + EXTRA if rng.random() < 0.25}
    return World(envg, tl, vars_).finish(POOL + EXTRA)


# ------------------------------------------------------------------------------------------------------------------
# L-unit
# ------------------------------------------------------------------------------------------------------------------

UNAMES = ["a", "b", "c", "d"]


def rand_env(rng, tag, p=0.5):
    return {n: f"{tag}{n}" for n in UNAMES if rng.random() < p}


def env_sx(d):
    return [[k, v] for k, v in d.items()]


def dict_of(reply):
    return {k: v for k, v in reply}


def run_unit(ctx, res, jinja2):
    rng = ctx.rng("unit")
    runtime = jinja2.runtime
    reqs, checks = [], []
    n = ctx.pick(300, 3000)
    env = jinja2.Environment()
    env.globals.clear()
    for _ in range(n):
        g, v = rand_env(rng, "g"), rand_env(rng, "v")
        use_vars = rng.random() < 0.8
        shared = rng.random() < 0.5
        locs = {k: (f"l{k}" if rng.random() < 0.7 else runtime.missing) for k in UNAMES if rng.random() < 0.5}
        c = runtime.new_context(env, "t", {}, dict(v) if use_vars else None, shared, dict(g), locs or None)
        reqs.append([Atom("c05-unit"), Atom("newctx"), env_sx(g), env_sx(v) if use_vars else Atom("none"), shared,
                     [[k, x] if x is not runtime.missing else [k] for k, x in locs.items()]])
        checks.append(("new_context", (dict(c.parent), sorted(c.globals_keys)),
                       lambda r: (dict_of(r[0]), sorted(r[1])), dict(globals=g, vars=v if use_vars else None, shared=shared,
                                                                     locals={k: str(x) for k, x in locs.items()})))
        # get_all
        p, vv = rand_env(rng, "p", 0.4), rand_env(rng, "w", 0.4)
        c2 = runtime.Context(env, dict(p), "t", {})
        c2.vars.update(vv)
        reqs.append([Atom("c05-unit"), Atom("getall"), env_sx(p), env_sx(vv)])
        checks.append(("get_all", dict(c2.get_all()), dict_of, dict(parent=p, vars=vv)))
        # exported_vars bookkeeping, as the generated code performs it
        c3 = runtime.Context(env, {}, "t", {})
        binds = []
        for _ in range(rng.randrange(0, 6)):
            nm = rng.choice(["a", "b", "_c"])
            val = f"x{len(binds)}"
            if rng.random() < 0.6:
                c3.vars[nm] = val
                if nm[:1] != "_":
                    c3.exported_vars.add(nm)
                binds.append([Atom("assign"), nm, val])
            else:
                c3.vars[nm] = val
                if not nm.startswith("_"):
                    c3.exported_vars.discard(nm)
                binds.append([Atom("imported"), nm, val])
        reqs.append([Atom("c05-unit"), Atom("exports"), binds])
        checks.append(("get_exported", (c3.get_exported(), dict(c3.vars)), lambda r: (dict_of(r[0]), dict_of(r[1])),
                       dict(binds=core.sx(binds))))
    # _get_default_module / include / import on real Template objects; the target prints its whole context
    names = UNAMES
    leaf_src = "".join("%s={{ %s|default('~') }};" % (k, k) for k in names)
    for _ in range(ctx.pick(200, 2000)):
        envg, srcg, tgtg, rv = rand_env(rng, "e", 0.3), rand_env(rng, "s", 0.4), rand_env(rng, "t", 0.3), rand_env(rng, "r", 0.4)
        kind = rng.choice(["include", "import"])
        wc = rng.random() < 0.5
        is_async = rng.random() < 0.3
        e = jinja2.Environment(loader=jinja2.DictLoader({"leaf": leaf_src}), enable_async=is_async)
        e.globals.clear()
        e.globals.update(envg)
        leaf = e.get_template("leaf", globals=dict(tgtg))
        src_t = e.from_string("", globals=dict(srcg))
        cvars = rand_env(rng, "c", 0.3)
        locs = {k: (f"l{k}" if rng.random() < 0.7 else runtime.missing) for k in names if rng.random() < 0.4}
        sctx = src_t.new_context(dict(rv))
        sctx.vars.update(cvars)
        try:
            if wc:
                tctx = leaf.new_context(sctx.get_all(), True, locs)
                got = "".join(arun(_collect(leaf.root_render_func(tctx)))) if is_async else "".join(leaf.root_render_func(tctx))
                cached = False
            elif kind == "include":
                m = arun(leaf._get_default_module_async()) if is_async else leaf._get_default_module()
                got, cached = str(m), m is leaf._module
            else:
                m = arun(leaf._get_default_module_async(sctx)) if is_async else leaf._get_default_module(sctx)
                got, cached = str(m), m is leaf._module
        except KeyError:
            got, cached = "KeyError", None
        parent = dict(sctx.parent)
        # `_globals` (1454414); a tree without it is given what the contract says: the importing template's globals
        cglobals = dict(getattr(sctx, "_globals", None) or {**envg, **srcg})
        reqs.append([Atom("c05-unit"), Atom("target"), env_sx(parent), env_sx(cvars), sorted(sctx.globals_keys),
                     env_sx(cglobals), [[k, x] if x is not runtime.missing else [k] for k, x in locs.items()],
                     env_sx({**envg, **tgtg}), Atom(kind), wc])

        def conv(r, names=names):
            if r == "KeyError":
                return ("KeyError", None)
            d = dict_of(r[0][0])
            return ("".join("%s=%s;" % (k, d.get(k, "~")) for k in names), r[1])
        checks.append(("target_context", (got, cached), conv,
                       dict(kind=kind, with_context=wc, env_globals=envg, importer_globals=srcg, target_globals=tgtg,
                            render_vars=rv, context_vars=cvars, locals={k: str(x) for k, x in locs.items()}, is_async=is_async)))
    # Context.derived (scoped blocks): parent, globals_keys and _globals of the derived context
    for _ in range(ctx.pick(100, 1000)):
        g, rv, cv = rand_env(rng, "g", 0.4), rand_env(rng, "r", 0.4), rand_env(rng, "c", 0.3)
        locs = {k: (f"l{k}" if rng.random() < 0.7 else runtime.missing) for k in UNAMES if rng.random() < 0.4}
        c = runtime.new_context(env, "t", {}, dict(rv), False, dict(g), None)
        c.vars.update(cv)
        d = c.derived(dict(locs))
        reqs.append([Atom("c05-unit"), Atom("derived"), env_sx(dict(c.parent)), env_sx(cv), sorted(c.globals_keys), env_sx(g),
                     [[k, x] if x is not runtime.missing else [k] for k, x in locs.items()]])
        checks.append(("derived", (dict(d.parent), sorted(d.globals_keys), dict(getattr(d, "_globals", {}))),
                       lambda r: (dict_of(r[0][0]), sorted(r[0][1]), dict_of(r[1])),
                       dict(globals=g, render_vars=rv, context_vars=cv, locals={k: str(x) for k, x in locs.items()})))
    # which template an include statement renders
    opts = ["found-a", "found-b", "notfound", "undefined", "broken", "obj"]
    combos = [c for r in range(0, ctx.pick(3, 4)) for c in itertools.product(opts, repeat=r)]
    for combo in combos:
        for is_list in (True, False):
            if not is_list and len(combo) != 1:
                continue
            for ignore in (False, True):
                e = jinja2.Environment(loader=jinja2.DictLoader({"a": "A", "b": "B", "o": "O", "bad": "{% if %}"}))
                obj = e.get_template("o")
                real_items = [{"found-a": "a", "found-b": "b", "notfound": "zz", "undefined": e.undefined(name="q"),
                               "broken": "bad", "obj": obj}[c] for c in combo]
                sx_items = [{"found-a": [Atom("found"), "a"], "found-b": [Atom("found"), "b"], "notfound": Atom("notfound"),
                             "undefined": Atom("undefined"), "broken": Atom("broken"), "obj": [Atom("obj"), "o"]}[c] for c in combo]
                src = "{% include x" + (" ignore missing" if ignore else "") + " %}"
                try:
                    out = e.from_string(src).render(x=real_items if is_list else real_items[0])
                    got = {"A": "a", "B": "b", "O": "o", "": "skip"}[out]
                except Exception as ex:  # noqa
                    got = "err:" + type(ex).__name__
                reqs.append([Atom("c05-unit"), Atom("resolve"), sx_items, is_list, ignore])
                checks.append(("include_resolve", got, None, dict(items=list(combo), list=is_list, ignore_missing=ignore)))
    replies = core.driver_batch(reqs)
    counts = {}
    for (what, got, conv, case), rep in zip(checks, replies):
        counts[what] = counts.get(what, 0) + 1
        if what == "include_resolve":
            want = ("err:" + str(rep[1])) if rep[0] == "err" else str(rep[1])
        elif rep[0] == "err":
            want = conv(str(rep[1]))
        else:
            want = conv(rep[1])
        if got != want:
            res.violate(f"C05:unit:{what}", f"real {what} gives {got!r}, model {want!r} for {case}",
                        {"layer": "L-unit", "what": what, "case": case, "real": repr(got), "model": repr(want)}, no_input=True)
    return counts


async def _collect(agen):
    return [x async for x in agen]


# ------------------------------------------------------------------------------------------------------------------
# L-e2e
# ------------------------------------------------------------------------------------------------------------------

def key_for(tag, world_case, flavour):
    if tag[0] == "small":
        kind, with_ctx, explicit, ignore, where, pat = tag[1]
        return f"C05:{kind}:{'with' if with_ctx else 'without'}-context:{where}"
    if tag[0] == "exports":
        return f"C05:module-exports:{flavour}"
    if tag[0] == "face":
        return tag[1][0]
    if tag[0] == "guard":
        return f"C05:ignore-missing:swallows-error-inside-target:{tag[1][0]}"
    return f"C05:random:{flavour}"


def check_world(jinja2, res, tag, world, flavours, stats, replies_by_mode):
    real = Real(jinja2, world)
    for flavour in flavours:
        rep = replies_by_mode[MODE_OF[flavour]]
        if rep[0] == "oom":
            stats["oom"] += 1
            stats["oom_why"][str(rep[1])] = stats["oom_why"].get(str(rep[1]), 0) + 1
            continue
        parts = {str(p[0]): canon_reply(p[1]) for p in rep[1]}
        impl, spec = parts["impl"], parts["spec"]
        got = real.run(flavour)
        stats["evaluations"] += 1
        with_exports = got[2] is not None

        def same(model):
            if model[0] == "err":     # generate / generate_async also show the text produced before the exception
                return got[0] == "err" and got[1] == model[1] and (got[2] is None or got[2] == model[2])
            if model[0] != "out" or got[0] != "out" or got[1] != model[1]:
                return False
            return not with_exports or got[2] == model[2]
        case = dict(world.describe(), flavour=flavour, real=list(got), model=list(impl), documented=list(spec), case=repr(tag))
        if impl[0] == "err":
            stats["errors"][impl[1]] = stats["errors"].get(impl[1], 0) + 1
        if same(impl):
            if impl != spec and not (impl[0] == "out" and spec[0] == "out" and impl[1] == spec[1] and
                                     (not with_exports or impl[2] == spec[2])) and not (
                    impl[0] == "err" and spec[0] == "err" and impl[:2] == spec[:2] and got[2] is None):
                notes = impl[3] if impl[0] == "out" else []
                keys = list(notes) or ([F16B_KEY] if impl[:2] == ("err", "KeyError") else ["C05:model-differs-from-documentation"])
                stats["divergent"] += 1
                for k in keys:
                    res.violate(k, f"{flavour}: the code prints {got[1]!r} (as transcribed); the documentation implies "
                                   f"{spec[1]!r}", case)
            continue
        # the real code left the transcription: the documentation decides
        if same(spec):
            res.violate(key_for(tag, world, flavour) + ":transcription-stale",
                        f"{flavour}: real output {got[1]!r} differs from the transcription {impl[1]!r} but equals the "
                        f"documented behaviour", dict(case, layer="L-e2e"), no_input=True)
        else:
            extra = ""
            if with_exports and got[:2] == spec[:2]:
                extra = (f"; the module's public attributes are {got[2]!r}, documented {spec[2]!r} "
                         "(exactly the public top-level macros and assignments)")
            res.violate(key_for(tag, world, flavour),
                        f"{flavour}: real {got[:2]!r}, transcription {impl[:2]!r}, documented {spec[:2]!r}" + extra, case)


def run(ctx, res):
    jinja2 = core.import_jinja()
    stats = {"evaluations": 0, "oom": 0, "oom_why": {}, "errors": {}, "divergent": 0}
    unit_counts = run_unit(ctx, res, jinja2)

    cases = list(faces_scope())
    cases += list(guard_scope())
    cases += list(small_scope(ctx))
    cases += list(export_scope(ctx, ctx.rng("exports")))
    n_small = len(cases)
    rng = ctx.rng("random")
    for i in range(ctx.pick(160, 4000)):
        cases.append((("random", i), random_world(rng, rng.choice([1, 2, 2, 3, 4]))))
    all_flavours = ["render", "generate", "render_async", "generate_async", "make_module", "make_module_async", "module"]
    reqs, index = [], []
    for tag, w in cases:
        for mode in ("render", "module-vars", "module"):
            reqs.append(w.request(mode))
    replies = core.driver_batch(reqs)
    distinct, sizes, kinds = set(), {}, {}
    for ci, (tag, w) in enumerate(cases):
        by_mode = {m: replies[3 * ci + j] for j, m in enumerate(("render", "module-vars", "module"))}
        if tag[0] == "face":
            flavours = ["render_async", "generate_async"] if tag[1][1] else ["render", "generate"]
        elif tag[0] == "guard":
            flavours = ["render", "generate", "render_async", "generate_async"]
        elif tag[0] == "exports":
            flavours = ["make_module", "module", "make_module_async"] if w.entry == "lib" else \
                (["render", "render_async"] if not ctx.quick else [["render"], ["render_async"]][ci % 2])
        elif tag[0] == "small" and ctx.quick:     # one environment per small-scope case in the quick tier
            flavours = [["render", "make_module"], ["render_async"], ["generate", "module"], ["generate_async", "make_module_async"]][ci % 4]
        else:
            flavours = all_flavours
        check_world(jinja2, res, tag, w, flavours, stats, by_mode)
        srcs = w.sources()
        distinct.add(tuple(sorted(srcs.items())) + tuple(sorted(w.envg)) + tuple(sorted(w.vars)))
        if tag[0] == "random":
            sizes[len(w.templates)] = sizes.get(len(w.templates), 0) + 1
            for t in w.templates:
                count_kinds(t["body"], kinds)
    lcode = run_lcode(ctx, res, jinja2, cases)
    stats["evaluations"] += sum(unit_counts.values()) + lcode["statements"]
    res.coverage.update({
        "evaluations": stats["evaluations"],
        "distinct_nontrivial": len(distinct),
        "rule": ("the three F16 replays; ignore-missing guard: 8 failures inside an existing target x depth 1-2 x name/list/variable "
                 "target x with/without context; small scope (exhaustive): statement kind (include / include of a list / import-as / from-import) x context flag "
                 "(default, explicit with, explicit without) x ignore missing x where the local is defined (21 places: root set, "
                 "block set, taken/untaken if, set after the statement, loop variable, set in a loop, macro parameter given / not "
                 "given, set in a macro, set after the macro definition, with variable, set in a with, call-block parameter, loop "
                 "variable shadowing a set, if inside a loop, unscoped / scoped block after a root set, set in a block, scoped "
                 "block in a loop) x which of env globals / main's template globals / the target's template globals / render "
                 "variables also bind the name (all 16 subsets thorough, 5 quick); module exports: every sequence of <=2 (quick, "
                 "+80 of length 3) / <=3 (thorough) events out of 14 top-level binding events, seen through import, from-import "
                 "and make_module/module; random: acyclic template sets of 2-6 templates with nested statements; every template "
                 "prints probes for the names it does not assign; a case is non-trivial when its set of template sources + bound "
                 "layers is new"),
        "exhaustive_small_scope": n_small,
        "random_sets": len(cases) - n_small,
        "samples": [cases[0][1].describe(), cases[13][1].describe(), cases[-1][1].describe()],
        "out_of_model": stats["oom"], "out_of_model_reasons": stats["oom_why"],
        "model_error_kinds": stats["errors"],
        "cases_where_transcription_differs_from_documentation": stats["divergent"],
        "random_set_sizes": sizes, "statement_kinds_in_random_sets": kinds,
        "unit": unit_counts, "lcode": lcode,
    })
    if stats["oom"] > 0.1 * max(1, stats["evaluations"]):
        raise core.HarnessError(f"generator drifted: {stats['oom']} out-of-model cases: {stats['oom_why']}")


def count_kinds(body, kinds):
    for s in body:
        k = s[0]
        if k in ("include", "import", "from"):
            k = k + (":with" if s[3] else ":without")
        kinds[k] = kinds.get(k, 0) + 1
        for sub in s[1:]:
            if isinstance(sub, list) and sub and isinstance(sub[0], tuple) and isinstance(sub[0][0], str) and \
                    sub[0][0] in ("text", "probe", "set", "if", "for", "with", "macro", "call", "callblock", "caller", "include",
                                  "import", "from", "modprobe", "modprint", "nameprobe", "block"):
                count_kinds(sub, kinds)


# ------------------------------------------------------------------------------------------------------------------
# L-code: what the compiler emits for include / import
# ------------------------------------------------------------------------------------------------------------------

def compile_raw(jinja2, src, is_async):
    return jinja2.Environment(enable_async=is_async).compile(src, name="t", raw=True)


def emitted_calls(code):
    """[(kind, function, shared-args as source, sorted locals keys or None)] in source order"""
    tree = ast.parse(code)
    found = []
    for node in ast.walk(tree):
        if not isinstance(node, ast.Call) or not isinstance(node.func, ast.Attribute):
            continue
        f = node.func.attr
        if f == "new_context" and isinstance(node.func.value, ast.Name) and node.func.value.id == "template":
            found.append((node.lineno, node.col_offset, "include", f, node.args))
        elif f in ("make_module", "make_module_async", "_get_default_module", "_get_default_module_async"):
            recv = node.func.value
            kind = "include" if isinstance(recv, ast.Name) and recv.id == "template" else "import"
            found.append((node.lineno, node.col_offset, kind, f, node.args))
    out = []
    for _, _, kind, f, args in sorted(found, key=lambda x: (x[0], x[1])):
        shape = [ast.unparse(a) if not isinstance(a, ast.Dict) else "LOCALS" for a in args]
        keys = None
        for a in args:
            if isinstance(a, ast.Dict):
                keys = sorted(k.value for k in a.keys)
        out.append((kind, f, shape, keys))
    return out


LOOKUPS = ("get_template", "select_template", "get_or_select_template")
RENDERS = ("new_context", "_get_default_module", "_get_default_module_async")


def emitted_guards(code):
    """for every `template = environment.<lookup>(…)` an include compiles to, in the order of the generated module: the lookup
    function and the shape of the enclosing try statement: ('plain',) or
    ('try', [what the try body holds], [(caught class, [handler statements])], where the target is rendered, has finally)"""
    tree = ast.parse(code)
    out = []

    def renders(stmts):
        return any(isinstance(n, ast.Call) and isinstance(n.func, ast.Attribute) and n.func.attr in RENDERS
                   for st in stmts for n in ast.walk(st))

    def visit(node, parent, field):
        if isinstance(node, ast.Assign) and len(node.targets) == 1 and isinstance(node.targets[0], ast.Name) \
                and node.targets[0].id == "template" and isinstance(node.value, ast.Call) \
                and isinstance(node.value.func, ast.Attribute) and node.value.func.attr in LOOKUPS:
            if isinstance(parent, ast.Try) and field == "body":
                shape = ("try", ["lookup" if st is node else type(st).__name__ for st in parent.body],
                         [(ast.unparse(h.type) if h.type is not None else "BARE", [type(x).__name__ for x in h.body])
                          for h in parent.handlers],
                         "else" if renders(parent.orelse) else "body" if renders(parent.body) else "elsewhere",
                         bool(parent.finalbody))
            else:
                shape = ("plain",)
            out.append((node.lineno, node.value.func.attr, shape))
        for f, value in ast.iter_fields(node):
            if isinstance(value, list):
                for child in value:
                    if isinstance(child, ast.AST):
                        visit(child, node, f)
            elif isinstance(value, ast.AST):
                visit(value, node, f)
    visit(tree, None, None)
    return [(f, shape) for _, f, shape in sorted(out)]


def expected_guards(body, model_guard):
    """(lookup function, try shape) the model stands for, per include, in the order of the generated module"""
    blocks, out = [], []

    def walk(body):
        for s in body:
            k = s[0]
            if k == "include":
                f = "select_template" if s[2] else "get_template" if s[1][0][0] == "lit" else "get_or_select_template"
                out.append((f, model_guard if s[4] else ("plain",)))
            elif k == "if":
                walk(s[2])
            elif k in ("for", "with", "macro"):
                walk(s[3])
            elif k == "callblock":
                walk(s[4])
            elif k == "block":
                blocks.append(s[3])
    walk(body)
    i = 0
    while i < len(blocks):
        walk(blocks[i])
        i += 1
    return out


def expected_calls(body, is_async):
    """the calls the transcription (Model/CtxFlow.targetCtx) stands for, in the order of the generated module (the root
    function, then one function per block); locals keys come from the Lean side (request c05-locals)"""
    blocks = []

    def walk(body):
        out = []
        for s in body:
            k = s[0]
            if k == "include":
                if s[3]:
                    out.append(("include", "new_context", ["context.get_all()", "True", "LOCALS"]))
                else:
                    out.append(("include", "_get_default_module" + ("_async" if is_async else ""), []))
            elif k in ("import", "from"):
                if s[3]:
                    out.append(("import", "make_module" + ("_async" if is_async else ""), ["context.get_all()", "True", "LOCALS"]))
                else:
                    out.append(("import", "_get_default_module" + ("_async" if is_async else ""), ["context"]))
            elif k == "if":
                out += walk(s[2])
            elif k in ("for", "with", "macro"):
                out += walk(s[3])
            elif k == "callblock":
                out += walk(s[4])
            elif k == "block":
                blocks.append(s[3])
        return out
    out = walk(body)
    i = 0
    while i < len(blocks):      # blocks do not nest in generated sets, but keep the order of discovery anyway
        out += walk(blocks[i])
        i += 1
    return out


def run_lcode(ctx, res, jinja2, cases):
    total, templates = 0, 0
    seen = set()
    reqs, metas = [], []
    for tag, w in cases:
        for t in w.templates:
            if not t["ok"]:
                continue
            src = src_of(t["body"])
            if src in seen:
                continue
            seen.add(src)
            reqs.append([Atom("c05-locals"), body_sx(t["body"])])
            metas.append((tag, t, src))
    replies = core.driver_batch(reqs)
    g = core.driver_batch([[Atom("c05-guard")]])[0][1]
    model_guard = ("try", [str(x) for x in g[0]], [(str(h[0]), [str(x) for x in h[1]]) for h in g[1]], str(g[2]), bool(g[3]))
    guards = 0
    for (tag, t, src), rep in zip(metas, replies):
        templates += 1
        want_keys = [sorted(str(x) for x in ks) for ks in rep[1]]
        for is_async in ((templates % 2 == 0,) if ctx.quick else (False, True)):
            code = compile_raw(jinja2, src, is_async)
            gg, wg = emitted_guards(code), expected_guards(t["body"], model_guard)
            guards += len(gg)
            if gg != wg:
                bad = next((i for i, (a, b) in enumerate(zip(gg, wg)) if a != b), min(len(gg), len(wg)))
                res.violate("C05:lcode:include-guard",
                            f"{'async' if is_async else 'sync'} code for {src!r}: include #{bad} compiles to "
                            f"{gg[bad] if bad < len(gg) else None}, the model (includeStmt / includeGuard: only the lookup is "
                            f"guarded, only TemplateNotFound is caught, the target renders in the else arm) stands for "
                            f"{wg[bad] if bad < len(wg) else None}",
                            {"layer": "L-code", "src": src, "async": is_async, "emitted": repr(gg), "modelled": repr(wg),
                             "theorems": "ignore_missing_guards_lookup_only, ignore_missing_only_missing, "
                                         "ignore_missing_keeps_everything_else"}, no_input=True)
            got = emitted_calls(code)
            want = expected_calls(t["body"], is_async)
            total += len(got)
            g2 = [(k, f, shape) for k, f, shape, _ in got]
            if g2 != [tuple(x) for x in want]:
                res.violate("C05:lcode:emitted-call", f"{'async' if is_async else 'sync'} code for {src!r} calls {g2}, "
                            f"the transcription stands for {want}", {"layer": "L-code", "src": src, "async": is_async,
                                                                       "emitted": repr(g2), "modelled": repr(want)}, no_input=True)
                continue
            gk = [keys for _, _, _, keys in got]
            wk = [ks if shape and shape[-1] == "LOCALS" else None for ks, (_, _, shape) in zip(want_keys, want)]
            if gk != wk:
                res.violate("C05:lcode:locals-keys", f"dump_local_context keys for {src!r}: emitted {gk}, model {wk}",
                            {"layer": "L-code", "src": src, "async": is_async, "emitted": repr(gk), "modelled": repr(wk)},
                            no_input=True)
    return {"templates": templates, "statements": total, "include_guards": guards}


def replay(ctx, case):
    """re-render the recorded template set on the working tree"""
    jinja2 = core.import_jinja()
    c = case["case"]
    if "templates" not in c:
        return c
    env = jinja2.Environment(loader=jinja2.DictLoader(c["templates"]), enable_async=c.get("flavour", "").endswith("async"),
                             undefined=jinja2.StrictUndefined if c.get("strict_undefined") else jinja2.Undefined)
    env.globals.update(c.get("env_globals", {}))
    for name, g in c.get("template_globals", {}).items():
        env.get_template(name, globals=dict(g))
    data = {k: (env.get_template(v[10:-1]) if isinstance(v, str) and v.startswith("<Template ") else v)
            for k, v in c.get("render_vars", {}).items()}
    try:
        t = env.get_template(c.get("entry", "main"))
        out = arun(t.render_async(**data)) if env.is_async else t.render(**data)
    except Exception as e:  # noqa
        out = "raised " + type(e).__name__ + ": " + str(e)
    return {"now": out, "recorded_real": c.get("real"), "model": c.get("model"), "documented": c.get("documented")}
