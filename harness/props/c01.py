"""C01 — every template source either compiles or fails with a template syntax error.

Decided by (a) Lean theorems about the lexer model (total, no internal branch, error lines inside the source, the
token stream handed to the parser has the regular begin/end shape), about a model of Parser.subparse over that shape
(the `internal parsing error` branch is unreachable) and about the inventory of raise/assert sites read from the
source; and (b) the property's own oracle, which needs no model: for every generated source under nine environments
`env.from_string(src)` (and `env.compile(src, raw=True)` + Python's `compile()`) must return or raise
TemplateSyntaxError with 1 <= lineno <= 1 + number of line breaks of the source.
"""
from __future__ import annotations

import json
import multiprocessing as mp
import os
import re
import subprocess
import sys

import translate.fail_sites
from harness import c01_oracle as oracle
from harness import core
from harness import lexcommon as lc
from harness.core import Atom
from harness.gen import c01gen as g

ID = "C01"
LEAN_MODULES = ["JinjaV.Props.C01"]
GEN = [translate.fail_sites.gen]
LEVEL = "proof"
TRUSTED = [
    "Model/Lex.lean is a hand transcription of Lexer.tokeniter (hand scanners instead of Python's re), tied to the real "
    "lexer by the differential run of this check (tokens, error kind, error line) on the modelled alphabet",
    "Model/ParseShape.lean abstracts every expression/statement parser as a parameter that moves the stream position "
    "or fails with TemplateSyntaxError; that the real sub-parsers raise nothing else is what Gen/FailSites + the direct "
    "oracle establish, it is not proved",
    "parser (beyond the subparse loop), optimizer, code generator and CPython's compile() are decided by the direct "
    "oracle on generated sources only",
]
ASSUMPTIONS = [
    "valid environment configuration = delimiters and line prefixes non-empty and free of whitespace (Cfg.Valid)",
    "host limits (recursion limit 1000, CPython's nesting limits, int-max-str-digits 4300) are those of /venv's CPython 3.12",
]
CLAIM = dict(
    category="proof",
    technique="Lean 4 proofs about the lexer model (termination measure, unreachable internal branches, error line "
              "inside the source, regular begin/end shape of the wrapped token stream), a parametric model of "
              "Parser.subparse over that shape, a decide-checked inventory of every raise/assert site read from the "
              "source with Python ast; differential lexer runs; and the model-free oracle on exhaustive fragment "
              "strings, grammar-generated templates, token mutations, keyword/Unicode names and nesting-depth searches "
              "under nine environments",
    text="Proved (Props/C01.lean, lexer stage, all sources, all valid configurations): tokeniter's loop strictly decreases "
         "2*|rest|+|state stack| (lex_step_decreases), so the model never runs out of fuel and returns tokens or one of the "
         "five TemplateSyntaxError kinds (lex_total); no rule matches the empty string without a state change and every "
         "root match names its group, i.e. the three RuntimeError branches are unreachable "
         "(no_empty_match_without_state_change, root_match_names_group); a lexer error carries a line between 1 and "
         "1 + line breaks of the source (lex_error_is_syntax_error_with_line_in_source, from C39.error_line + "
         "preprocess_newlines_le); the raw token stream is accepted by the 7-state begin/end automaton and its wrapped "
         "image has the shape (data | variable_begin t* variable_end | block_begin t* block_end)* cut short only by the "
         "end of input (lex_stream_shape, wrap_shape, shape_prefix_closed). Proved over that shape (parser stage, partial: "
         "sub-parsers abstract): Parser.subparse never reaches `AssertionError('internal parsing error')` for any "
         "expression/statement parsers that move the position or raise TemplateSyntaxError and re-enter subparse only "
         "through parse_statements (subparse_no_internal, parse_no_internal); the i18n extension's trans-block loop, modelled "
         "in full, never reaches its RuntimeError('internal parser error') (trans_block_no_internal). Read from the source on every run "
         "(Gen/FailSites.lean) and re-proved by decide: every raise/assert site of lexer, parser, compiler, idtracking, "
         "nodes, optimizer, visitor, ext that is not TemplateSyntaxError/TemplateAssertionError (or Impossible/"
         "VisitorExit/CompilerExit control flow caught in place) is on the justified allow-list "
         "(non_syntax_raise_sites_allowed, assert_sites_allowed), every statement keyword has its parse_ method "
         "(statement_keywords_have_parsers). Decided by the direct oracle only (parser proper, optimizer, code generator, "
         "CPython compile): every concatenation of <=3 (quick) / <=4 (thorough) fragments of a 25-27 letter alphabet, "
         "grammar-generated templates of all statement/expression/extension forms, token-level mutations, Python "
         "keywords/soft keywords/runtime names/Unicode-class identifiers in 90+ name positions, constants and literals, "
         "and bisection searches over 60 nesting/chain shapes; outcome must be a template or TemplateSyntaxError with an "
         "in-source line, never another exception, a Python SyntaxError of the generated code, or a hang.",
    note="Trusted: Lean kernel; hand lexer model (tied by correspondence); the abstraction of sub-parsers; translator "
         "for FailSites; four allow-list entries (Symbols.ref, enter_frame, RootVisitor.generic_visit, Node.__init__) "
         "are justified by the direct oracle only, not by a theorem (DESIGN's symbols_ref_defined and "
         "cg_idents_valid are not attempted). Host-limit failures and the defects listed in known_findings.d/C01.json are "
         "known findings.",
    design_ref="§5 C01",
)

HEAVY_SHAPES = {"unary-minus-chain", "not-chain", "sum-terms-names", "mul-terms", "pow-terms", "and-terms", "or-terms",
                "condexpr-chain", "subscript-chain", "attr-chain", "call-chain", "filter-chain", "filter-chain-upper",
                "concat-terms", "compare-chain", "test-args-depth"}

# ---------------------------------------------------------------------------------------------------------------
# pool workers
# ---------------------------------------------------------------------------------------------------------------

_ENVS = {}


def _env(name):
    if name not in _ENVS:
        jinja2 = core.import_jinja()
        _ENVS[name] = g.make_env(jinja2, name)
    return _ENVS[name]


def _adapt(src, c):
    """spell a source written with the default delimiters in a configuration's delimiters"""
    if c["block_start_string"] == "{%" and c["variable_start_string"] == "{{" and c["comment_start_string"] == "{#":
        return src
    out = []
    i = 0
    table = [("{{", c["variable_start_string"]), ("}}", c["variable_end_string"]), ("{%", c["block_start_string"]),
             ("%}", c["block_end_string"]), ("{#", c["comment_start_string"]), ("#}", c["comment_end_string"])]
    while i < len(src):
        for a, b in table:
            if src.startswith(a, i):
                out.append(b)
                i += 2
                break
        else:
            out.append(src[i])
            i += 1
    return "".join(out)


def _sources(task):
    kind, envname = task[0], task[1]
    c = g.lex_cfg(envname)
    if kind == "exh":
        _, _, maxlen, first = task
        fr = g.fragments(c)
        if first is None:
            yield ""
            return
        import itertools
        for n in range(0, maxlen):
            for parts in itertools.product(fr, repeat=n):
                yield fr[first] + "".join(parts)
    elif kind == "special":
        _, _, part, nparts, families, thin = task
        for i, s in enumerate(g.special_sources(envname.startswith("ext"), families, thin)):
            if i % nparts == part:
                yield _adapt(s, c)
    elif kind == "gen":
        _, _, seed, chunk, count, nmut = task
        rng = core.rng_for(seed, "C01", "gen", envname, chunk)
        gen = g.Gen(rng, c, ext=envname.startswith("ext"), wild=rng.choice([0.0, 0.02, 0.05, 0.15]))
        env = _env(envname)
        for _ in range(count):
            s = gen.template(size=rng.choice([1, 2, 4, 6]), depth=rng.choice([1, 2, 3, 4]))
            yield s
            toks = g.raw_tokens(env, s)
            for _ in range(nmut):
                yield g.mutate(rng, toks, c)
    else:
        raise AssertionError(kind)


def work(task):
    import warnings

    warnings.filterwarnings("ignore", category=SyntaxWarning)     # CPython's hints about the generated code
    oracle.install_alarm()
    kind, envname = task[0], task[1]
    env = _env(envname)
    c = g.lex_cfg(envname)
    delims = [c["block_start_string"], c["variable_start_string"], c["comment_start_string"]] + \
             [p for p in (c["line_statement_prefix"], c["line_comment_prefix"]) if p]
    n = 0
    outcomes = {}
    bad = {}
    seen = set()
    sample = None
    maxlen = 0
    for s in _sources(task):
        n += 1
        r = oracle.judge(env, s, kind, also_raw=(kind == "gen"))
        tag = r[0] if r[0] != "syntax" else r[1]
        outcomes[tag] = outcomes.get(tag, 0) + 1
        if any(d in s for d in delims):
            seen.add(hash(s))
        if len(s) > maxlen:
            maxlen = len(s)
        if r[0] == "bad":
            if r[1] not in bad or len(s) < len(bad[r[1]][0]):
                bad[r[1]] = (s, r[2], r[3], bad[r[1]][3] + 1 if r[1] in bad else 1)
        elif sample is None and r[0] == "syntax" and len(s) > 12:
            sample = s
    return {"task": task[:2], "n": n, "outcomes": outcomes, "bad": bad, "distinct": len(seen), "sample": sample, "maxlen": maxlen}


# ---------------------------------------------------------------------------------------------------------------
# lexer: implementation vs Lean model (ties the lexer theorems), shape oracle in Lean, root regex groups
# ---------------------------------------------------------------------------------------------------------------

MODEL_CHARS = set("éöü中·")


def in_model(s):
    return all(ord(ch) < 128 or ch in MODEL_CHARS for ch in s)


def wrapped_kinds(env, src):
    """token types the parser sees (TokenStream over Lexer.wrap), as far as the lexer/wrap get"""
    out = []
    try:
        for t in env.lexer.wrap(env.lexer.tokeniter(src, None, None)):
            out.append(t.type)
    except Exception:  # noqa: judged by the direct oracle
        pass
    return out


def lexer_stage(ctx, res, jinja2, stats):
    maxlen = ctx.pick(2, 3)
    nrand = ctx.pick(300, 3000)
    pairs = []
    for name in ["default", "erb", "line", "trim+lstrip", "ext-newstyle-async"]:
        c = g.lex_cfg(name)
        env = g.make_env(jinja2, name)
        srcs = sorted(set(g.enumerate_sources(c, maxlen)))
        rng = ctx.rng("lex", name)
        gen = g.Gen(rng, c, ext=name.startswith("ext"), wild=0.1)
        for _ in range(nrand):
            s = gen.template(size=3, depth=2)
            srcs.append(s)
            srcs.append(g.mutate(rng, g.raw_tokens(env, s), c))
        srcs = [s for s in srcs if in_model(s) and len(s) < 400]
        pairs += [(name, c, env, s) for s in srcs]
    models = lc.model_lex([(c, s) for _, c, _, s in pairs])
    shape_reqs = []
    mism = 0
    for (name, c, env, s), m in zip(pairs, models):
        real = lc.real_lex(env, s)
        stats["lex_compared"] = stats.get("lex_compared", 0) + 1
        k = real[0] if real[0] != "syntax-error" else (real[1] if isinstance(real[1], str) else real[1][0])
        stats.setdefault("lex_outcomes", {})
        stats["lex_outcomes"][k] = stats["lex_outcomes"].get(k, 0) + 1
        if m["res"][0] == "oom":
            stats["lex_oom"] = stats.get("lex_oom", 0) + 1
        elif m["res"][0] == "fuel":
            res.violate("C01:lexer-model:fuel", f"the Lean lexer model ran out of fuel on {s!r} ({name}) although lex_total "
                        "proves it cannot", {"env": name, "source": s}, no_input=True)
        elif real != m["res"]:
            mism += 1
            if real[0] == "raised":
                res.violate(f"C01:lexer:{real[1].split(':')[0]}", f"{name}: Lexer.tokeniter({s!r}) raised {real[1]}; the model "
                            f"says {str(m['res'])[:120]}", {"env": name, "source": s})
            else:
                res.violate("C01:lexer-model-drift", f"{name}: lexer and Lean model differ on {s!r}: real {str(real)[:160]} "
                            f"model {str(m['res'])[:160]} (lexer theorems no longer tied)", {"env": name, "source": s},
                            no_input=True)
        shape_reqs.append([Atom("c01-shape"), [Atom(t) for t in wrapped_kinds(env, s)]])
    reps = core.driver_batch(shape_reqs)
    for (name, c, env, s), rq, rp in zip(pairs, shape_reqs, reps):
        rp = lc.canon(rp)
        if rp != ["ok", True]:
            res.violate("C01:wrap-shape", f"{name}: the token stream handed to the parser for {s!r} is not of the proved "
                        f"shape: {[str(x) for x in rq[1]][:30]} -> {rp}", {"env": name, "source": s}, no_input=True)
    stats["lex_mismatch"] = mism
    return len(pairs)


def root_regex_stage(res, jinja2, stats):
    """measured: in every environment each alternative of the root rule is a named group (so the two `#bygroup`
    RuntimeError branches need a match in which no alternative took part, which a regex alternation cannot produce)"""
    import re._parser as sre

    for name in g.ENVS:
        env = g.make_env(jinja2, name)
        rx = env.lexer.rules["root"][0][0]
        tree = sre.parse(rx.pattern, rx.flags)
        ok = False
        # `(.*?)` then one BRANCH each of whose alternatives is exactly one named SUBPATTERN
        items = list(tree)
        if len(items) == 2 and items[0][0] == sre.SUBPATTERN and items[1][0] == sre.BRANCH:
            named = set(tree.state.groupdict.values())
            alts = items[1][1][1]
            ok = all(len(alt) == 1 and alt[0][0] == sre.SUBPATTERN and alt[0][1][0] in named for alt in alts)
            stats.setdefault("root_alternatives", {})[name] = len(alts)
        if not ok:
            res.violate("C01:root-regex-groups", f"{name}: an alternative of the root rule {rx.pattern!r} is not a named "
                        "group; the `#bygroup` RuntimeError branches of tokeniter are then reachable in principle",
                        {"env": name}, no_input=True)


# ---------------------------------------------------------------------------------------------------------------
# host limits and hangs (fresh interpreters)
# ---------------------------------------------------------------------------------------------------------------

def _script(args, timeout):
    env = dict(os.environ)
    env["PYTHONPATH"] = str(core.VERIF)
    return subprocess.Popen([sys.executable, "-B", "-m", "harness.c01_oracle", *args], cwd=str(core.VERIF), env=env,
                            stdout=subprocess.PIPE, stderr=subprocess.PIPE, text=True), timeout


def bucket(n):
    """key suffix for a threshold: `:n>=<power of two below it>`, or nothing when the threshold lies within 1/8 of a power
    of two (then the key names construct and error class only, so a drift of a few frames does not change it)"""
    b = 1
    while b * 2 <= n:
        b *= 2
    for edge in (b, 2 * b):
        if abs(n - edge) * 8 <= edge:
            return ""
    return f":n>={b}"


def start_shapes(ctx):
    jobs = []
    light = [s for s in g.SHAPES if s not in HEAVY_SHAPES]
    heavy = [s for s in g.SHAPES if s in HEAVY_SHAPES]
    nmax = ctx.pick(600, 1500)
    k = ctx.pick(2, 4)
    for i in range(k):
        part = light[i::k]
        if part:
            jobs.append(("default", part, _script(["shapes", "default", str(nmax), *part], 900)))
    jobs.append(("noopt", heavy, _script(["shapes", "noopt", str(nmax), *heavy], 900)))
    jobs.append(("ext", list(g.EXT_SHAPES), _script(["shapes", "ext", str(nmax), *g.EXT_SHAPES], 900)))
    jobs.append(("async", ["nested-for", "for-recursive-loop-calls", "nested-macro", "nested-call-block"],
                 _script(["shapes", "async", str(nmax), "nested-for", "for-recursive-loop-calls", "nested-macro",
                          "nested-call-block"], 900)))
    return jobs


def finish_shapes(jobs, res, stats):
    found = {}
    for envname, shapes, (p, timeout) in jobs:
        try:
            out, err = p.communicate(timeout=timeout)
        except subprocess.TimeoutExpired:
            p.kill()
            raise core.HarnessError(f"threshold search for {shapes} did not finish in {timeout}s")
        lines = [json.loads(l) for l in out.splitlines() if l.startswith("{")]
        done = {d["shape"] for d in lines}
        for d in lines:
            stats["shape_searches"] = stats.get("shape_searches", 0) + 1
            if d["threshold"] is None:
                continue
            n0, bad = d["threshold"], d["bad"]
            cls = bad[1].split(":")[0]
            found[f"{envname}:{d['shape']}"] = [n0, bad[1]]
            src = (g.SHAPES.get(d["shape"]) or g.EXT_SHAPES[d["shape"]])(n0)
            if cls in ("RecursionError", "MemoryError", "Hang"):
                key = f"C01:{cls}:{d['shape']}{bucket(n0)}"
            else:
                key = f"C01:{bad[1].replace(':' + d['shape'], '')}:{d['shape']}{bucket(n0)}"
            res.violate(key, f"{envname}: shape {d['shape']} fails from n = {n0} on: {bad[2]} (frames {bad[3]}); source "
                        f"{src[:60]!r}... ({len(src)} chars)", {"env": envname, "shape": d["shape"], "n": n0, "source": src})
        missing = [s for s in shapes if s not in done]
        if missing:
            # the interpreter died (stack overflow / memory): that is an outcome of loading a template, too
            res.violate(f"C01:crash:{missing[0]}", f"{envname}: the interpreter exited with {p.returncode} while loading shape "
                        f"{missing[0]} ({err[-300:]!r})", {"env": envname, "shape": missing[0]})
    stats["shape_thresholds"] = found


HANG_SOURCES = ["{{ 'a' * 1000000000 }}"]        # thorough tier only: > 20 s and > 2 GB to load 23 characters


def start_hang(ctx, jinja2):
    rng = ctx.rng("hang")
    c = g.lex_cfg("default")
    gen = g.Gen(rng, c, wild=0.05)
    srcs = [gen.template(size=6, depth=4) for _ in range(ctx.pick(20, 200))] + ([] if ctx.quick else HANG_SOURCES)
    return srcs, _script(["hang", "default", "20", json.dumps(srcs)], 600)


def finish_hang(job, res, stats):
    srcs, (p, timeout) = job
    try:
        out, err = p.communicate(timeout=timeout)
    except subprocess.TimeoutExpired:
        p.kill()
        out, err = p.communicate()
    lines = [json.loads(l) for l in out.splitlines() if l.startswith("{")]
    stats["hang_probe_sources"] = len(lines)
    for d in lines:
        r = d["outcome"]
        if r[0] == "bad":
            shape = "const-fold" if d["source"] in HANG_SOURCES else "generated"
            res.violate(f"C01:{r[1].replace(':load', '')}:{shape}", f"loading {d['source'][:80]!r} in a fresh interpreter (20 s "
                        f"alarm, 6 GB address space): {r[2]}", {"env": "default", "source": d["source"]})
    if len(lines) < len(srcs):
        s = srcs[len(lines)]
        res.violate("C01:crash:hang-probe", f"the interpreter exited with {p.returncode} while loading {s[:80]!r} ({err[-200:]!r})",
                    {"env": "default", "source": s})


# ---------------------------------------------------------------------------------------------------------------

def inventory_stage(ctx, res):
    """when the inventory changed or its proofs broke: name the raise/assert sites that are not on the allow-list (the
    decision is made by the Lean side, `C01.unlisted` over the regenerated Gen data)"""
    if not (ctx.gen_changed or ctx.proof_broken or ctx.tie_broken):
        return 0
    try:
        rep = lc.canon(core.driver_batch([[Atom("c01-unlisted")]])[0])
    except core.HarnessError:
        return 1
    if rep[0] != "ok":
        return 1
    for file, func, cls, idx in rep[1][0]:
        ln = translate.fail_sites.locate(file, func, cls, idx)
        res.violate(f"C01:unlisted-raise:{file}:{func}:{cls}", f"{file}:{ln} {func} raises {cls} (site #{idx} of that class in the "
                    "function): not a template syntax error and not on the justified allow-list of Model/FailAllow.lean; no "
                    "input reaching it was found by this run unless a violation below names one",
                    {"site": [file, func, cls, idx], "line": ln, "theorem": "non_syntax_raise_sites_allowed"}, no_input=True)
    for file, func, idx in rep[1][1]:
        ln = translate.fail_sites.locate(file, func, None, idx)
        res.violate(f"C01:unlisted-assert:{file}:{func}", f"{file}:{ln} {func}: new assert statement (#{idx} in the function) not on "
                    "the allow-list", {"site": [file, func, idx], "line": ln, "theorem": "assert_sites_allowed"}, no_input=True)
    return len(rep[1][0]) + len(rep[1][1])


def run(ctx, res):
    jinja2 = core.import_jinja()
    stats = {}
    suspicious = inventory_stage(ctx, res)          # a new way to raise: search harder for an input that reaches it
    t0 = core.now()
    secs = {}
    shape_jobs = start_shapes(ctx)
    hang_job = start_hang(ctx, jinja2)

    envs = g.QUICK_ENVS if ctx.quick else [e for e in g.ENVS if e != "noopt"]
    maxlen = ctx.pick(3, 4)
    tasks = []
    for name in envs:
        if name == "native" and not ctx.quick:
            exh = 3
        else:
            exh = maxlen
        nfr = len(g.fragments(g.lex_cfg(name)))
        tasks.append(("exh", name, exh, None))
        tasks += [("exh", name, exh, i) for i in range(nfr)]
    nparts = 8
    # names behave alike under every delimiter set: the quick tier spells them in four environments only, runs the nesting /
    # empty-form / compatibility-identifier families in two of them and keeps every 4th of their deeper nests (rotated by seed;
    # all depth-1 positions always)
    for name in (["default", "async", "sandboxed", "ext"] if ctx.quick else envs):
        fam = (name in ("default", "ext")) if ctx.quick else True
        thin = (4, ctx.seed) if ctx.quick else None
        tasks += [("special", name, i, nparts, fam, thin) for i in range(nparts)]
    chunks, per_chunk, nmut = ctx.pick((4, 60, 3), (16, 250, 4))
    if suspicious:
        chunks *= 4
    for name in envs:
        tasks += [("gen", name, ctx.seed, ch, per_chunk, nmut) for ch in range(chunks)]
    # longest tasks first
    tasks.sort(key=lambda t: {"gen": 0, "special": 1, "exh": 2}[t[0]])
    nproc = max(2, min(8, (os.cpu_count() or 2)))      # more processes than that only contend (measured)
    with mp.get_context("fork").Pool(nproc) as pool:
        results = pool.map(work, tasks, chunksize=1)
    secs["pool"] = round(core.now() - t0, 1)

    total = 0
    distinct = 0
    by_kind = {}
    outcomes = {}
    samples = []
    maxlen_seen = 0
    for t, r in zip(tasks, results):
        total += r["n"]
        distinct += r["distinct"]
        by_kind[t[0]] = by_kind.get(t[0], 0) + r["n"]
        maxlen_seen = max(maxlen_seen, r["maxlen"])
        for k, v in r["outcomes"].items():
            outcomes.setdefault(t[0], {})
            outcomes[t[0]][k] = outcomes[t[0]].get(k, 0) + v
        if r["sample"] and len(samples) < 6 and t[0] != "exh":
            samples.append({"env": t[1], "kind": t[0], "source": r["sample"][:200]})
    # one violation per key, shortest witness over all tasks
    best = {}
    for t, r in zip(tasks, results):
        for key, (s, what, tb, cnt) in r["bad"].items():
            if key not in best or len(s) < len(best[key][0]):
                best[key] = (s, what, tb, t[1], t[0], cnt + (best[key][5] if key in best else 0))
            else:
                best[key] = best[key][:5] + (best[key][5] + cnt,)
    for key in sorted(best):
        s, what, tb, envname, kind, cnt = best[key]
        res.violate(f"C01:{key}", f"{envname}: loading {s[:160]!r}{'...' if len(s) > 160 else ''} gives {what} "
                    f"[{' < '.join(reversed(tb))}] ({cnt} generated sources hit this)", {"env": envname, "source": s})

    nlex = lexer_stage(ctx, res, jinja2, stats)
    root_regex_stage(res, jinja2, stats)
    secs["lexer"] = round(core.now() - t0, 1)
    finish_hang(hang_job, res, stats)
    secs["hang"] = round(core.now() - t0, 1)
    finish_shapes(shape_jobs, res, stats)
    secs["shapes"] = round(core.now() - t0, 1)

    res.coverage.update({
        "evaluations": total + nlex + stats.get("hang_probe_sources", 0),
        "distinct_nontrivial": distinct,
        "rule": (f"under {len(envs)} environments ({', '.join(envs)}): every concatenation of <= {maxlen} fragments of the "
                 "configuration's alphabet (variable/block/comment delimiters, - + raw endraw if endif for in x 1 ' \" ( ) "
                 "[ . | newline blank, line prefixes; exhaustive); every Python keyword, soft keyword, Jinja/runtime/"
                 "generated-code name and 32 identifiers from different Unicode classes in every name position (variable, "
                 "attribute, call/filter/test keyword, set/for/with/macro/call-block/import targets, block names, trans "
                 "variables; complete product), literal/constant edge cases; grammar-directed random templates (all "
                 "statements incl. block set with filters, call blocks, namespaces, required/scoped blocks, imports, i18n/do/"
                 "loopcontrols/debug tags; expression grammar with every operator, test, filter, slice, call form; a share "
                 "of deliberately broken pieces) each followed by token-level mutations (delete, duplicate, swap, replace, "
                 "insert, truncate, turn into a delimiter); loaded with from_string (generated/mutated templates also with "
                 "compile(raw=True) + Python compile()); the name/constant product runs in 4 of the environments in the quick "
                 "tier; non-trivial = contains at least one start delimiter or line prefix "
                 "(distinct per task, summed). Plus lexer-vs-Lean-model comparison and the Lean shape oracle on the wrapped "
                 "token types, bisection of the least failing size of 60 nesting/chain shapes in fresh interpreters, and a "
                 "hang probe (20 s alarm) on generated templates and constant-folding bombs"),
        "samples": samples,
        "exhaustive": True,
        "cases_by_stage": by_kind,
        "outcomes_by_stage": outcomes,
        "longest_source": maxlen_seen,
        "lexer": {k: v for k, v in stats.items() if k.startswith("lex")},
        "root_alternatives": stats.get("root_alternatives"),
        "shape_thresholds": stats.get("shape_thresholds"),
        "shape_searches": stats.get("shape_searches"),
        "hang_probe_sources": stats.get("hang_probe_sources"),
        "processes": nproc,
        "seconds_elapsed_after_stage": secs,
    })


def replay(ctx, case):
    jinja2 = core.import_jinja()
    c = case["case"]
    oracle.install_alarm()
    env = g.make_env(jinja2, c.get("env", "default"))
    if "source" not in c:
        return {"note": "no source in this replay", "case": c}
    return {"env": c.get("env"), "source": c["source"], "outcome": oracle.judge(env, c["source"], "replay", also_raw=True)}
