"""C02 — compiled expressions evaluate as the documented expression semantics."""
from __future__ import annotations

import translate.expr_tables as tr_expr
import translate.num_tests as tr_num
import asyncio

from harness import core, exprcommon as X
from harness.core import Atom

ID = "C02"
LEAN_MODULES = ["JinjaV.Props.C02", "JinjaV.Props.C02Num"]
GEN = [tr_expr.gen, tr_num.gen]
LEVEL = "proof"
TRUSTED = [
    "Model/Expr.lean: hand model of Python operator semantics on the modelled value universe (None, bool, int, str, Markup, "
    "list, tuple, dict, Undefined, data objects, data callables) and of Environment.getattr/getitem, 18 filters, 33 tests; "
    "tied to the implementation by this correspondence run only",
    "Spec/ExprSyntax.lean: the documented precedence/associativity table as a printer; the real parser must read every printed "
    "tree back (round trip executed on every generated tree: a test of the parser, not a theorem about it)",
    "the expression parser itself is not modelled: its precedence chain is READ from parser.py (Gen/ExprTables.parserChain) and "
    "proved equal to the documented chain by decide",
    "floats, keyword arguments, *args/**kwargs, string methods and most filters are outside the value universe (oom, counted)",
    "Model/NumTests.lean: numbers as rationals over a common denominator; Python's float `%` on dyadic rationals of moderate "
    "size is assumed exact and floored like the int one (validated by the number-tests pass on ints, dyadic floats and "
    "Fractions; the pass's oracle is a transcription of the right-hand sides of Props/C02Num.lean with Python Fractions)",
]
ASSUMPTIONS = ["CPython evaluates the generated Python expression forms as the model's evaluator does (validated, not proved)"]
CLAIM = dict(
    category="proof",
    technique="Lean 4 proofs about a reference evaluator for Jinja expressions (lookup order, undefined results, short-circuit, "
              "comparison chains, compile pipeline = reference) + precedence chain read from parser.py and proved equal to the "
              "documented one + differential evaluation of generated expression trees on real environments and parser round trip",
    text="Theorems (Props/C02.lean): attribute syntax tries the attribute, then the item, else yields undefined; subscript syntax "
         "tries the item, then (for string keys) the attribute, else undefined (getattr_order, getitem_order, missing_undefined); "
         "a missing name evaluates to undefined; and/or return an operand and evaluate the right one only when needed; a comparison "
         "chain evaluates each operand once, left to right, and stops at the first false link; a conditional without else yields "
         "undefined; the whole compile pipeline (optimizer + output folding, Props/C08.compile_render_sound) yields the reference "
         "evaluator's result for every expression; the parser's precedence chain, operator tables and the compiler's operator "
         "table read from the source equal the documented ones (chain_is_documented, operator_tables_documented). Tie: random "
         "type-directed expression trees (depth <=4 quick / <=6 thorough) printed by the Lean syntax spec, parsed back by the "
         "real parser (AST must equal the tree), rendered under default/autoescape/unoptimized/async/sandboxed environments and "
         "through compile_expression with random data (ints, strings, Markup, lists, dicts, tuples, objects with clashing "
         "attributes and items, None, missing names) and compared with the Lean evaluator (value text or exception class).",
    note="Trusted: Lean kernel; hand model Model/Expr.lean (correspondence only); floats, kwargs and most filters are outside the "
         "model (counted as out-of-model); the parser is tied by the round trip and by the regenerated precedence chain, not "
         "by a parser-correctness theorem.",
    design_ref="§5 C02",
)


def variants(jinja2):
    V = X.Variant
    return [V(jinja2), V(jinja2, autoescape=True), V(jinja2, optimized=False), V(jinja2, is_async=True),
            V(jinja2, sandboxed=True), V(jinja2, autoescape=True, optimized=False), V(jinja2, volatile=True),
            V(jinja2, autoescape=True, volatile=False), V(jinja2, autoescape=True, env_autoescape=False),
            V(jinja2, autoescape=False, env_autoescape=True, optimized=False)]


def run(ctx, res):
    jinja2 = core.import_jinja()
    rng = ctx.rng("exprs")
    vs = variants(jinja2)
    ntrees = ctx.pick(1500, 12000)
    maxd = ctx.pick(4, 6)
    trees = []
    g = X.Gen(rng)
    for i in range(ntrees):
        trees.append(g.any(rng.randrange(1, maxd + 1)))
    srcs = X.pretty_batch(trees)

    # 1. the real parser reads the printed tree back ------------------------------------------------
    penv = jinja2.Environment()
    rt_bad = 0
    for tree, src in zip(trees, srcs):
        try:
            back = X.parse_expr(jinja2, penv, src)
        except X.NotInFragment:
            continue
        except Exception as e:  # noqa
            rt_bad += 1
            res.violate("C02:parse:roundtrip-error", f"the documented syntax {src!r} does not parse: {type(e).__name__}: {e}",
                        {"src": src, "tree": core.sx(tree)})
            continue
        if X.canon(back) != X.canon(tree):
            rt_bad += 1
            res.violate("C02:parse:precedence", f"{src!r} parses as {core.sx(back)}; the documented precedence gives {core.sx(tree)}",
                        {"src": src, "tree": core.sx(tree), "parsed": core.sx(back)})

    # 2. evaluation -----------------------------------------------------------------------------------
    reqs, jobs = [], []
    for tree, src in zip(trees, srcs):
        data = X.make_data(jinja2, rng)
        vars_, objs = X.ctx_sx(jinja2, data)
        for v in rng.sample(vs, 3):
            reqs.append(v.request(tree, vars_, objs))
            jobs.append((tree, src, data, v))
    reps = core.driver_batch(reqs)
    evaluations, oom, errs, distinct, kinds, sizes = 0, 0, {}, set(), {}, {}
    for (tree, src, data, v), rep in zip(jobs, reps):
        if rep[0] != "ok":
            raise core.HarnessError(f"driver: {rep} for {core.sx(tree)}")
        want, _ = X.model_result(rep, "ref")
        comp, _ = X.model_result(rep, "comp")
        evaluations += 1
        if want == ("err", "oom") or comp == ("err", "oom"):
            oom += 1
            continue
        got, _ = v.render(src, data)
        distinct.add((src, v.label()))
        X.kinds(tree, kinds)
        sizes[X.size(tree)] = sizes.get(X.size(tree), 0) + 1
        if want[0] == "err":
            errs[want[1]] = errs.get(want[1], 0) + 1
        if got != want:
            head = str(tree[0])
            res.violate(f"C02:eval:{head}:{want[1] if want[0] == 'err' else 'value'}",
                        f"{{{{ {src} }}}} under [{v.label()}] gives {got!r}; documented semantics give {want!r}",
                        {"src": src, "tree": core.sx(tree), "variant": v.label(), "data": {k: repr(x) for k, x in data.items()}})
        if comp != want and not (ctx.gen_changed or ctx.proof_broken or ctx.tie_broken):
            raise core.HarnessError(f"model pipeline differs from its reference on {src!r} although proved equal: {comp} vs {want}")
    # 3. compile_expression returns the value itself ---------------------------------------------------
    ce_checked = compile_expression_pass(ctx, res, jinja2, trees, srcs, rng)
    # 4. every spelling of one call passes the same arguments -------------------------------------------
    ce_checked += call_spelling_pass(ctx, res, jinja2, rng)
    # 5. the numeric tests on ints, exact floats and Fractions mean what Props/C02Num.lean proves about their bodies ------
    ce_checked += number_tests_pass(ctx, res, jinja2, rng)
    res.coverage.update({
        "evaluations": evaluations + ce_checked,
        "distinct_nontrivial": len(distinct),
        "rule": (f"{ntrees} random type-directed expression trees (depth 1-{maxd}) over 14 context names; each printed by the Lean "
                 "syntax spec, parsed back by the real parser, rendered under 3 of 8 environment variants with fresh random data "
                 "and compared with the Lean reference evaluator; a case is non-trivial when the model stays inside its domain "
                 "(not oom); distinct = distinct (source, variant) pairs"),
        "samples": [{"src": srcs[i], "tree": core.sx(trees[i])} for i in (0, len(trees) // 2, len(trees) - 1)],
        "out_of_model": oom, "out_of_model_rate": round(oom / max(evaluations, 1), 3),
        "error_kinds": errs, "node_kinds": kinds, "tree_sizes": dict(sorted(sizes.items())),
        "roundtrip_failures": rt_bad, "compile_expression_checked": ce_checked,
    })
    if oom > 0.6 * max(evaluations, 1):
        raise core.HarnessError(f"generator drifted: {oom}/{evaluations} cases outside the model")


def call_spelling_pass(ctx, res, jinja2, rng):
    """Keyword, star and double-star arguments are outside the Lean value model.  What the documentation says about them is
    only that they are the Python call conventions, so the check is metamorphic: `f(1, 2, k=3)`, `f(*[1, 2], k=3)`,
    `f(1, *[2], **{'k': 3})`, … pass the same (args, kwargs) to a recording callable, a recording filter and a recording
    test, in every environment flavour; argument expressions are evaluated once each, left to right."""
    from jinja2.sandbox import SandboxedEnvironment
    seen = []

    def rec(*a, **k):
        seen.append(("call", a, tuple(sorted(k.items()))))
        return "R"

    def tick(x):
        seen.append(("eval", x))
        return x

    def mk(cls, **kw):
        env = cls(**kw)
        env.filters["recf"] = lambda v, *a, **k: rec(v, *a, **k)
        env.tests["rect"] = lambda v, *a, **k: bool(rec(v, *a, **k))
        return env
    envs = [("default", mk(jinja2.Environment)), ("async", mk(jinja2.Environment, enable_async=True)),
            ("sandboxed", mk(SandboxedEnvironment)), ("unoptimized", mk(jinja2.Environment, optimized=False))]
    n = 0
    for _ in range(ctx.pick(60, 600)):
        pos = [rng.choice(["1", "'a'", "i", "tick(2)", "xs[0]", "none", "tick('p')"]) for _ in range(rng.randrange(0, 4))]
        kws = [(k, rng.choice(["3", "'z'", "j", "tick(4)", "true"])) for k in rng.sample(["k", "m", "class", "w"], rng.randrange(0, 3))]

        def spell(split_pos, star_kw, dict_name_kw):
            parts = list(pos[:split_pos])
            if split_pos < len(pos) or rng.random() < 0.3:
                parts.append("*[" + ", ".join(pos[split_pos:]) + "]")
            plain = [] if star_kw else [f"{k}={v}" for k, v in kws if k != "class" or not dict_name_kw]
            parts += plain
            rest = [(k, v) for k, v in kws if f"{k}={v}" not in plain]
            if rest or star_kw and rng.random() < 0.3:
                parts.append("**{" + ", ".join(f"'{k}': {v}" for k, v in rest) + "}")
            return ", ".join(parts)
        spellings = {spell(len(pos), False, False)}
        for _ in range(4):
            spellings.add(spell(rng.randrange(0, len(pos) + 1), rng.random() < 0.5, rng.random() < 0.5))
        data = {"i": 7, "j": 9, "xs": [5, 6], "f": rec, "tick": tick}
        for form, tmpl in (("call", "{{ f(%s) }}"), ("filter", "{{ 0|recf(%s) }}"), ("test", "{{ 0 is rect(%s) }}"),
                           ("call-in-set", "{%% set q = f(%s) %%}{{ q }}"), ("method", "{{ o.f(%s) }}")):
            for ename, env in envs:
                outcomes = {}
                for sp in sorted(spellings):
                    if form in ("filter", "test") and ("*" in sp):
                        continue        # filters and tests take no star arguments in the grammar
                    del seen[:]
                    try:
                        t = env.from_string(tmpl % sp)
                        d = dict(data, o=type("O", (), {"f": staticmethod(rec)})())
                        out = asyncio.run(t.render_async(**d)) if env.is_async else t.render(**d)
                        outcomes[sp] = ("ok", out, list(seen))
                    except Exception as e:  # noqa
                        outcomes[sp] = ("err", type(e).__name__, list(seen))
                    n += 1
                vals = {repr(v) for v in outcomes.values()}
                if len(vals) > 1:
                    a, b = sorted(outcomes.items())[0], sorted(outcomes.items(), key=lambda kv: repr(kv[1]))[-1]
                    res.violate(f"C02:call-spelling:{form}:{ename}",
                                f"{form} with arguments `{a[0]}` gives {a[1]!r} but the equivalent spelling `{b[0]}` gives {b[1]!r} "
                                f"in the {ename} environment", {"spellings": sorted(spellings), "form": form, "env": ename})
    return n


def number_tests_pass(ctx, res, jinja2, rng):
    """`odd`, `even`, `divisibleby` on every kind of exact number.  Props/C02Num.lean proves, about the bodies READ from
    tests.py, that odd/even hold exactly for odd/even INTEGERS (2.5 is neither) and divisibleby exactly for integer
    multiples (zero divisor: ZeroDivisionError); here the implementation is run on ints, bools, dyadic floats and Fractions
    through the test registry, templates (context value and literal in the source), select/reject and compile_expression,
    and compared with those right-hand sides computed with exact Fractions."""
    from fractions import Fraction
    from jinja2.sandbox import SandboxedEnvironment

    def num(n, k, kind):
        if kind == "fraction":
            return Fraction(n, 2 ** k)
        if k == 0 and kind == "int":
            return n
        return n / 2 ** k          # exact: |n| < 2**40, k <= 6

    def spec(name, x, y):
        fx = Fraction(x)
        if name == "odd":
            return ("ok", fx.denominator == 1 and fx.numerator % 2 == 1)
        if name == "even":
            return ("ok", fx.denominator == 1 and fx.numerator % 2 == 0)
        fy = Fraction(y)
        if fy == 0:
            return ("err", "ZeroDivisionError")
        return ("ok", (fx / fy).denominator == 1)

    def lit(x):
        """source spelling of a number (None when it has none: Fractions)"""
        if isinstance(x, Fraction):
            return None
        r = repr(x)
        return None if "e" in r or "inf" in r or "nan" in r else (f"({r})" if r.startswith("-") else r)

    envs = [("default", jinja2.Environment()), ("async", jinja2.Environment(enable_async=True)),
            ("sandboxed", SandboxedEnvironment()), ("unoptimized", jinja2.Environment(optimized=False))]
    small = [0, 1, 2, 3, 4, 5, 7, 8, 10, 15, -1, -2, -3, -6, -7, 12, 100, 2 ** 33 + 1, -(2 ** 35)]
    cases = []
    for n in small:
        for k in (0, 1, 2, 3):
            for kind in ("int", "float", "fraction"):
                cases.append(num(n, k, kind))
    cases += [True, False]
    for _ in range(ctx.pick(60, 600)):
        cases.append(num(rng.randrange(-2 ** 20, 2 ** 20), rng.choice([0, 0, 1, 2, 6]), rng.choice(["int", "float", "fraction"])))
    divisors = [1, 2, 3, -2, 0, 0.5, 2.5, -1.5, 0.0, 4.0, Fraction(1, 2), Fraction(5, 2), True]
    n = 0

    def outcome(f):
        try:
            return ("ok", f())
        except Exception as e:  # noqa
            return ("err", type(e).__name__)

    def check(route, name, x, y, got, want):
        if got != want:
            arg = "" if name != "divisibleby" else f"({y!r})"
            res.violate(f"C02:number-test:{name}:{route.split(':')[-1]}",
                        f"`{x!r} is {name}{arg}` via {route} gives {got!r}; documented (Props/C02Num: odd/even hold exactly for "
                        f"odd/even integers, divisibleby for integer multiples) is {want!r}",
                        {"route": route, "test": name, "value": repr(x), "num": repr(y)})

    def render(env, src, **data):
        t = env.from_string(src)
        return asyncio.run(t.render_async(**data)) if env.is_async else t.render(**data)

    for x in cases:
        for name in ("odd", "even", "divisibleby"):
            ys = [None] if name != "divisibleby" else (divisors if not ctx.quick else rng.sample(divisors, 5))
            for y in ys:
                want = spec(name, x, y)
                wtxt = (want[0], str(want[1])) if want[0] == "ok" else want
                args = () if y is None else (y,)
                for ename, env in envs:
                    n += 1
                    check(f"{ename}:registry", name, x, y, outcome(lambda: env.tests[name](x, *args)), want)
                    call = name if y is None else f"{name}(y)"
                    check(f"{ename}:template", name, x, y, outcome(lambda: render(env, "{{ x is " + call + " }}", x=x, y=y)), wtxt)
                    lx, ly = lit(x), (None if y is None else lit(y))
                    if lx is not None and (y is None or ly is not None) and not isinstance(x, bool) and not isinstance(y, bool):
                        src = "{{ " + lx + " is " + (name if y is None else f"{name}({ly})") + " }}"
                        got = outcome(lambda: render(env, src))
                        check(f"{ename}:literal", name, x, y, got, wtxt)
                    if y is None:
                        sel = outcome(lambda: render(env, "{{ [x]|select('" + name + "')|list|length }}|{{ [x]|reject('" + name + "')|list|length }}", x=x))
                        check(f"{ename}:select", name, x, y, sel, ("ok", "1|0" if want[1] else "0|1"))
                    if not env.is_async:
                        check(f"{ename}:compile_expression", name, x, y, outcome(lambda: env.compile_expression("x is " + call)(x=x, y=y)), want)
    return n


def compile_expression_pass(ctx, res, jinja2, trees, srcs, rng):
    """compile_expression(src)(**data) must be the value itself (not its text)"""
    from jinja2.sandbox import SandboxedEnvironment
    envs = [("default", jinja2.Environment()), ("async", jinja2.Environment(enable_async=True)),
            ("sandboxed", SandboxedEnvironment()), ("unoptimized", jinja2.Environment(optimized=False))]
    v = X.Variant(jinja2)
    k = ctx.pick(400, 3000)
    reqs, jobs = [], []
    for tree, src in list(zip(trees, srcs))[:k]:
        data = X.make_data(jinja2, rng)
        vars_, objs = X.ctx_sx(jinja2, data)
        reqs.append(v.request(tree, vars_, objs))
        jobs.append((tree, src, data))
    reps = core.driver_batch(reqs)
    n = 0
    for i, ((tree, src, data), rep) in enumerate(zip(jobs, reps)):
        want, _ = X.model_result(rep, "value")
        if want == ("err", "oom"):
            continue
        if want[0] == "ok":
            want = ("ok", X.canon(want[1]))
        # the default environment always, one of the others in rotation (async: fixed by /repo aa550d1)
        for ename, env in (envs[0], envs[1 + i % 3]):
            try:
                val = env.compile_expression(src, undefined_to_none=False)(**data)
                got = ("ok", X.canon(X.val_sx(jinja2, val)))
            except ValueError:
                continue
            except Exception as e:  # noqa
                name = type(e).__name__
                got = ("err", X.ERRMAP.get(name, "other:" + name))
            n += 1
            # the default `undefined_to_none=True`: an undefined result becomes None, every other value is itself
            try:
                val2 = env.compile_expression(src)(**data)
                got2 = ("ok", X.canon(X.val_sx(jinja2, val2)))
            except ValueError:
                got2 = None
            except Exception as e:  # noqa
                name = type(e).__name__
                got2 = ("err", X.ERRMAP.get(name, "other:" + name))
            if got2 is not None and got == want:
                want2 = ("ok", X.canon(X.val_sx(jinja2, None))) if (want[0] == "ok" and isinstance(want[1], list) and want[1]
                                                                    and str(want[1][0]) == "u") else want
                if got2 != want2:
                    res.violate(f"C02:compile_expression:undefined_to_none:{tree[0]}",
                                f"compile_expression({src!r}) with the default undefined_to_none=True in the {ename} environment gives "
                                f"{got2!r}; documented: {want2!r} (only an undefined result becomes None)",
                                {"src": src, "tree": core.sx(tree), "env": ename, "data": {k2: repr(x) for k2, x in data.items()}})
            if got != want:
                res.violate(f"C02:compile_expression:{ename}:{tree[0]}" if ename != "default" else f"C02:compile_expression:{tree[0]}",
                            f"compile_expression({src!r}) in the {ename} environment gives {got!r}; documented semantics give {want!r}",
                            {"src": src, "tree": core.sx(tree), "env": ename, "data": {k2: repr(x) for k2, x in data.items()}})
    return n


def replay(ctx, case):
    jinja2 = core.import_jinja()
    c = case["case"]
    env = jinja2.Environment()
    if "test" in c and "value" in c:          # number-tests pass: values are reprs of int / float / Fraction / bool
        from fractions import Fraction
        x = eval(c["value"], {"Fraction": Fraction})
        args = () if c["num"] == "None" else (eval(c["num"], {"Fraction": Fraction}),)
        try:
            return {"registry": repr(env.tests[c["test"]](x, *args))}
        except Exception as e:  # noqa
            return {"registry": type(e).__name__}
    try:
        return {"parsed": core.sx(X.parse_expr(jinja2, env, c["src"]))}
    except Exception as e:  # noqa
        return {"error": repr(e)}
