"""C17 — sandbox: private / internal attributes are never handed to the template."""
from __future__ import annotations

import asyncio

from harness import core
from harness import sandbox_common as sc
from translate import sandbox as tr_sandbox

ID = "C17"
GEN = [tr_sandbox.gen]
LEAN_MODULES = ["JinjaV.Props.C17"]
LEVEL = "proof"
TRUSTED = [
    "translator translate/sandbox.py (decision functions; cross-run against the real functions each run)",
    "that every access route consults the decision functions is established per generated program by the "
    "structural check of the generated Python code and by tracer probes (translation validation / correspondence), "
    "not by a theorem about compiler.py",
]
ASSUMPTIONS = ["is_safe_attribute is not overridden by the application; objects do not hand out private state through public names"]


class Tracer:
    """a value that must never reach the template; any use is logged"""

    def __init__(self, log, name):
        object.__setattr__(self, "_l", log)
        object.__setattr__(self, "_n", name)

    def _use(self, what):
        object.__getattribute__(self, "_l").append((object.__getattribute__(self, "_n"), what))

    def __str__(self):
        self._use("str")
        return "TRACER"

    __repr__ = __str__

    def __html__(self):
        self._use("html")
        return "TRACER"

    def __call__(self, *a, **k):
        self._use("call")
        return "TRACER"

    def __iter__(self):
        self._use("iter")
        return iter(["TRACER"])

    def __len__(self):
        self._use("len")
        return 1

    def __bool__(self):
        self._use("bool")
        return True

    def __eq__(self, other):
        self._use("eq")
        return False

    def __hash__(self):
        self._use("hash")
        return 7

    def __lt__(self, other):
        self._use("lt")
        return False


def make_probe(log):
    class Inner:
        def __init__(self):
            self._deep = Tracer(log, "inner._deep")
            self.ok = "inner-ok"

    class Probe:
        _cls_private = Tracer(log, "Probe._cls_private")

        def __init__(self):
            self._secret = Tracer(log, "_secret")
            self.__dict__["__dunder__"] = Tracer(log, "__dunder__")
            self.public = "pub"
            self.inner = Inner()
            self.seq = [Inner()]

        def _priv_method(self):
            return Tracer(log, "_priv_method()")

        def method(self):
            return "method-ok"

        @property
        def _priv_prop(self):
            return Tracer(log, "_priv_prop")

    class Lazy:
        """serves every name through __getattr__ (proxy / lazy record)"""

        def __getattr__(self, name):
            if name.startswith("_"):
                return Tracer(log, "lazy." + name)
            return "lazy-" + name

    return Probe(), Lazy()


PRIVATE = ["_secret", "_cls_private", "__dunder__", "_priv_method", "_priv_prop", "__class__", "__dict__", "__init__",
           "__reduce_ex__", "__getattribute__"]
LAZY_PRIVATE = ["_x", "__y", "_secret"]


def access_routes(obj, name):
    """templates whose value `v` (if the sandbox were broken) would be the private attribute"""
    q = "'" + name + "'"
    yield "dot", "{%% set v = %s.%s %%}" % (obj, name)
    yield "subscript", "{%% set v = %s[%s] %%}" % (obj, q)
    yield "attr-filter", "{%% set v = %s|attr(%s) %%}" % (obj, q)
    yield "map-attribute", "{%% set v = [%s]|map(attribute=%s)|first %%}" % (obj, q)
    yield "map-attr-filter", "{%% set v = [%s]|map('attr', %s)|first %%}" % (obj, q)
    yield "format-attr", "{%% set v = '{0.%s}'.format(%s) %%}" % (name, obj)
    yield "format-kw", "{%% set v = '{p.%s}'.format(p=%s) %%}" % (name, obj)
    yield "format-item", "{%% set v = '{0[%s]}'.format(%s) %%}" % (name, obj)
    yield "format-map", "{%% set v = '{p.%s}'.format_map({'p': %s}) %%}" % (name, obj)
    yield "format-stored", "{%% set f = '{0.%s}'.format %%}{%% set v = f(%s) %%}" % (name, obj)
    yield "markup-format", "{%% set v = ('{0.%s}'|safe).format(%s) %%}" % (name, obj)
    yield "markup-data-format", "{%% set v = mk_%s.format(%s) %%}" % (name.strip("_") or "u", obj)
    yield "sort-attribute", "{%% set v = [%s, %s]|sort(attribute=%s)|list %%}" % (obj, obj, q)
    yield "join-attribute", "{%% set v = [%s]|join(',', attribute=%s) %%}" % (obj, q)
    yield "sum-attribute", "{%% set v = [%s]|sum(attribute=%s, start='') %%}" % (obj, q)
    yield "groupby", "{%% set v = [%s]|groupby(%s)|list %%}" % (obj, q)
    yield "unique-attribute", "{%% set v = [%s, %s]|unique(attribute=%s)|list %%}" % (obj, obj, q)
    yield "min-attribute", "{%% set v = [%s, %s]|min(attribute=%s) %%}" % (obj, obj, q)
    yield "selectattr", "{%% set v = [%s]|selectattr(%s)|list %%}" % (obj, q)
    yield "rejectattr", "{%% set v = [%s]|rejectattr(%s, 'none')|list %%}" % (obj, q)
    yield "dictsort-like", "{%% set v = [%s]|map(attribute=%s)|list %%}" % (obj, q)
    yield "loop", "{%% for o in [%s] %%}{%% set v = o.%s %%}{{ leak(v) }}{%% endfor %%}{%% set v = none %%}" % (obj, name)
    yield "macro-arg", "{%% macro m(o) %%}{{ leak(o.%s) }}{%% endmacro %%}{{ m(%s) }}{%% set v = none %%}" % (name, obj)


INTERNAL_EXPRS = [
    ("fn", "__globals__"), ("fn", "__code__"), ("fn", "__closure__"), ("gen", "gi_frame"), ("gen", "gi_code"),
    ("coro", "cr_frame"), ("coro", "cr_code"), ("agen", "ag_frame"), ("agen", "ag_code"), ("cls", "mro"),
    ("cls", "__subclasses__"), ("cls", "__mro__"), ("meth", "__self__"), ("meth", "__func__"), ("code", "co_code"),
    ("code", "co_consts"), ("frame", "f_locals"), ("frame", "f_globals"), ("frame", "f_back"), ("tb", "tb_frame"),
    ("s", "__class__"), ("lst", "__class__"), ("dct", "__class__"), ("dq", "__reduce_ex__"), ("st", "__class__"),
    ("num", "__class__"), ("none_v", "__class__"),
]


def run(ctx, res):
    jinja2 = core.import_jinja()
    from jinja2 import sandbox
    from jinja2.runtime import Undefined
    from markupsafe import Markup
    import collections
    import sys

    n_cross = sc.decision_crosscheck(res, "C17")
    evaluations, distinct, structural_programs = 0, set(), 0
    outcomes = {}
    envs = [
        ("sandboxed", sandbox.SandboxedEnvironment()),
        ("immutable", sandbox.ImmutableSandboxedEnvironment()),
        ("sandboxed-async", sandbox.SandboxedEnvironment(enable_async=True)),
        ("sandboxed-autoescape", sandbox.SandboxedEnvironment(autoescape=True)),
    ]

    def special_objects():
        def fn():
            pass

        def gen():
            yield 1

        async def co():
            return 1

        async def ag():
            yield 1

        class K:
            def m(self):
                pass

        try:
            raise ValueError
        except ValueError:
            tb = sys.exc_info()[2]
        c = co()
        return {"fn": fn, "gen": gen(), "coro": c, "agen": ag(), "cls": K, "meth": K().m, "code": fn.__code__,
                "frame": tb.tb_frame, "tb": tb, "s": "str", "lst": [1], "dct": {"a": 1}, "dq": collections.deque([1]),
                "st": {1}, "num": 3, "none_v": None}, c

    def one(envname, env, src, data, log, leaks, key, what):
        nonlocal evaluations, structural_programs
        leaks.clear()
        del log[:]
        direct = key.split(":")[1] in ("dot", "subscript", "attr-filter", "map-attribute", "map-attr-filter", "control")
        full = src + ("{{ leak(v) }}" if direct else "{{ v }}")
        try:
            code = env.compile(full, raw=True)
            sv = sc.structural_violations(code, sandboxed=True)
            structural_programs += 1
            if sv:
                res.violate(f"C17:structural:{sv[0][0]}", f"generated code of {full!r} accesses a template value directly: {sv[0][1]}",
                            {"src": full, "env": envname, "snippets": sv[:3]})
            t = env.from_string(full)
            out = asyncio.run(t.render_async(**data)) if env.is_async else t.render(**data)
            err = None
        except Exception as e:  # noqa
            out, err = "", type(e).__name__
        evaluations += 1
        outcomes[err or "rendered"] = outcomes.get(err or "rendered", 0) + 1
        leaked = bool(leaks) or bool(log) or "TRACER" in out
        if leaked:
            res.violate(key, f"{envname}: {full!r} handed a private/internal attribute to the template "
                             f"({what}; leak() got {leaks[:2]!r}, tracer uses {log[:3]!r}, output {out[:60]!r})",
                        {"src": full, "env": envname})
        return out, err

    for envname, env in envs:
        log, leaks = [], []

        def leak(v, _leaks=leaks):
            if not isinstance(v, Undefined) and v is not None and v != "" and v != [] and "Undefined" not in str(type(v)):
                # lists produced by filters over undefined values are fine; real values are not
                if isinstance(v, list) and all(isinstance(i, Undefined) for i in v):
                    return ""
                _leaks.append(type(v).__name__)
            return ""

        env.globals["leak"] = leak
        probe, lazy = make_probe(log)
        data = {"p": probe, "lz": lazy}
        for n in PRIVATE + LAZY_PRIVATE:
            data["mk_" + (n.strip("_") or "u")] = Markup("{0.%s}" % n)
        for obj, names in (("p", PRIVATE), ("lz", LAZY_PRIVATE), ("p.inner", ["_deep"]), ("p.seq[0]", ["_deep"])):
            for name in names:
                for rname, src in access_routes(obj, name):
                    distinct.add((envname, obj, name, rname))
                    one(envname, env, src, data, log, leaks, f"C17:{rname}:{'lazy' if obj == 'lz' else 'probe'}",
                        f"object {obj}, name {name!r}, route {rname}")
        # internal attributes of special objects
        sp, coro = special_objects()
        for obj, name in INTERNAL_EXPRS:
            for rname, src in list(access_routes(obj, name))[:11]:
                distinct.add((envname, obj, name, rname))
                d2 = dict(sp)
                d2["mk_" + (name.strip("_") or "u")] = Markup("{0.%s}" % name)
                one(envname, env, src, d2, log, leaks, f"C17:{rname}:internal:{obj}", f"object {obj}, name {name!r}, route {rname}")
        coro.close()
        # controls: public attributes are handed out (the probe is not vacuous)
        for src, exp in (("{% set v = none %}{{ p.public }}|{{ p.method() }}|{{ p.inner.ok }}|{{ lz.name }}|{{ '{0.public}'.format(p) }}",
                          "pub|method-ok|inner-ok|lazy-name|pub"),):
            out, err = one(envname, env, src, data, log, leaks, "C17:control", "control")
            if out != exp:
                raise core.HarnessError(f"C17 control failed in {envname}: {out!r} {err}")

    res.coverage.update({
        "evaluations": evaluations + n_cross,
        "distinct_nontrivial": len(distinct),
        "rule": ("adversarial access grammar: {probe with private instance/class/property/method/dunder attributes, "
                 "lazy __getattr__ proxy, nested objects, 16 kinds of special objects with internal attributes} x "
                 "{23 routes: dot, subscript, |attr, map(attribute=), map('attr'), 6 format/format_map/Markup.format/"
                 "stored-method forms, sort/join/sum/groupby/unique/min/selectattr/rejectattr attribute arguments, "
                 "loop, macro argument} x {sandboxed, immutable, async, autoescape}; oracle = no tracer use, leak() "
                 "never receives a defined value; every program's generated code is checked structurally; plus the "
                 "cross-run of the translated decision functions"),
        "samples": [{"src": "{% set v = '{0._secret}'.format(p) %}{{ leak(v) }}"}, {"src": "{% set v = gen.gi_frame %}{{ leak(v) }}"}],
        "structural_programs": structural_programs,
        "decision_crosscheck_cases": n_cross,
        "outcomes": outcomes,
    })


def replay(ctx, case):
    return case["case"]
