"""C17 — sandbox: private / internal attributes are never handed to the template."""
from __future__ import annotations

import asyncio

from harness import c17_access as ca
from harness import core
from harness import sandbox_common as sc
from translate import access_paths as tr_access
from translate import sandbox as tr_sandbox

ID = "C17"
GEN = [tr_sandbox.gen, tr_access.gen]
LEAN_MODULES = ["JinjaV.Props.C17"]
LEVEL = "proof"
TRUSTED = [
    "translator translate/sandbox.py (decision functions; cross-run against the real functions each run)",
    "translator translate/access_paths.py (whole bodies of SandboxedEnvironment.getitem/getattr/unsafe_undefined/"
    "wrap_str_format, SandboxedFormatter.get_field, Environment.getitem/getattr; every one of the 576 abstract worlds is "
    "realised by a concrete object/argument and cross-run against the real methods each run); the abstraction itself: a "
    "lookup method observes its inputs only through type(argument)/isinstance(argument, str), obj[argument], "
    "getattr(obj, name), wrap_str_format and is_safe_attribute (anything else in the body is untranslatable)",
    "that every access route consults the decision functions is established per generated program by the "
    "structural check of the generated Python code and by tracer probes (translation validation / correspondence), "
    "not by a theorem about compiler.py",
]
CLAIM = dict(
    category="proof",
    technique="Lean 4 proofs over the sandbox decision functions AND the whole bodies of the lookup methods "
              "(getitem/getattr/unsafe_undefined/wrap_str_format/get_field, plus the base-environment methods a super() "
              "call reaches) regenerated from sandbox.py/environment.py by Python-ast translators + world-by-world "
              "cross-run of the regenerated methods against the real ones + adversarial access-route x key-kind probes "
              "with tracer objects + structural validation of generated code",
    text="Theorems (Props/C17.lean over Gen/Sandbox.lean and Gen/AccessPaths.lean): for every object and attribute "
         "name, what is_safe_attribute admits neither starts with an underscore nor is internal (safe_attr_decision, "
         "also for the immutable subclass); every dunder name is internal on every object; the documented internal "
         "attributes (mro, gi_*, cr_*, ag_*, everything on code/frame/traceback) are internal. For EVERY kind of "
         "subscript/attribute argument (exact str, str subclass such as Markup, int, other) and every way obj[arg] "
         "and getattr(obj, name) can end, SandboxedEnvironment.getitem and getattr return the raw attribute value "
         "only if is_safe_attribute said yes and the value is not a str.format/format_map method (getitem_checked, "
         "getattr_checked; composed with the decision theorems in access_sound / access_sound_immutable); an existing "
         "unsafe attribute is answered with unsafe_undefined, which raises SecurityError (unsafe_attr_refused); every "
         "bound format/format_map of a str is wrapped and the wrapper formats through SandboxedFormatter, whose "
         "get_field resolves each step with env.getattr/env.getitem (format_methods_wrapped, format_fields_sandboxed). "
         "The method bodies are read whole: an early return, a type test on the argument or a delegation to super() "
         "is part of the regenerated function (the base Environment.getitem/getattr are translated too) or makes the "
         "translator fail. Tie: translated decision functions and all 576 abstract worlds x 3 realisations x "
         "{sandboxed, immutable, base} cross-run against the real methods; 23 access routes with literal names plus "
         "the product {28 ways a template can build a key: literal, context str, |safe, |e, |escape, |forceescape, "
         "set-block/macro/join/~ under autoescape, Markup +/%, filter chains, Markup and str-subclass instances from "
         "the context, int/none/tuple/float} x {21 lookup routes: obj[key], |attr, map/selectattr/rejectattr/sort/"
         "groupby/unique/min/max/sum/join attribute arguments, dotted attribute paths} and x {9 ways to fetch "
         "format/format_map off a string by key} x probe objects (private instance/class/property/method/dunder "
         "attributes, __getattr__ proxy, nested objects, 16 special objects) x 8 environments (sandboxed/immutable x "
         "sync/async x autoescape on/off), with the generated code of every program checked structurally (no "
         "attribute/subscript/call on l_N_* values).",
    note="Trusted: Lean kernel; the two translators; the abstraction of a lookup method to its observable inputs; that "
         "each template route consults getitem/getattr is shown per program (translation validation + probes), not by a "
         "theorem about compiler.py/filters.py.",
    design_ref="§5 C17, design/C17.md",
)
ASSUMPTIONS = ["is_safe_attribute is not overridden by the application; objects do not hand out private state through public names"]


class Tracer:
    """a value that must never reach the template; any use is logged"""

    def __init__(self, log, name):
        object.__setattr__(self, "_l", log)
        object.__setattr__(self, "_n", name)

    def _use(self, what):
        object.__getattribute__(self, "_l").append((object.__getattribute__(self, "_n"), what))

    def __str__(self):
        self._use("str")
        return "TRACER"

    __repr__ = __str__

    def __html__(self):
        self._use("html")
        return "TRACER"

    def __call__(self, *a, **k):
        self._use("call")
        return "TRACER"

    def __iter__(self):
        self._use("iter")
        return iter(["TRACER"])

    def __len__(self):
        self._use("len")
        return 1

    def __bool__(self):
        self._use("bool")
        return True

    def __eq__(self, other):
        self._use("eq")
        return False

    def __hash__(self):
        self._use("hash")
        return 7

    def __lt__(self, other):
        self._use("lt")
        return False

    def __add__(self, other):
        self._use("add")
        return "TRACER"

    __radd__ = __add__


def make_probe(log):
    class Inner:
        def __init__(self):
            self._deep = Tracer(log, "inner._deep")
            self.ok = "inner-ok"

    class Probe:
        _cls_private = Tracer(log, "Probe._cls_private")

        def __init__(self):
            self._secret = Tracer(log, "_secret")
            self.__dict__["__dunder__"] = Tracer(log, "__dunder__")
            self.public = "pub"
            self.inner = Inner()
            self.seq = [Inner()]

        def _priv_method(self):
            return Tracer(log, "_priv_method()")

        def method(self):
            return "method-ok"

        @property
        def _priv_prop(self):
            return Tracer(log, "_priv_prop")

    class Lazy:
        """serves every name through __getattr__ (proxy / lazy record)"""

        def __getattr__(self, name):
            if name.startswith("_"):
                return Tracer(log, "lazy." + name)
            return "lazy-" + name

    return Probe(), Lazy()


PRIVATE = ["_secret", "_cls_private", "__dunder__", "_priv_method", "_priv_prop", "__class__", "__dict__", "__init__",
           "__reduce_ex__", "__getattribute__"]
LAZY_PRIVATE = ["_x", "__y", "_secret"]


def access_routes(obj, name):
    """templates whose value `v` (if the sandbox were broken) would be the private attribute"""
    q = "'" + name + "'"
    yield "dot", "{%% set v = %s.%s %%}" % (obj, name)
    yield "subscript", "{%% set v = %s[%s] %%}" % (obj, q)
    yield "attr-filter", "{%% set v = %s|attr(%s) %%}" % (obj, q)
    yield "map-attribute", "{%% set v = [%s]|map(attribute=%s)|first %%}" % (obj, q)
    yield "map-attr-filter", "{%% set v = [%s]|map('attr', %s)|first %%}" % (obj, q)
    yield "format-attr", "{%% set v = '{0.%s}'.format(%s) %%}" % (name, obj)
    yield "format-kw", "{%% set v = '{p.%s}'.format(p=%s) %%}" % (name, obj)
    yield "format-item", "{%% set v = '{0[%s]}'.format(%s) %%}" % (name, obj)
    yield "format-map", "{%% set v = '{p.%s}'.format_map({'p': %s}) %%}" % (name, obj)
    yield "format-stored", "{%% set f = '{0.%s}'.format %%}{%% set v = f(%s) %%}" % (name, obj)
    yield "markup-format", "{%% set v = ('{0.%s}'|safe).format(%s) %%}" % (name, obj)
    yield "markup-data-format", "{%% set v = mk_%s.format(%s) %%}" % (name.strip("_") or "u", obj)
    yield "sort-attribute", "{%% set v = [%s, %s]|sort(attribute=%s)|list %%}" % (obj, obj, q)
    yield "join-attribute", "{%% set v = [%s]|join(',', attribute=%s) %%}" % (obj, q)
    yield "sum-attribute", "{%% set v = [%s]|sum(attribute=%s, start='') %%}" % (obj, q)
    yield "groupby", "{%% set v = [%s]|groupby(%s)|list %%}" % (obj, q)
    yield "unique-attribute", "{%% set v = [%s, %s]|unique(attribute=%s)|list %%}" % (obj, obj, q)
    yield "min-attribute", "{%% set v = [%s, %s]|min(attribute=%s) %%}" % (obj, obj, q)
    yield "selectattr", "{%% set v = [%s]|selectattr(%s)|list %%}" % (obj, q)
    yield "rejectattr", "{%% set v = [%s]|rejectattr(%s, 'none')|list %%}" % (obj, q)
    yield "dictsort-like", "{%% set v = [%s]|map(attribute=%s)|list %%}" % (obj, q)
    yield "loop", "{%% for o in [%s] %%}{%% set v = o.%s %%}{{ leak(v) }}{%% endfor %%}{%% set v = none %%}" % (obj, name)
    yield "macro-arg", "{%% macro m(o) %%}{{ leak(o.%s) }}{%% endmacro %%}{{ m(%s) }}{%% set v = none %%}" % (name, obj)


INTERNAL_EXPRS = [
    ("fn", "__globals__"), ("fn", "__code__"), ("fn", "__closure__"), ("gen", "gi_frame"), ("gen", "gi_code"),
    ("coro", "cr_frame"), ("coro", "cr_code"), ("agen", "ag_frame"), ("agen", "ag_code"), ("cls", "mro"),
    ("cls", "__subclasses__"), ("cls", "__mro__"), ("meth", "__self__"), ("meth", "__func__"), ("code", "co_code"),
    ("code", "co_consts"), ("frame", "f_locals"), ("frame", "f_globals"), ("frame", "f_back"), ("tb", "tb_frame"),
    ("s", "__class__"), ("lst", "__class__"), ("dct", "__class__"), ("dq", "__reduce_ex__"), ("st", "__class__"),
    ("num", "__class__"), ("none_v", "__class__"),
]

# ---------------------------------------------------------------------------------------------------
# every way a template can build the subscript / attribute-name argument
# ---------------------------------------------------------------------------------------------------

def _q(s):
    return "'" + s + "'"


def _split(name):
    h = max(1, len(name) // 2)
    return name[:h], name[h:]


# kind -> (setup prefix, key expression); {i} is the index of the name in the data (k_str_i, k_mk_i, …)
KEY_KINDS = [
    ("literal", lambda n, i: ("", _q(n))),
    ("ctx-str", lambda n, i: ("", f"k_str_{i}")),
    ("safe", lambda n, i: ("", f"{_q(n)}|safe")),
    ("e", lambda n, i: ("", f"{_q(n)}|e")),
    ("escape", lambda n, i: ("", f"{_q(n)}|escape")),
    ("forceescape", lambda n, i: ("", f"{_q(n)}|forceescape")),
    ("set-block", lambda n, i: ("{% set kb %}" + n + "{% endset %}", "kb")),
    ("set-block-filter", lambda n, i: ("{% set kb | trim %} " + n + " {% endset %}", "kb")),
    ("set-expr-safe", lambda n, i: ("{% set ks = " + _q(n) + "|safe %}", "ks")),
    ("macro", lambda n, i: ("{% macro mk() %}" + n + "{% endmacro %}", "mk()")),
    ("call-block", lambda n, i: ("{% macro mc() %}{{ caller() }}{% endmacro %}{% set kc %}{% call mc() %}" + n
                                 + "{% endcall %}{% endset %}", "kc")),
    ("tilde-markup", lambda n, i: ("", f"({_q(_split(n)[0])}|safe) ~ {_q(_split(n)[1])}")),
    ("tilde-plain", lambda n, i: ("", f"{_q(_split(n)[0])} ~ {_q(_split(n)[1])}")),
    ("plus-markup", lambda n, i: ("", f"({_q(_split(n)[0])}|safe) + {_q(_split(n)[1])}")),
    ("percent-markup", lambda n, i: ("", f"('%s'|safe) % {_q(n)}")),
    ("format-filter", lambda n, i: ("", f"'%s'|safe|format({_q(n)})")),
    ("join-filter", lambda n, i: ("", f"[{_q(_split(n)[0])}|safe, {_q(_split(n)[1])}]|join")),
    ("safe-trim", lambda n, i: ("", f"{_q(n)}|safe|trim")),
    ("safe-string", lambda n, i: ("", f"{_q(n)}|safe|string")),
    ("list-first", lambda n, i: ("", f"[{_q(n)}|safe]|first")),
    ("loop-var", lambda n, i: ("{% set ns = namespace(k='') %}{% for x in [" + _q(n) + "|safe] %}{% set ns.k = x %}{% endfor %}", "ns.k")),
    ("ctx-markup", lambda n, i: ("", f"k_mk_{i}")),
    ("ctx-strsub", lambda n, i: ("", f"k_my_{i}")),
    ("ctx-strsub-split", lambda n, i: ("", f"k_ks_{i}")),
    ("int", lambda n, i: ("", "0")),
    ("none", lambda n, i: ("", "none")),
    ("tuple", lambda n, i: ("", "(1, 2)")),
    ("float", lambda n, i: ("", "1.5")),
]
NONSTR_KINDS = {"int", "none", "tuple", "float"}


def key_routes(obj, k):
    """lookup routes taking a *computed* key `k` (an expression); (name, template setting v, direct?)"""
    yield "subscript", "{%% set v = %s[%s] %%}" % (obj, k), True
    yield "attr-filter", "{%% set v = %s|attr(%s) %%}" % (obj, k), True
    yield "map-attr-filter", "{%% set v = [%s]|map('attr', %s)|first %%}" % (obj, k), True
    yield "map-attribute", "{%% set v = [%s]|map(attribute=%s)|first %%}" % (obj, k), True
    yield "map-attribute-default", "{%% set v = [%s]|map(attribute=%s, default=none)|first %%}" % (obj, k), True
    yield "selectattr", "{%% set v = [%s]|selectattr(%s)|list %%}" % (obj, k), False
    yield "selectattr-test", "{%% set v = [%s]|selectattr(%s, 'string')|list %%}" % (obj, k), False
    yield "rejectattr", "{%% set v = [%s]|rejectattr(%s)|list %%}" % (obj, k), False
    yield "rejectattr-test", "{%% set v = [%s]|rejectattr(%s, 'none')|list %%}" % (obj, k), False
    yield "sort-attribute", "{%% set v = [%s, %s]|sort(attribute=%s)|list %%}" % (obj, obj, k), False
    yield "groupby", "{%% set v = [%s]|groupby(%s)|list %%}" % (obj, k), False
    yield "groupby-kw", "{%% set v = [%s]|groupby(attribute=%s)|list %%}" % (obj, k), False
    yield "unique-attribute", "{%% set v = [%s, %s]|unique(attribute=%s)|list %%}" % (obj, obj, k), False
    yield "min-attribute", "{%% set v = [%s, %s]|min(attribute=%s) %%}" % (obj, obj, k), False
    yield "max-attribute", "{%% set v = [%s, %s]|max(attribute=%s) %%}" % (obj, obj, k), False
    yield "sum-attribute", "{%% set v = [%s]|sum(attribute=%s, start='') %%}" % (obj, k), False
    yield "join-attribute", "{%% set v = [%s]|join(',', attribute=%s) %%}" % (obj, k), False
    yield "nested-subscript", "{%% set v = {'o': %s}['o'][%s] %%}" % (obj, k), True
    yield "loop-subscript", "{%% for o in [%s] %%}{{ leak(o[%s]) }}{%% endfor %%}{%% set v = none %%}" % (obj, k), True
    yield "macro-subscript", "{%% macro m(o, kk) %%}{{ leak(o[kk]) }}{%% endmacro %%}{{ m(%s, %s) }}{%% set v = none %%}" % (obj, k), True
    yield "cond-subscript", "{%% set v = %s[%s] if true else none %%}" % (obj, k), True


DIRECT_ROUTES = ("subscript", "attr-filter", "map-attr-filter", "map-attribute")


def format_key_routes(name, obj, kf, kfm):
    """`format` / `format_map` fetched off a string through a computed key (kf / kfm), then applied to the probe"""
    yield "fmtkey-subscript", "{%% set v = '{0.%s}'[%s](%s) %%}" % (name, kf, obj)
    yield "fmtkey-subscript-item", "{%% set v = '{0[%s]}'[%s](%s) %%}" % (name, kf, obj)
    yield "fmtkey-map-subscript", "{%% set v = '{p.%s}'[%s]({'p': %s}) %%}" % (name, kfm, obj)
    yield "fmtkey-markup-subscript", "{%% set v = ('{0.%s}'|safe)[%s](%s) %%}" % (name, kf, obj)
    yield "fmtkey-attr-filter", "{%% set v = ('{0.%s}'|attr(%s))(%s) %%}" % (name, kf, obj)
    yield "fmtkey-map-attribute", "{%% set v = (['{0.%s}']|map(attribute=%s)|first)(%s) %%}" % (name, kf, obj)
    yield "fmtkey-stored", "{%% set f = '{0.%s}'[%s] %%}{%% set v = f(%s) %%}" % (name, kf, obj)
    yield "fmtkey-data-markup", "{%% set v = mk_%s[%s](%s) %%}" % (name.strip("_") or "u", kf, obj)
    yield "fmtkey-ctx-string", "{%% set v = fs_%s[%s](%s) %%}" % (name.strip("_") or "u", kf, obj)


ENVS = [(cls, a, ae) for cls in ("sandboxed", "immutable") for a in (False, True) for ae in (False, True)]


def env_name(cls, is_async, autoescape):
    return cls + ("-async" if is_async else "") + ("-autoescape" if autoescape else "")


def make_env(name):
    from jinja2 import sandbox
    parts = name.split("-")
    cls = sandbox.ImmutableSandboxedEnvironment if parts[0] == "immutable" else sandbox.SandboxedEnvironment
    return cls(enable_async="async" in parts, autoescape="autoescape" in parts)


ALL_NAMES = sorted(set(PRIVATE + LAZY_PRIVATE + ["_deep", "inner._deep", "format", "format_map"] + [n for _, n in INTERNAL_EXPRS]))


def special_objects():
    import collections
    import sys

    def fn():
        pass

    def gen():
        yield 1

    async def co():
        return 1

    async def ag():
        yield 1

    class K:
        def m(self):
            pass

    try:
        raise ValueError
    except ValueError:
        tb = sys.exc_info()[2]
    c = co()
    return {"fn": fn, "gen": gen(), "coro": c, "agen": ag(), "cls": K, "meth": K().m, "code": fn.__code__,
            "frame": tb.tb_frame, "tb": tb, "s": "str", "lst": [1], "dct": {"a": 1}, "dq": collections.deque([1]),
            "st": {1}, "num": 3, "none_v": None}, c


def make_data(log):
    """the context every generated template is rendered with (rebuilt for a replay)"""
    from markupsafe import Markup

    class MyStr(str):
        pass

    class KeepStr(str):
        """a str subclass whose split keeps the subclass (as Markup's does)"""

        def split(self, *a, **k):
            return [KeepStr(x) for x in str.split(self, *a, **k)]

    probe, lazy = make_probe(log)
    data = {"p": probe, "lz": lazy}
    for n in sorted(set(PRIVATE + LAZY_PRIVATE + [n for _, n in INTERNAL_EXPRS] + ["_deep"])):
        data["mk_" + (n.strip("_") or "u")] = Markup("{0.%s}" % n)
        data["fs_" + (n.strip("_") or "u")] = "{0.%s}" % n
    for i, n in enumerate(ALL_NAMES):
        data[f"k_str_{i}"] = n
        data[f"k_mk_{i}"] = Markup(n)
        data[f"k_my_{i}"] = MyStr(n)
        data[f"k_ks_{i}"] = KeepStr(n)
    sp, coro = special_objects()
    data.update(sp)
    return data, coro


def make_leak(leaks):
    from jinja2.runtime import Undefined

    def leak(v, _leaks=leaks):
        if not isinstance(v, Undefined) and v is not None and v != "" and v != [] and "Undefined" not in str(type(v)):
            # lists produced by filters over undefined values are fine; real values are not
            if isinstance(v, list) and all(isinstance(i, Undefined) for i in v):
                return ""
            _leaks.append(type(v).__name__)
        return ""
    return leak


_LOOP = []


def _loop():
    if not _LOOP or _LOOP[0].is_closed():
        _LOOP[:] = [asyncio.new_event_loop()]
    return _LOOP[0]


def render_case(env, full, data, code=None):
    """render `full`; with `code` (the generated Python source of `full`, as checked structurally) the template is
    built from exactly that code (what Environment.from_string does, minus generating it a second time)"""
    try:
        if code is None:
            t = env.from_string(full)
        else:
            t = env.template_class.from_code(env, env._compile(code, "<template>"), env.make_globals(None), None)
        out = _loop().run_until_complete(t.render_async(**data)) if env.is_async else t.render(**data)
        return out, None
    except Exception as e:  # noqa
        return "", type(e).__name__


def run(ctx, res):
    core.import_jinja()
    full_product = not ctx.quick

    n_cross = sc.decision_crosscheck(res, "C17")
    n_access, access_kinds, n_drift, n_api_leaks = ca.crosscheck(res, variants=3)
    n_wrap = ca.wrap_crosscheck(res)
    cex = ca.counterexamples()
    # a changed Gen file over which every theorem is re-proved and which agrees with the real methods world by world
    # needs no wider search; a failing translator, failing proof or a model/implementation difference does
    intensify = bool(ctx.tie_broken or ctx.proof_broken or n_drift or cex)
    if cex:
        names = sorted({m for m, _ in cex})
        res.violate("C17:tie:lookup-methods",
                    "theorems " + "/".join(f"{m}_checked" for m in names) + " (Props/C17.lean) are false over the regenerated "
                    "SandboxedEnvironment." + "/".join(names) + f": {len(cex)} abstract worlds hand out the raw attribute without "
                    "is_safe_attribute / wrap_str_format, e.g. " + "; ".join(
                        f"{m}: argument kind {w[0]}, obj[arg] -> {w[1]}, getattr -> {w[2]}, value is format method={w[3]}, "
                        f"is_safe_attribute={w[4]}" for m, w in cex[:3]),
                    {"theorems": [f"JinjaV.C17.{m}_checked" for m in names], "abstract_counterexamples": [[m, list(w)] for m, w in cex[:40]],
                     "proof_broken": list(ctx.proof_broken), "gen_changed": list(ctx.gen_changed)}, no_input=True)
        res.notes.append("abstract counterexamples of getitem_checked/getattr_checked over the regenerated methods "
                         "(method, [arg kind, obj[arg], getattr, isFormat, is_safe_attribute]): " + repr(cex[:6]))
    evaluations, distinct, structural_programs = 0, set(), 0
    outcomes, kinds_hit, routes_hit, key_types = {}, {}, {}, {}
    reported = {"n": 0, "suppressed": 0}
    cap = 12

    def one(envname, env, src, data, log, leaks, key, what, direct=None, capped=False):
        nonlocal evaluations, structural_programs
        leaks.clear()
        del log[:]
        if direct is None:
            direct = key.split(":")[1] in ("dot", "subscript", "attr-filter", "map-attribute", "map-attr-filter", "control")
        full = src + ("{{ leak(v) }}" if direct else "{{ v }}")
        err, out = None, ""
        try:
            code = env.compile(full, raw=True)
            sv = sc.structural_violations(code, sandboxed=True)
            structural_programs += 1
            if sv:
                res.violate(f"C17:structural:{sv[0][0]}", f"generated code of {full!r} accesses a template value directly: {sv[0][1]}",
                            {"src": full, "env": envname, "snippets": sv[:3]})
            out, err = render_case(env, full, data, code)
        except Exception as e:  # noqa
            out, err = "", type(e).__name__
        evaluations += 1
        outcomes[err or "rendered"] = outcomes.get(err or "rendered", 0) + 1
        leaked = bool(leaks) or bool(log) or "TRACER" in out
        if leaked:
            if capped and reported["n"] >= cap and not any(v.key == key for v in res.violations):
                reported["suppressed"] += 1
            else:
                if capped and not any(v.key == key for v in res.violations):
                    reported["n"] += 1
                res.violate(key, f"{envname}: {full!r} handed a private/internal attribute to the template "
                                 f"({what}; leak() got {leaks[:2]!r}, tracer uses {log[:3]!r}, output {out[:60]!r})",
                            {"src": full, "env": envname, "data": "harness.props.c17.make_data (probe p, proxy lz, special "
                                                                "objects, k_*/mk_*/fs_* keys)",
                             "observed": {"leak_got": leaks[:3], "tracer_uses": [list(x) for x in log[:3]], "output": out[:120], "error": err},
                             "expected": "v is undefined (or SecurityError); no tracer is used"})
        return out, err

    name_index = {n: i for i, n in enumerate(ALL_NAMES)}
    samples = []
    passes = [full_product]
    while passes:
        full_product = passes.pop(0)
        for cls, is_async, ae in ENVS:
            envname = env_name(cls, is_async, ae)
            env = make_env(envname)
            log, leaks = [], []
            env.globals["leak"] = make_leak(leaks)
            data, coro = make_data(log)
            rng = ctx.rng("e2e", envname)

            # (1) the 23 routes with literal names (quick: the four configurations sandboxed / immutable /
            # sandboxed-async / sandboxed-autoescape; otherwise all eight) ------------------------------------
            literal_here = full_product or envname in ("sandboxed", "immutable", "sandboxed-async", "sandboxed-autoescape")
            for obj, names in (("p", PRIVATE), ("lz", LAZY_PRIVATE), ("p.inner", ["_deep"]), ("p.seq[0]", ["_deep"])) if literal_here else ():
                for name in names:
                    for rname, src in access_routes(obj, name):
                        distinct.add((envname, obj, name, rname))
                        one(envname, env, src, data, log, leaks, f"C17:{rname}:{'lazy' if obj == 'lz' else 'probe'}",
                            f"object {obj}, name {name!r}, route {rname}")
            for obj, name in INTERNAL_EXPRS if literal_here else ():
                for rname, src in list(access_routes(obj, name))[:11]:
                    distinct.add((envname, obj, name, rname))
                    one(envname, env, src, data, log, leaks, f"C17:{rname}:internal:{obj}", f"object {obj}, name {name!r}, route {rname}")

            # (2) key kinds x lookup routes -------------------------------------------------------------------
            # core pairs: the full product in every tier; the other pairs: full product when thorough / intensified,
            # a seeded sample otherwise
            core_pairs = [("p", "_secret", "probe"), ("lz", "_x", "lazy"), ("p", "__class__", "probe"), ("fn", "__globals__", "internal:fn")]
            if not full_product and not literal_here:
                core_pairs = core_pairs[:2]          # quick: the four secondary configurations take two core pairs
            other_pairs = [c for c in [("p", "__class__", "probe"), ("fn", "__globals__", "internal:fn")] if c not in core_pairs] \
                + [("p", n, "probe") for n in PRIVATE if n not in ("_secret", "__class__")] \
                + [("lz", n, "lazy") for n in LAZY_PRIVATE if n != "_x"] + [("p.inner", "_deep", "probe"), ("p.seq[0]", "_deep", "probe"),
                                                                          ("p", "inner._deep", "probe-dotted")] \
                + [(o, n, "internal:" + o) for o, n in INTERNAL_EXPRS if (o, n) != ("fn", "__globals__")]

            def product(pairs, select):
                for obj, name, oclass in pairs:
                    for kind, mk in KEY_KINDS:
                        prefix, kexpr = mk(name, name_index[name])
                        for rname, body, direct in key_routes(obj, "(" + kexpr + ")"):
                            if kind == "none" and rname not in ("subscript", "attr-filter", "map-attr-filter", "nested-subscript",
                                                                "loop-subscript", "macro-subscript", "cond-subscript"):
                                continue                # attribute=none means "the item itself"
                            if kind in NONSTR_KINDS and obj in ("s", "lst", "dct", "dq", "st"):
                                continue                # an index / key of a container is an item, not an attribute
                            if oclass.startswith("internal") and not direct:
                                continue                # values of special objects are recognised by leak() only
                            if oclass == "probe-dotted" and (rname in ("attr-filter", "map-attr-filter") or "subscript" in rname):
                                continue                # a dotted path is only a path for attribute= arguments
                            if not select(kind, rname):
                                continue
                            yield obj, name, oclass, kind, rname, prefix + body, direct

            cases = list(product(core_pairs, lambda k, r: True))
            if full_product:
                cases += list(product(other_pairs, lambda k, r: True))
            else:
                rest = list(product(other_pairs, lambda k, r: True))
                rng.shuffle(rest)
                cases += rest[:150]
            for obj, name, oclass, kind, rname, src, direct in cases:
                distinct.add((envname, obj, name, kind, rname))
                kinds_hit[kind] = kinds_hit.get(kind, 0) + 1
                routes_hit[rname] = routes_hit.get(rname, 0) + 1
                one(envname, env, src, data, log, leaks, f"C17:{rname}:key-{kind}:{oclass}",
                    f"object {obj}, name {name!r} built as {kind}, route {rname}", direct=direct, capped=True)
            if len(samples) < 6:
                samples += [{"env": envname, "src": c[5]} for c in (cases[37 % len(cases)], cases[-1])]

            # (3) format / format_map fetched off a string by a computed key -----------------------------------
            fnames = PRIVATE if full_product else ["_secret", "__class__"] if literal_here else ["_secret"]
            for name in fnames:
                for kind, mk in KEY_KINDS:
                    if kind in NONSTR_KINDS:
                        continue
                    p1, kf = mk("format", name_index["format"])
                    p2, kfm = mk("format_map", name_index["format_map"])
                    # the two prefixes bind the same helper names: build the format_map key from a renamed copy
                    for rname, body in format_key_routes(name, "p", "(" + kf + ")", "(" + kfm + ")"):
                        prefix = p2 if rname == "fmtkey-map-subscript" else p1
                        distinct.add((envname, "p", name, kind, rname))
                        kinds_hit[kind] = kinds_hit.get(kind, 0) + 1
                        routes_hit[rname] = routes_hit.get(rname, 0) + 1
                        one(envname, env, prefix + body, data, log, leaks, f"C17:{rname}:key-{kind}:probe",
                            f"format string with field {name!r}, method name built as {kind}, route {rname}", direct=False, capped=True)

            # audit of the key builders: which type each kind really produces here, and that it spells the name
            for kind, mk in KEY_KINDS:
                prefix, kexpr = mk("_secret", name_index["_secret"])
                seen = []
                env.globals["typeof"] = lambda v, _s=seen: _s.append((type(v).__name__, v)) or ""
                out, err = render_case(env, prefix + "{{ typeof(" + kexpr + ") }}", data)
                if err or len(seen) != 1 or (kind not in NONSTR_KINDS and not (isinstance(seen[0][1], str) and seen[0][1] == "_secret")):
                    raise core.HarnessError(f"C17 key builder {kind} is broken in {envname}: {err} {seen!r}")
                key_types.setdefault(kind, {}).setdefault(seen[0][0], []).append(envname)
            coro.close()
            # controls: public attributes are handed out through the same routes and key kinds (the probe is not vacuous)
            ctl = ("{% set v = none %}{{ p.public }}|{{ p.method() }}|{{ p.inner.ok }}|{{ lz.name }}|{{ '{0.public}'.format(p) }}"
                   "|{{ p['public'|safe] }}|{{ [p]|map(attribute='public'|e)|first }}|{{ p|attr('public'|safe) }}"
                   "|{{ '{0.public}'['format'|safe](p) }}|{{ [p]|map(attribute='inner.ok'|safe)|first }}")
            out, err = one(envname, env, ctl, data, log, leaks, "C17:control", "control")
            if out != "pub|method-ok|inner-ok|lazy-name|pub|pub|pub|pub|pub|inner-ok":
                raise core.HarnessError(f"C17 control failed in {envname}: {out!r} {err}")

        # the tie is broken (translator failed / proofs fail / model differs) and the tier's sample found no failing
        # input: search the whole product before giving up
        if intensify and not full_product and not passes and not any(not v.no_input for v in res.violations):
            passes.append(True)
    if reported["suppressed"]:
        res.notes.append(f"{reported['suppressed']} further leaking (route, key kind) combinations not listed (cap {cap})")
    res.coverage.update({
        "evaluations": evaluations + n_cross + n_access + n_wrap,
        "distinct_nontrivial": len(distinct),
        "rule": ("(a) adversarial access grammar with literal names: {probe with private instance/class/property/method/dunder "
                 "attributes, lazy __getattr__ proxy, nested objects, 16 kinds of special objects with internal attributes} x "
                 "{23 routes: dot, subscript, |attr, map(attribute=), map('attr'), 6 format/format_map/Markup.format/"
                 "stored-method forms, sort/join/sum/groupby/unique/min/selectattr/rejectattr attribute arguments, "
                 "loop, macro argument}; (b) the product {28 ways to build the key: literal, context str, |safe, |e, |escape, "
                 "|forceescape, set block (+filter), set expr, macro result, call block, ~ with/without Markup, Markup + and %, "
                 "|format, |join, filter chains, list element, loop variable, Markup / str subclass / split-preserving str "
                 "subclass from the context, int, none, tuple, float} x {21 lookup routes through getitem/getattr: obj[key], "
                 "|attr, map('attr'), attribute= of map/selectattr/rejectattr/sort/groupby/unique/min/max/sum/join, nested, "
                 "loop, macro, conditional} for 4 core (object, name) pairs in full (quick: 2 of them in the four secondary "
                 "configurations) and the other 41 pairs sampled by seed (quick) or in full (thorough, or a broken tie "
                 "without a failing input so far); (c) 9 routes fetching format/format_map off a str/Markup by "
                 "a computed key x 24 string key kinds; all x {sandboxed, immutable} x {sync, async} x {autoescape off, on}; "
                 "oracle = no tracer use, leak() never receives a defined value, no TRACER in the output; every program's "
                 "generated code is checked structurally; (d) cross-run of the translated decision functions and of the "
                 "regenerated getitem/getattr/wrap_str_format on all 576 abstract worlds x 3 realisations x 6 targets. "
                 "A case is non-trivial if it names a private/internal attribute (all do); distinct = (env, object, name, "
                 "key kind, route)"),
        "samples": [{"src": "{% set v = '{0._secret}'.format(p) %}{{ leak(v) }}"}, {"src": "{% set v = gen.gi_frame %}{{ leak(v) }}"}] + samples[:6],
        "structural_programs": structural_programs,
        "decision_crosscheck_cases": n_cross,
        "access_crosscheck": {"cases": n_access, "real_outcomes": access_kinds, "drift": n_drift, "api_leaks": n_api_leaks,
                              "wrap_str_format_cases": n_wrap, "abstract_counterexamples": [list(map(str, c)) for c in cex[:8]]},
        "key_kinds": kinds_hit,
        "key_types_built": {k: {t: len(e) for t, e in v.items()} for k, v in key_types.items()},
        "routes": routes_hit,
        "environments": [env_name(*e) for e in ENVS],
        "full_product": full_product,
        "outcomes": outcomes,
    })


def replay(ctx, case):
    """re-run one recorded case on the implementation"""
    core.import_jinja()
    c = case["case"]
    if "api" in c and "world" in c:
        from jinja2 import Environment
        envname = c["env"]
        env = Environment() if envname == "unsandboxed" else make_env(envname)
        obj, argument, value, desc = ca.realise(tuple(c["world"]), c.get("variant", 0))
        got = ca.classify(getattr(env, c["api"].replace("base-", "")), obj, argument, value)
        return {"call": f"{type(env).__name__}.{c['api']}(obj, arg)", "input": desc, "observed": got}
    if "src" not in c:
        return c
    env = make_env(c["env"])
    log, leaks = [], []
    env.globals["leak"] = make_leak(leaks)
    data, coro = make_data(log)
    out, err = render_case(env, c["src"], data)
    coro.close()
    return {"src": c["src"], "env": c["env"], "output": out, "error": err, "leak_got": leaks, "tracer_uses": log,
            "violates": bool(leaks) or bool(log) or "TRACER" in out}
