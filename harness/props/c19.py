"""C19 — immutable sandbox: builtin containers are never modified."""
from __future__ import annotations

import asyncio
import collections
import copy
import inspect

from harness import core
from harness.core import Atom
from harness import sandbox_common as sc
from translate import sandbox as tr_sandbox

ID = "C19"
GEN = [tr_sandbox.gen]
LEAN_MODULES = ["JinjaV.Props.C19"]
LEVEL = "proof"
TRUSTED = [
    "translator translate/sandbox.py (decision functions in a small Python subset; cross-run against the real functions each run)",
    "MEASURED table builtinMutators: which methods of list/dict/set/deque mutate, found by calling each public method "
    "on samples with 12 argument shapes on this interpreter",
]
ASSUMPTIONS = ["containers are of the exact builtin types (subclasses may override anything)",
               "filters outside the sweep's argument shapes are not exercised"]

ARG_SRC = ["", "1", "0, 9", "0", "5", "[7, 8]", "{'z': 9}", "'a'", "'zz', 5", "1, 1", "y", "y, 1"]


def fresh():
    return {"list": [3, 1, 2], "dict": {"a": 1, "b": 2}, "set": {1, 2, 3}, "deque": collections.deque([3, 1, 2]),
            "y": [9, 8]}


def same(a, b):
    if isinstance(a, collections.deque):
        return list(a) == list(b)
    return a == b


def render(env, src, data, is_async):
    try:
        t = env.from_string(src)
        if is_async:
            return asyncio.run(t.render_async(**data)), None
        return t.render(**data), None
    except Exception as e:  # noqa
        return None, type(e).__name__


def run(ctx, res):
    jinja2 = core.import_jinja()
    from jinja2.sandbox import ImmutableSandboxedEnvironment

    n_cross = sc.decision_crosscheck(res, "C19")
    env = ImmutableSandboxedEnvironment()
    aenv = ImmutableSandboxedEnvironment(enable_async=True)
    evaluations, distinct = 0, set()
    outcome = {}

    # if the proof broke, the counterexample finder names the (type, method) pairs; they are tried first
    leads = []
    try:
        rep = core.driver_batch([[Atom("sbx-unblocked")]])[0]
        leads = [tuple(x) for x in rep[1]]
    except Exception:
        pass
    types_ = {"list": list, "dict": dict, "set": set, "deque": collections.deque}
    pairs = leads + [(tn, m) for tn, t in types_.items() for m in sorted(n for n in dir(t) if not n.startswith("_"))
                     if (tn, m) not in leads]
    routes = [
        ("attr", "{{ x.%(m)s(%(a)s) }}"),
        ("item", "{{ x['%(m)s'](%(a)s) }}"),
        ("alias", "{%% set f = x.%(m)s %%}{{ f(%(a)s) }}"),
        ("attr-filter", "{{ (x|attr('%(m)s'))(%(a)s) }}"),
        ("map-attribute", "{%% set f = [x]|map(attribute='%(m)s')|first %%}{{ f(%(a)s) }}"),
        ("with", "{%% with f = x.%(m)s %%}{{ f(%(a)s) }}{%% endwith %%}"),
        ("format", "{{ '{0.%(m)s}'.format(x) }}{{ x.%(m)s(%(a)s) }}"),
        # the method looked up on the class and called with the object as first argument (`dict` is a default global;
        # fixed in /repo "the immutable sandbox must refuse mutating methods looked up on the class")
        ("class-attr", "{{ T.%(m)s(%(xa)s) }}"),
        ("class-item", "{{ T['%(m)s'](%(xa)s) }}"),
        ("class-alias", "{%% set f = T.%(m)s %%}{{ f(%(xa)s) }}"),
        ("class-attr-filter", "{{ (T|attr('%(m)s'))(%(xa)s) }}"),
        ("global-dict", "{{ dict.%(m)s(%(xa)s) }}"),
        # statements that store: a block set with an attribute target (fixed in /repo cf81214), a namespace built from the object
        ("block-set-attr", "{%% set x.%(m)s %%}v{%% endset %%}"),
        ("set-attr", "{%% set x.%(m)s = 1 %%}"),
        ("tuple-set-mixed", "{%% set ns = namespace() %%}{%% set ns.a, x.%(m)s = 1, 2 %%}"),
        ("tuple-set-mixed-rev", "{%% set ns = namespace() %%}{%% set x.%(m)s, ns.a, q = 1, 2, 3 %%}"),
        ("namespace-of", "{%% set ns = namespace(x) %%}{%% set ns.%(m)s = 1 %%}{%% set ns.k2 %%}v{%% endset %%}"),
        ("namespace-of-kw", "{%% set ns = namespace(x, q=1) %%}{%% set ns.%(m)s = 1 %%}"),
    ]
    argsrc = ARG_SRC if not ctx.quick else ARG_SRC[:8] + ["y"]
    for tn, m in pairs:
        for rname, rt in routes:
            for a in argsrc:
                for is_async, e in ((False, env), (True, aenv)):
                    if is_async and ctx.quick and rname not in ("attr", "alias", "class-attr", "block-set-attr"):
                        continue
                    data = fresh()
                    x = data[tn]
                    before, ybefore = copy.deepcopy(x), copy.deepcopy(data["y"])
                    if rname == "global-dict" and tn != "dict":
                        continue
                    if rname in ("block-set-attr", "set-attr", "namespace-of", "namespace-of-kw", "tuple-set-mixed", "tuple-set-mixed-rev") and a != argsrc[0]:
                        continue            # these routes take no call arguments: once per (type, name)
                    src = rt % {"m": m, "a": a, "xa": "x, " + a if a else "x"}
                    out, err = render(e, src, {"x": x, "y": data["y"], "T": type(x)}, is_async)
                    evaluations += 1
                    distinct.add((tn, m, rname, a, is_async))
                    outcome[err or "rendered"] = outcome.get(err or "rendered", 0) + 1
                    if not same(x, before) or data["y"] != ybefore:
                        res.violate(f"C19:{tn}.{m}", f"ImmutableSandboxedEnvironment({'async' if is_async else 'sync'}) "
                                    f"rendered {src!r} and {tn} {before!r} became {x!r} (route {rname})",
                                    {"src": src, "type": tn, "method": m, "route": rname, "async": is_async})
    # filters -------------------------------------------------------------------------------
    fstats = filter_sweep(ctx, res, env, aenv, "")
    f2 = filter_sweep(ctx, res, ImmutableSandboxedEnvironment(autoescape=True),
                      ImmutableSandboxedEnvironment(autoescape=True, enable_async=True), "autoescape:")
    for k in ("evaluations", "distinct"):
        fstats[k] += f2[k]
    evaluations += fstats["evaluations"]
    res.coverage.update({
        "evaluations": evaluations + n_cross,
        "distinct_nontrivial": len(distinct) + fstats["distinct"],
        "rule": ("every public method of list, dict, set, deque x argument shapes x routes (attribute, subscript, "
                 "set alias, |attr, map(attribute=), with, format lookup; the same method looked up on the class object and on the "
                 "global `dict` and called with the object; block set / set with an attribute target; namespace(x)) in sync "
                 "and async immutable sandboxes, "
                 "receiver and argument deep-compared; every built-in filter x container receivers x positional and "
                 "per-parameter keyword container arguments; plus the cross-run of every translated decision "
                 "function against sandbox.py on sample objects x attribute names"),
        "samples": [{"type": "deque", "method": "appendleft", "src": "{{ x.appendleft(1) }}"},
                    {"filter": "sum", "src": "{{ x|sum(start=y) }}"}],
        "decision_crosscheck_cases": n_cross,
        "outcomes": outcome,
        "counterexample_finder_leads": leads,
        "filters": fstats,
    })


def filter_sweep(ctx, res, env, aenv, tag):
    evaluations, distinct = 0, set()
    receivers = {
        "list": lambda: [3, 1, 2], "nested": lambda: [[1], [2]], "dicts": lambda: [{"a": 2, "b": [1]}, {"a": 1, "b": [2]}],
        "dict": lambda: {"b": 2, "a": 1}, "set": lambda: {1, 2}, "deque": lambda: collections.deque([2, 1]),
        "strs": lambda: ["b", "a", "B"],
    }
    ys = {"list": lambda: [], "list2": lambda: [5, 6], "dict": lambda: {"k": 1}, "str": lambda: "a", "int": lambda: 1}
    for fname, f in sorted(env.filters.items()):
        try:
            params = [p for p in inspect.signature(f).parameters.values()]
        except (TypeError, ValueError):
            params = []
        kwnames = [p.name for p in params if p.kind in (p.POSITIONAL_OR_KEYWORD, p.KEYWORD_ONLY)][1:]
        kwnames = [k for k in kwnames if k not in ("environment", "eval_ctx", "context", "value", "s", "seq", "d", "obj", "iterable")]
        shapes = ["", "(y)", "(1)", "('a')", "(attribute='a')", "(y, y)"] + [f"({k}=y)" for k in kwnames]
        for rn, mk in receivers.items():
            for shape in shapes:
                for yn, ymk in (ys.items() if "y" in shape else [("none", lambda: None)]):
                    if ctx.quick and yn not in ("list", "none", "dict"):
                        continue
                    for is_async, e in ((False, env), (True, aenv)):
                        x, y = mk(), ymk()
                        bx, by = copy.deepcopy(x), copy.deepcopy(y)
                        src = "{%% set r = x|%s%s %%}{{ r }}{%% if r is iterable and r is not string and r is not mapping %%}{%% for i in r %%}{{ i }}{%% endfor %%}{%% endif %%}" % (fname, shape)
                        out, err = render(e, src, {"x": x, "y": y}, is_async)
                        evaluations += 1
                        distinct.add((fname, rn, shape, yn, is_async))
                        if not same(x, bx) or y != by:
                            what = "receiver" if not same(x, bx) else "argument"
                            res.violate(f"C19:filter:{tag}{fname}:{'async' if is_async else 'sync'}:{what}",
                                        f"{'async' if is_async else 'sync'} immutable sandbox ({tag or 'no autoescape'}): {src!r} with x={bx!r} y={by!r} "
                                        f"left x={x!r} y={y!r}",
                                        {"src": src, "x": repr(bx), "y": repr(by), "async": is_async, "autoescape": bool(tag)})
    return {"evaluations": evaluations, "distinct": len(distinct), "filters": len(env.filters)}


def replay(ctx, case):
    core.import_jinja()
    from jinja2.sandbox import ImmutableSandboxedEnvironment
    c = case["case"]
    e = ImmutableSandboxedEnvironment(enable_async=bool(c.get("async")))
    data = fresh()
    x = data.get(c.get("type"), [[1], [2]])
    out = render(e, c["src"], {"x": x, "y": data["y"]}, bool(c.get("async")))
    return {"out": out, "x_after": repr(x), "y_after": repr(data["y"])}
