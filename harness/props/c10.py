"""C10 — every rendering entry point yields the same text; buffered chunks."""
from __future__ import annotations

import asyncio
import io
import itertools
import os
import tempfile

from harness import core
from harness.core import Atom
from harness.gen.templates import TG

ID = "C10"
LEAN_MODULES = ["JinjaV.Props.C10"]
LEVEL = "proof"
TRUSTED = [
    "Model/Stream.lean is a hand transcription of environment.py:1629-1645, tied by this correspondence run",
    "str.join / file objects / codecs (dump) are Python's and only exercised end-to-end",
]
ASSUMPTIONS = ["buffer size >= 2 (enable_buffering rejects smaller sizes); pieces are str"]


def unit_cases(ctx):
    maxlen = ctx.pick(6, 8)
    alpha = ["", "a", "bc"]
    for n in range(maxlen + 1):
        for ps in itertools.product(alpha, repeat=n):
            yield list(ps)


def run(ctx, res):
    jinja2 = core.import_jinja()
    from jinja2.environment import TemplateStream

    sizes = list(range(2, 9))
    cases = [(n, ps) for ps in unit_cases(ctx) for n in sizes]
    rng = ctx.rng("unit")
    for _ in range(ctx.pick(500, 5000)):
        ps = [rng.choice(["", "", "x", "yz", "é", "\n"]) for _ in range(rng.randrange(0, 40))]
        cases.append((rng.choice(sizes + [11, 50]), ps))
    replies = core.driver_batch([[Atom("stream"), n, ps] for n, ps in cases])
    mism = 0
    for (n, ps), rep in zip(cases, replies):
        chunks, nes, cat = rep[1]
        try:
            st = TemplateStream(iter(ps))
            st.enable_buffering(n)
            got = list(st)
        except Exception as e:  # noqa
            got = f"raised:{type(e).__name__}"
        if got != chunks:
            mism += 1
            # oracle: the property itself (Lean computed the documented chunking = model; theorems say it has the shape)
            ok_text = isinstance(got, list) and "".join(got) == cat
            key = "C10:unit:text" if not ok_text else "C10:unit:chunking"
            if not any(v.key == key for v in res.violations):
                ps2, n2 = shrink(TemplateStream, n, ps)
                res.violate(key, f"TemplateStream over pieces {ps2} with buffer size {n2} yields "
                                 f"{buffered_real(TemplateStream, n2, ps2)!r}; documented chunks {model_chunks(n2, ps2)!r}",
                            {"size": n2, "pieces": ps2})

    e2e = run_e2e(ctx, res, jinja2)
    res.coverage.update({
        "evaluations": len(cases) + e2e["evaluations"],
        "distinct_nontrivial": len({(n, tuple(p)) for n, p in cases if p}) + e2e["distinct"],
        "rule": (f"L-unit: every piece list of length <= {ctx.pick(6, 8)} over {{'', 'a', 'bc'}} x buffer sizes 2-8 "
                 "(exhaustive) plus random long piece lists, real TemplateStream vs Lean model; L-e2e: " + e2e["rule"]
                 + "; non-trivial = non-empty piece list / template producing output"),
        "samples": [{"size": cases[100][0], "pieces": cases[100][1]}, {"size": cases[-1][0], "pieces": cases[-1][1]}] + e2e["samples"],
        "exhaustive": True,
        "unit_mismatches": mism,
        "e2e": {k: v for k, v in e2e.items() if k not in ("samples", "rule")},
    })


def buffered_real(TemplateStream, n, ps):
    try:
        st = TemplateStream(iter(ps))
        st.enable_buffering(n)
        return list(st)
    except Exception as e:  # noqa
        return f"raised:{type(e).__name__}"


def model_chunks(n, ps):
    return core.driver_batch([[Atom("stream"), n, ps]])[0][1][0]


def shrink(TemplateStream, n, ps):
    cur = list(ps)
    changed = True
    while changed:
        changed = False
        for i in range(len(cur)):
            cand = cur[:i] + cur[i + 1:]
            if buffered_real(TemplateStream, n, cand) != model_chunks(n, cand):
                cur, changed = cand, True
                break
    return cur, n


class NoWritelines:
    def __init__(self):
        self.parts = []

    def write(self, x):
        self.parts.append(x)


def entry_points(jinja2, env, aenv, name, data, tmpdir):
    """all the ways to obtain the text; returns dict label -> text (or 'raised:…')"""
    out = {}
    t = env.get_template(name)

    def guard(label, f):
        try:
            out[label] = f()
        except Exception as e:  # noqa
            out[label] = f"raised:{type(e).__name__}:{e}"

    guard("render", lambda: t.render(data))
    pieces = []

    def gen():
        pieces[:] = list(t.generate(data))
        return "".join(pieces)

    guard("generate", gen)
    guard("stream", lambda: "".join(t.stream(data)))

    def dump_text():
        fp = io.StringIO()
        t.stream(data).dump(fp)
        return fp.getvalue()

    def dump_bytes(buffered=None):
        fp = io.BytesIO()
        s = t.stream(data)
        if buffered:
            s.enable_buffering(buffered)
        s.dump(fp, encoding="utf-8")
        return fp.getvalue().decode("utf-8")

    def dump_path():
        p = os.path.join(tmpdir, "out.html")
        t.stream(data).dump(p)
        with open(p, "rb") as f:
            return f.read().decode("utf-8")

    def dump_nowl():
        fp = NoWritelines()
        s = t.stream(data)
        s.enable_buffering(3)
        s.dump(fp)
        return "".join(fp.parts)

    guard("dump-text", dump_text)
    guard("dump-utf8", dump_bytes)
    guard("dump-utf8-buffered4", lambda: dump_bytes(4))
    guard("dump-path", dump_path)
    guard("dump-no-writelines", dump_nowl)
    guard("module-str", lambda: str(t.make_module(data)))
    at = aenv.get_template(name)
    guard("render_async", lambda: asyncio.run(at.render_async(data)))

    async def agen():
        return "".join([x async for x in at.generate_async(data)])

    guard("generate_async", lambda: asyncio.run(agen()))
    guard("async-env-render", lambda: at.render(data))
    chunks = {}
    for n in range(2, 9):
        try:
            s = t.stream(data)
            s.enable_buffering(n)
            chunks[n] = list(s)
        except Exception as e:  # noqa
            chunks[n] = f"raised:{type(e).__name__}"
    return out, pieces, chunks


def run_e2e(ctx, res, jinja2):
    rng = ctx.rng("e2e")
    n_sets = ctx.pick(60, 600)
    evaluations, distinct, samples = 0, set(), []
    reqs, meta = [], []
    tmpdir = tempfile.mkdtemp(prefix="jv-c10-")
    try:
        for i in range(n_sets):
            tg = TG(rng)
            templates, main = tg.make_set()
            env = jinja2.Environment(loader=jinja2.DictLoader(templates))
            aenv = jinja2.Environment(loader=jinja2.DictLoader(templates), enable_async=True)
            for _ in range(2):
                data = tg.data()
                outs, pieces, chunks = entry_points(jinja2, env, aenv, main, data, tmpdir)
                evaluations += len(outs) + len(chunks)
                distinct.add((templates[main], repr(sorted(data.items(), key=str))))
                ref = outs["render"]
                if ref.startswith("raised:"):
                    # the template raises at render time: every entry point must raise the same class
                    cls = ref.split(":")[1]
                    for k, v in outs.items():
                        if not v.startswith("raised:" + cls):
                            res.violate(f"C10:e2e:{k}:error-mismatch", f"render raises {cls} but {k} gives {v[:80]!r} for {templates[main]!r}",
                                        {"templates": templates, "data": data, "entry": k})
                    continue
                for k, v in outs.items():
                    if v != ref:
                        res.violate(f"C10:e2e:{k}", f"{k} gives {v!r} but render gives {ref!r} for template {templates[main]!r}",
                                    {"templates": templates, "data": data, "entry": k, "got": v, "render": ref})
                for n, ch in chunks.items():
                    reqs.append([Atom("stream"), n, pieces])
                    meta.append((templates, data, n, ch, ref))
                if len(samples) < 2:
                    samples.append({"templates": templates, "data": {k: repr(v) for k, v in data.items()}, "pieces": pieces})
    finally:
        import shutil

        shutil.rmtree(tmpdir, ignore_errors=True)
    replies = core.driver_batch(reqs)
    for (templates, data, n, ch, ref), rep in zip(meta, replies):
        mchunks, nes, cat = rep[1]
        if cat != ref:
            res.violate("C10:e2e:generate-pieces", f"concatenation of generate() pieces {cat!r} != render {ref!r}",
                        {"templates": templates, "data": data})
        if ch != mchunks:
            key = "C10:e2e:buffered-text" if not (isinstance(ch, list) and "".join(ch) == ref) else "C10:e2e:buffered-chunking"
            res.violate(key, f"stream with buffer size {n} over {templates['main']!r} yields {ch!r}; documented {mchunks!r}",
                        {"templates": templates, "data": data, "size": n, "got": ch, "expected": mchunks})
    return {"evaluations": evaluations, "distinct": len(distinct), "template_sets": n_sets, "samples": samples,
            "rule": (f"{n_sets} generated template sets (if/for/set/with/macro/call/filter blocks, include, import, "
                     "extends+super) x 2 data assignments through render, generate, stream, buffered stream sizes 2-8, "
                     "dump to text/utf-8/path/write-only targets, module str, render_async, generate_async")}


def replay(ctx, case):
    c = case["case"]
    if "pieces" in c:
        from jinja2.environment import TemplateStream
        return {"impl": buffered_real(TemplateStream, c["size"], c["pieces"]), "model": model_chunks(c["size"], c["pieces"])}
    return c
