"""C10 — every rendering entry point yields the same text; buffered chunks."""
from __future__ import annotations

import asyncio
import io
import itertools
import os
import tempfile

from harness import core
from harness.core import Atom
from harness.gen.templates import TG

ID = "C10"
LEAN_MODULES = ["JinjaV.Props.C10"]
LEVEL = "proof"
TRUSTED = [
    "Model/Stream.lean is a hand transcription of environment.py:1629-1645, tied by this correspondence run",
    "str.join / file objects / codecs (dump) are Python's and only exercised end-to-end",
]
ASSUMPTIONS = ["buffer size >= 2 (enable_buffering rejects smaller sizes); pieces are str"]


def unit_cases(ctx):
    maxlen = ctx.pick(6, 8)
    alpha = ["", "a", "bc"]
    for n in range(maxlen + 1):
        for ps in itertools.product(alpha, repeat=n):
            yield list(ps)


def run(ctx, res):
    jinja2 = core.import_jinja()
    from jinja2.environment import TemplateStream

    sizes = list(range(2, 9))
    cases = [(n, ps) for ps in unit_cases(ctx) for n in sizes]
    rng = ctx.rng("unit")
    for _ in range(ctx.pick(500, 5000)):
        ps = [rng.choice(["", "", "x", "yz", "é", "\n"]) for _ in range(rng.randrange(0, 40))]
        cases.append((rng.choice(sizes + [11, 50]), ps))
    replies = core.driver_batch([[Atom("stream"), n, ps] for n, ps in cases])
    mism = 0
    for (n, ps), rep in zip(cases, replies):
        chunks, nes, cat = rep[1]
        try:
            st = TemplateStream(iter(ps))
            st.enable_buffering(n)
            got = list(st)
        except Exception as e:  # noqa
            got = f"raised:{type(e).__name__}"
        if got != chunks:
            mism += 1
            # oracle: the property itself (Lean computed the documented chunking = model; theorems say it has the shape)
            ok_text = isinstance(got, list) and "".join(got) == cat
            key = "C10:unit:text" if not ok_text else "C10:unit:chunking"
            if not any(v.key == key for v in res.violations):
                ps2, n2 = shrink(TemplateStream, n, ps)
                res.violate(key, f"TemplateStream over pieces {ps2} with buffer size {n2} yields "
                                 f"{buffered_real(TemplateStream, n2, ps2)!r}; documented chunks {model_chunks(n2, ps2)!r}",
                            {"size": n2, "pieces": ps2})

    mk = run_unit_markup(ctx, res, TemplateStream)
    e2e = run_e2e(ctx, res, jinja2)
    ae = run_e2e_autoescape(ctx, res, jinja2)
    res.coverage.update({
        "evaluations": len(cases) + mk["evaluations"] + e2e["evaluations"] + ae["evaluations"],
        "distinct_nontrivial": len({(n, tuple(p)) for n, p in cases if p}) + mk["distinct"] + e2e["distinct"] + ae["distinct"],
        "rule": (f"L-unit: every piece list of length <= {ctx.pick(6, 8)} over {{'', 'a', 'bc'}} x buffer sizes 2-8 "
                 "(exhaustive) plus random long piece lists, real TemplateStream vs Lean model; L-unit-markup: " + mk["rule"]
                 + "; L-e2e: " + e2e["rule"] + "; L-e2e-autoescape: " + ae["rule"]
                 + "; non-trivial = non-empty piece list / template producing output"),
        "samples": ([{"size": cases[100][0], "pieces": cases[100][1]}, {"size": cases[-1][0], "pieces": cases[-1][1]}]
                    + mk["samples"] + e2e["samples"] + ae["samples"]),
        "exhaustive": True,
        "unit_mismatches": mism,
        "unit_markup": {k: v for k, v in mk.items() if k not in ("samples", "rule")},
        "e2e": {k: v for k, v in e2e.items() if k not in ("samples", "rule")},
        "e2e_autoescape": {k: v for k, v in ae.items() if k not in ("samples", "rule")},
    })


def buffered_real(TemplateStream, n, ps):
    try:
        st = TemplateStream(iter(ps))
        st.enable_buffering(n)
        return list(st)
    except Exception as e:  # noqa
        return f"raised:{type(e).__name__}"


def model_chunks(n, ps):
    return core.driver_batch([[Atom("stream"), n, ps]])[0][1][0]


def shrink(TemplateStream, n, ps):
    cur = list(ps)
    changed = True
    while changed:
        changed = False
        for i in range(len(cur)):
            cand = cur[:i] + cur[i + 1:]
            if buffered_real(TemplateStream, n, cand) != model_chunks(n, cand):
                cur, changed = cand, True
                break
    return cur, n


class NoWritelines:
    def __init__(self):
        self.parts = []

    def write(self, x):
        self.parts.append(x)


def entry_points(jinja2, env, aenv, name, data, tmpdir, extra_sizes=()):
    """all the ways to obtain the text; returns dict label -> text (or 'raised:…');
    extra_sizes: buffer sizes for which every dump target is additionally fed from a buffered stream"""
    out = {}
    t = env.get_template(name)

    def guard(label, f):
        try:
            out[label] = f()
        except Exception as e:  # noqa
            out[label] = f"raised:{type(e).__name__}:{e}"

    guard("render", lambda: t.render(data))
    pieces = []

    def gen():
        pieces[:] = list(t.generate(data))
        return "".join(pieces)

    guard("generate", gen)
    guard("stream", lambda: "".join(t.stream(data)))

    def dump_text(buffered=None):
        fp = io.StringIO()
        s = t.stream(data)
        if buffered:
            s.enable_buffering(buffered)
        s.dump(fp)
        return fp.getvalue()

    def dump_bytes(buffered=None):
        fp = io.BytesIO()
        s = t.stream(data)
        if buffered:
            s.enable_buffering(buffered)
        s.dump(fp, encoding="utf-8")
        return fp.getvalue().decode("utf-8")

    def dump_path(buffered=None):
        p = os.path.join(tmpdir, "out.html")
        s = t.stream(data)
        if buffered:
            s.enable_buffering(buffered)
        s.dump(p)
        with open(p, "rb") as f:
            return f.read().decode("utf-8")

    def dump_nowl(buffered=3):
        fp = NoWritelines()
        s = t.stream(data)
        s.enable_buffering(buffered)
        s.dump(fp)
        return "".join(fp.parts)

    def stream_buffered(n):
        s = t.stream(data)
        s.enable_buffering(n)
        return "".join(s)

    guard("dump-text", dump_text)
    guard("dump-utf8", dump_bytes)
    guard("dump-utf8-buffered4", lambda: dump_bytes(4))
    guard("dump-path", dump_path)
    guard("dump-no-writelines", dump_nowl)
    for n in extra_sizes:
        guard(f"stream-buffered{n}", lambda: stream_buffered(n))
        guard(f"dump-text-buffered{n}", lambda: dump_text(n))
        guard(f"dump-utf8-buffered{n}", lambda: dump_bytes(n))
        guard(f"dump-path-buffered{n}", lambda: dump_path(n))
        guard(f"dump-no-writelines-buffered{n}", lambda: dump_nowl(n))
    guard("module-str", lambda: str(t.make_module(data)))
    at = aenv.get_template(name)
    guard("render_async", lambda: asyncio.run(at.render_async(data)))

    async def agen():
        return "".join([x async for x in at.generate_async(data)])

    guard("generate_async", lambda: asyncio.run(agen()))
    guard("async-env-render", lambda: at.render(data))
    chunks = {}
    for n in range(2, 9):
        try:
            s = t.stream(data)
            s.enable_buffering(n)
            chunks[n] = list(s)
        except Exception as e:  # noqa
            chunks[n] = f"raised:{type(e).__name__}"
    return out, pieces, chunks


def run_e2e(ctx, res, jinja2):
    rng = ctx.rng("e2e")
    n_sets = ctx.pick(60, 600)
    evaluations, distinct, samples = 0, set(), []
    reqs, meta = [], []
    tmpdir = tempfile.mkdtemp(prefix="jv-c10-")
    try:
        for i in range(n_sets):
            tg = TG(rng)
            templates, main = tg.make_set()
            env = jinja2.Environment(loader=jinja2.DictLoader(templates))
            aenv = jinja2.Environment(loader=jinja2.DictLoader(templates), enable_async=True)
            for _ in range(2):
                data = tg.data()
                outs, pieces, chunks = entry_points(jinja2, env, aenv, main, data, tmpdir)
                evaluations += len(outs) + len(chunks)
                distinct.add((templates[main], repr(sorted(data.items(), key=str))))
                ref = outs["render"]
                if ref.startswith("raised:"):
                    # the template raises at render time: every entry point must raise the same class
                    cls = ref.split(":")[1]
                    for k, v in outs.items():
                        if not v.startswith("raised:" + cls):
                            res.violate(f"C10:e2e:{k}:error-mismatch", f"render raises {cls} but {k} gives {v[:80]!r} for {templates[main]!r}",
                                        {"templates": templates, "data": data, "entry": k})
                    continue
                for k, v in outs.items():
                    if v != ref:
                        res.violate(f"C10:e2e:{k}", f"{k} gives {v!r} but render gives {ref!r} for template {templates[main]!r}",
                                    {"templates": templates, "data": data, "entry": k, "got": v, "render": ref})
                for n, ch in chunks.items():
                    reqs.append([Atom("stream"), n, pieces])
                    meta.append((templates, data, n, ch, ref))
                if len(samples) < 2:
                    samples.append({"templates": templates, "data": {k: repr(v) for k, v in data.items()}, "pieces": pieces})
    finally:
        import shutil

        shutil.rmtree(tmpdir, ignore_errors=True)
    replies = core.driver_batch(reqs)
    for (templates, data, n, ch, ref), rep in zip(meta, replies):
        mchunks, nes, cat = rep[1]
        if cat != ref:
            res.violate("C10:e2e:generate-pieces", f"concatenation of generate() pieces {cat!r} != render {ref!r}",
                        {"templates": templates, "data": data})
        if ch != mchunks:
            key = "C10:e2e:buffered-text" if not (isinstance(ch, list) and "".join(ch) == ref) else "C10:e2e:buffered-chunking"
            res.violate(key, f"stream with buffer size {n} over {templates['main']!r} yields {ch!r}; documented {mchunks!r}",
                        {"templates": templates, "data": data, "size": n, "got": ch, "expected": mchunks})
    return {"evaluations": evaluations, "distinct": len(distinct), "template_sets": n_sets, "samples": samples,
            "rule": (f"{n_sets} generated template sets (if/for/set/with/macro/call/filter blocks, include, import, "
                     "extends+super) x 2 data assignments through render, generate, stream, buffered stream sizes 2-8, "
                     "dump to text/utf-8/path/write-only targets, module str, render_async, generate_async")}


# ---------------------------------------------------------------------------------------------------------------------
# Family "markup pieces": under autoescape the pieces of one chunk are a mix of markupsafe.Markup (expression output)
# and plain str (template data, possibly containing < > & ' ").  Combining pieces must be plain text concatenation
# ("".join), never Markup's escaping `+` / `%` / `.join` / `.format`.

SPECIALS = ["<", ">", "&", "'", '"']


def run_unit_markup(ctx, res, TemplateStream):
    from markupsafe import Markup

    # symbol = (is_markup, text)
    alpha = [(False, ""), (False, "<p>"), (False, "a&'\""), (True, "x"), (True, "&lt;b&gt;")]
    maxlen = ctx.pick(4, 5)
    sizes = list(range(2, 9))
    cases = []
    for ln in range(maxlen + 1):
        for ps in itertools.product(alpha, repeat=ln):
            for n in sizes:
                cases.append((n, list(ps)))
    rng = ctx.rng("unit-markup")
    texts = ["", "x", "<li class=\"i\">", "</li>", " & ", "it's", "é<", ">", "\n", "&amp;", "{}", "%s"]
    for _ in range(ctx.pick(400, 4000)):
        ps = [(rng.random() < 0.4, rng.choice(texts)) for _ in range(rng.randrange(0, 30))]
        cases.append((rng.choice(sizes + [11, 50]), ps))
    replies = core.driver_batch([[Atom("stream"), n, [t for _, t in ps]] for n, ps in cases])

    def real(n, ps):
        try:
            st = TemplateStream(iter([Markup(t) if m else t for m, t in ps]))
            st.enable_buffering(n)
            return [str(c) for c in st]
        except Exception as e:  # noqa
            return f"raised:{type(e).__name__}"

    mism = mixed = 0
    for (n, ps), rep in zip(cases, replies):
        chunks, nes, cat = rep[1]
        if any(m for m, _ in ps) and any((not m) and any(ch in t for ch in SPECIALS) for m, t in ps):
            mixed += 1
        got = real(n, ps)
        if got != chunks:
            mism += 1
            ok_text = isinstance(got, list) and "".join(got) == cat
            key = "C10:unit-markup:text" if not ok_text else "C10:unit-markup:chunking"
            if not any(v.key == key for v in res.violations):
                cur, changed = list(ps), True
                while changed:  # drop pieces while the real stream still differs from the documented chunks
                    changed = False
                    for i in range(len(cur)):
                        cand = cur[:i] + cur[i + 1:]
                        if real(n, cand) != model_chunks(n, [t for _, t in cand]):
                            cur, changed = cand, True
                            break
                shown = [("Markup(%r)" % t) if m else repr(t) for m, t in cur]
                res.violate(key, f"TemplateStream with buffer size {n} over pieces [{', '.join(shown)}] (Markup = escaped expression "
                                 f"output, str = template data) yields text {real(n, cur)!r}; documented chunks "
                                 f"{model_chunks(n, [t for _, t in cur])!r}",
                            {"size": n, "markup_pieces": [[bool(m), t] for m, t in cur]})
    return {"evaluations": len(cases), "distinct": len({(n, tuple(p)) for n, p in cases if p}), "mismatches": mism,
            "chunk_mixes_markup_and_special_data": mixed,
            "samples": [{"size": cases[700][0], "markup_pieces": [[m, t] for m, t in cases[700][1]]}],
            "rule": (f"every list of length <= {maxlen} over {{'' , '<p>', 'a&\'\"' as str; 'x', '&lt;b&gt;' as Markup}} x buffer "
                     "sizes 2-8 (exhaustive) plus random long mixed Markup/str lists with markup characters, text of the real "
                     "chunks vs Lean model")}


AUTOESCAPE_MODES = ["env", "select", "callable", "section"]


def make_tgm(rng, features=None):
    """TG whose template data and values are rich in the characters Markup escapes"""

    class TGM(TG):
        def text(self):
            return self.r.choice(["x", "Hello ", "\n", "<p>", " & ", "äö", "</p>", "<li class=\"i\">", "it's", " > ", "<br/>",
                                  "&amp;", "\"q\" "])

        def data(self):
            r = self.r
            d = TG.data(self)
            d["a"] = r.choice([0, 1, 7, "", "s", "<a href='x'>"])
            d["c"] = r.choice(["see", 0, None, "c & d"])
            d["items"] = r.choice([[], [1], [1, 2, 3], ["x", "", "y"], ["a", "b & c", "<d>"]])
            d["name"] = r.choice(["world", "", "<i>", "T<1>", "O'Neil \"x\""])
            return d

    return TGM(rng, features)


def autoescape_envs(jinja2, mode, templates):
    if mode == "env":
        kw = dict(autoescape=True)
    elif mode == "select":
        kw = dict(autoescape=jinja2.select_autoescape(enabled_extensions=(), default=True, default_for_string=True))
    elif mode == "callable":
        kw = dict(autoescape=lambda name: True)
    else:  # "section": autoescape off in the environment, switched on by {% autoescape true %} in the templates
        kw = dict(autoescape=False)
    return (jinja2.Environment(loader=jinja2.DictLoader(templates), **kw),
            jinja2.Environment(loader=jinja2.DictLoader(templates), enable_async=True, **kw))


def strip_size(label):
    return label.rstrip("0123456789")


def run_e2e_autoescape(ctx, res, jinja2):
    """generated template sets rendered with autoescape on (expression output is Markup, template data is plain str with
    markup characters) through every entry point, every dump target additionally fed from buffered streams"""
    from markupsafe import Markup

    rng = ctx.rng("e2e-autoescape")
    n_sets = ctx.pick(40, 400)
    evaluations, distinct, samples = 0, set(), []
    modes = {m: 0 for m in AUTOESCAPE_MODES}
    mixed_chunks = markup_pieces = total_pieces = 0
    reqs, meta = [], []
    tmpdir = tempfile.mkdtemp(prefix="jv-c10-ae-")
    try:
        for i in range(n_sets):
            mode = AUTOESCAPE_MODES[i % len(AUTOESCAPE_MODES)] if i < 8 else rng.choice(AUTOESCAPE_MODES)
            modes[mode] += 1
            if mode == "section":
                tg = make_tgm(rng, {"if", "for", "set", "macro", "include", "import", "filter", "empty", "call", "with"})
                templates, main = tg.make_set()
                for k in ("main", "inc"):
                    templates[k] = "{% autoescape true %}" + templates[k] + "{% endautoescape %}" + tg.text()
            else:
                tg = make_tgm(rng)
                templates, main = tg.make_set()
            env, aenv = autoescape_envs(jinja2, mode, templates)
            for _ in range(2):
                data = tg.data()
                extra = sorted(rng.sample(range(2, 9), 2)) + ([rng.choice([11, 50])] if rng.random() < 0.2 else [])
                outs, pieces, chunks = entry_points(jinja2, env, aenv, main, data, tmpdir, extra_sizes=extra)
                evaluations += len(outs) + len(chunks)
                distinct.add((mode, templates[main], repr(sorted(data.items(), key=str))))
                case = {"autoescape": mode, "templates": templates, "data": data}
                ref = outs["render"]
                if ref.startswith("raised:"):
                    cls = ref.split(":")[1]
                    for k, v in outs.items():
                        if not v.startswith("raised:" + cls):
                            res.violate(f"C10:e2e-autoescape:{strip_size(k)}:error-mismatch",
                                        f"render raises {cls} but {k} gives {v[:80]!r} for {templates[main]!r} (autoescape: {mode})",
                                        dict(case, entry=k))
                    continue
                for k, v in outs.items():
                    if v != ref:
                        res.violate(f"C10:e2e-autoescape:{strip_size(k)}",
                                    f"autoescape ({mode}): {k} gives {v!r} but render gives {ref!r} for template {templates[main]!r}",
                                    dict(case, entry=k, got=str(v), render=ref))
                total_pieces += len(pieces)
                markup_pieces += sum(isinstance(p, Markup) for p in pieces)
                plain = [str(p) for p in pieces]
                for n, ch in chunks.items():
                    reqs.append([Atom("stream"), n, plain])
                    meta.append((case, n, ch if isinstance(ch, str) else [str(c) for c in ch], ref))
                ne = [p for p in pieces if p]
                for j in range(0, len(ne), 2):  # chunks of size 2 that really mix Markup with special template data
                    grp = ne[j:j + 2]
                    if any(isinstance(p, Markup) for p in grp) and any(
                            not isinstance(p, Markup) and any(c in p for c in SPECIALS) for p in grp):
                        mixed_chunks += 1
                if len(samples) < 2:
                    samples.append({"autoescape": mode, "templates": templates, "data": {k: repr(v) for k, v in data.items()},
                                    "pieces": [("Markup:" if isinstance(p, Markup) else "str:") + str(p) for p in pieces]})
    finally:
        import shutil

        shutil.rmtree(tmpdir, ignore_errors=True)
    replies = core.driver_batch(reqs)
    for (case, n, ch, ref), rep in zip(meta, replies):
        mchunks, nes, cat = rep[1]
        if cat != ref:
            res.violate("C10:e2e-autoescape:generate-pieces", f"concatenation of generate() pieces {cat!r} != render {ref!r}", case)
        if ch != mchunks:
            key = ("C10:e2e-autoescape:buffered-text" if not (isinstance(ch, list) and "".join(ch) == ref)
                   else "C10:e2e-autoescape:buffered-chunking")
            res.violate(key, f"autoescape ({case['autoescape']}): stream with buffer size {n} over {case['templates']['main']!r} "
                             f"yields {ch!r}; documented {mchunks!r}",
                        dict(case, size=n, got=ch, expected=mchunks))
    return {"evaluations": evaluations, "distinct": len(distinct), "template_sets": n_sets, "modes": modes,
            "pieces": total_pieces, "markup_pieces": markup_pieces, "size2_chunks_mixing_markup_and_special_data": mixed_chunks,
            "samples": samples,
            "rule": (f"{n_sets} generated template sets with markup-rich template data and values, autoescape on via "
                     "Environment(autoescape=True) / select_autoescape / callable / {% autoescape true %} section, x 2 data "
                     "assignments through all entry points above plus buffered stream join and dump to text/utf-8/path/"
                     "write-only targets from buffered streams (2 random sizes of 2-8, sometimes 11/50), buffered chunk "
                     "lists sizes 2-8 vs Lean model on the real (Markup/str) piece lists")}


def replay(ctx, case):
    c = case["case"]
    if "pieces" in c:
        from jinja2.environment import TemplateStream
        return {"impl": buffered_real(TemplateStream, c["size"], c["pieces"]), "model": model_chunks(c["size"], c["pieces"])}
    if "markup_pieces" in c:
        from jinja2.environment import TemplateStream
        from markupsafe import Markup
        try:
            st = TemplateStream(iter([Markup(t) if m else t for m, t in c["markup_pieces"]]))
            st.enable_buffering(c["size"])
            impl = [str(x) for x in st]
        except Exception as e:  # noqa
            impl = f"raised:{type(e).__name__}"
        return {"impl": impl, "model": model_chunks(c["size"], [t for _, t in c["markup_pieces"]])}
    if "autoescape" in c:
        jinja2 = core.import_jinja()
        env, aenv = autoescape_envs(jinja2, c["autoescape"], c["templates"])
        tmpdir = tempfile.mkdtemp(prefix="jv-c10-rp-")
        try:
            sizes = [c["size"]] if "size" in c else [int(c["entry"][len(strip_size(c["entry"])):] or 0)] if "entry" in c else []
            outs, pieces, chunks = entry_points(jinja2, env, aenv, "main", c["data"], tmpdir, extra_sizes=[n for n in sizes if n >= 2])
        finally:
            import shutil

            shutil.rmtree(tmpdir, ignore_errors=True)
        r = {"render": outs["render"]}
        if "entry" in c:
            r[c["entry"]] = outs.get(c["entry"])
        if "size" in c:
            ch = chunks[c["size"]]
            r["chunks"] = ch if isinstance(ch, str) else [str(x) for x in ch]
            r["model"] = model_chunks(c["size"], [str(p) for p in pieces])
        return r
    return c
