"""shared by the lexer properties (C01, C11, C12, C13, C35, C39): configurations, the real lexer as a function,
fragment-alphabet enumeration, comparison with the Lean lexer model."""
from __future__ import annotations

import itertools
import re

from harness import core
from harness.core import Atom

DEFAULT = dict(block_start_string="{%", block_end_string="%}", variable_start_string="{{", variable_end_string="}}",
               comment_start_string="{#", comment_end_string="#}", line_statement_prefix=None, line_comment_prefix=None,
               trim_blocks=False, lstrip_blocks=False, keep_trailing_newline=False)


def cfg(**kw):
    d = dict(DEFAULT)
    d.update(kw)
    return d


CONFIGS = {
    "default": cfg(),
    "trim": cfg(trim_blocks=True),
    "lstrip": cfg(lstrip_blocks=True),
    "trim+lstrip": cfg(trim_blocks=True, lstrip_blocks=True),
    "keepnl": cfg(keep_trailing_newline=True),
    "erb": cfg(block_start_string="<%", block_end_string="%>", variable_start_string="<%=", variable_end_string="%>",
               comment_start_string="<%#", comment_end_string="%>"),
    "php": cfg(block_start_string="<?", block_end_string="?>", variable_start_string="<?=", variable_end_string="?>",
               comment_start_string="<!--", comment_end_string="-->"),
    "dollar": cfg(variable_start_string="${", variable_end_string="}", trim_blocks=True),
    "line": cfg(line_statement_prefix="#", line_comment_prefix="##"),
    "line-pct": cfg(line_statement_prefix="%", line_comment_prefix="%%", trim_blocks=True, lstrip_blocks=True),
    "line-keep": cfg(line_statement_prefix="#", line_comment_prefix="//", keep_trailing_newline=True, lstrip_blocks=True),
}


def enc_cfg(c):
    def o(x):
        return Atom("none") if x is None else x
    return [c["block_start_string"], c["block_end_string"], c["variable_start_string"], c["variable_end_string"],
            c["comment_start_string"], c["comment_end_string"], o(c["line_statement_prefix"]), o(c["line_comment_prefix"]),
            c["trim_blocks"], c["lstrip_blocks"], c["keep_trailing_newline"]]


def fragments(c):
    """the alphabet of delimiter fragments for a configuration"""
    f = [c["block_start_string"], c["block_end_string"], c["variable_start_string"], c["variable_end_string"],
         c["comment_start_string"], c["comment_end_string"], "-", "+", "raw", "endraw", "if", "x", "1", "'", '"', "(", ")",
         "[", ".", "|", "\n", " ", "\t", "a.b", "1.5", "}", "\r\n"]
    if c["line_statement_prefix"]:
        f += [c["line_statement_prefix"], c["line_comment_prefix"]]
    out = []
    for x in f:
        if x not in out:
            out.append(x)
    return out


_ERR = [
    (re.compile(r"^Missing end of comment tag$"), lambda m: "missingEndComment"),
    (re.compile(r"^Missing end of raw directive$"), lambda m: "missingEndRaw"),
    (re.compile(r"^unexpected '(.)', expected '(.)'$", re.S), lambda m: ["unexpectedCloseExpected", m.group(1), m.group(2)]),
    (re.compile(r"^unexpected '(.)'$", re.S), lambda m: ["unexpectedClose", m.group(1)]),
    (re.compile(r"^unexpected char '(.*)' at \d+$", re.S), lambda m: ["unexpectedChar", eval("'" + m.group(1) + "'") if m.group(1) != "'" else "'"]),
    (re.compile(r'^unexpected char "(.*)" at \d+$', re.S), lambda m: ["unexpectedChar", eval('"' + m.group(1) + '"')]),
]


def real_lex(env, src):
    """Environment.lex as a function: ('ok', tokens) | ('syntax-error', kind, lineno, tokens) | ('raised', class)"""
    from jinja2.exceptions import TemplateSyntaxError

    toks = []
    try:
        for t in env.lexer.tokeniter(src, None, None):
            toks.append([t[0], t[1], t[2]])
        return ["ok", toks]
    except TemplateSyntaxError as e:
        for rx, f in _ERR:
            m = rx.match(e.message or "")
            if m:
                return ["syntax-error", f(m), e.lineno, toks]
        return ["syntax-error", "other:" + str(e.message), e.lineno, toks]
    except Exception as e:  # noqa
        return ["raised", type(e).__name__ + ":" + str(e)[:80], toks]


def canon(o):
    if isinstance(o, list):
        return [canon(x) for x in o]
    return str(o) if isinstance(o, Atom) else o


def model_lex(cfgs_and_srcs):
    """[(cfg dict, src)] -> model results in the same shape as real_lex, plus ghosts and preprocessed source"""
    reps = core.driver_batch([[Atom("lex"), enc_cfg(c), s] for c, s in cfgs_and_srcs])
    out = []
    for r in reps:
        r = canon(r)
        if r[0] == "ok":
            toks = r[1]
            out.append({"res": ["ok", [t for t in toks if t[1] != "ghost"]], "all": toks, "pre": r[2]})
        elif r[0] == "syntax-error":
            toks = r[3]
            out.append({"res": ["syntax-error", r[1], r[2], [t for t in toks if t[1] != "ghost"]], "all": toks, "pre": None})
        else:
            out.append({"res": r, "all": [], "pre": None})
    return out


def enumerate_sources(c, maxlen):
    fr = fragments(c)
    for n in range(0, maxlen + 1):
        for parts in itertools.product(fr, repeat=n):
            yield "".join(parts)


def random_source(rng, c, n):
    fr = fragments(c)
    heavy = ["\n", " ", c["block_start_string"], c["block_end_string"], "-", "x"]
    return "".join(rng.choice(fr if rng.random() < 0.7 else heavy) for _ in range(n))


def make_env(jinja2, c, **extra):
    return jinja2.Environment(**c, **extra)


# ---------------------------------------------------------------------------------------------
# structured sources: skeletons of text / tags / raw blocks / comments / line statements
# ---------------------------------------------------------------------------------------------

WS_RUNS = ["", " ", "\t", "\n", " \n ", "\n\n", "\r\n", "  ", "\n  ", " \n", "\x0b", "\n\t\n"]
WORDS = ["a", "foo", "x1", "T", "é", "<p>", "1", ".", "end", "raw"]
INTERIORS = ["if x", "endif", "for i in y", "endfor", "set a = 1", "x", "x|upper", "1 + 2", "'s'", "x[0]", "(a, b)", "{'k': 1}",
             "a -1", "x -", "- x"]


def skeleton(rng, c, nseg):
    """returns (source, list of segment descriptions)"""
    bs, be = c["block_start_string"], c["block_end_string"]
    vs, ve = c["variable_start_string"], c["variable_end_string"]
    cs, ce = c["comment_start_string"], c["comment_end_string"]
    out, desc = [], []

    def ws():
        return rng.choice(WS_RUNS)

    def sign():
        return rng.choice(["", "", "", "-", "+"])

    for _ in range(nseg):
        k = rng.choice(["text", "text", "block", "block", "var", "comment", "raw", "linestmt", "linecomment"])
        if k == "text":
            t = ws() + rng.choice(WORDS) + ws() + rng.choice(["", rng.choice(WORDS)]) + ws()
            out.append(t)
        elif k == "block":
            out.append(f"{bs}{sign()}{rng.choice(['', ' ', '  '])}{rng.choice(INTERIORS)}{rng.choice(['', ' '])}{sign()}{be}")
        elif k == "var":
            s2 = rng.choice(["", "", "-"])
            out.append(f"{vs}{sign()} {rng.choice(INTERIORS[5:])} {s2}{ve}")
        elif k == "comment":
            out.append(f"{cs}{sign()}{ws()}c{rng.choice(['', ' ' + be, ' ' + vs])}{ws()}{sign()}{ce}")
        elif k == "raw":
            body = ws() + rng.choice(["", "r", vs + " x " + ve, bs + " if " + be, cs]) + ws()
            out.append(f"{bs}{sign()}{rng.choice(['', ' '])}raw{rng.choice(['', ' '])}{rng.choice(['', '-'])}{be}{body}"
                       f"{bs}{sign()} endraw {sign()}{be}")
        elif k == "linestmt" and c["line_statement_prefix"]:
            out.append(f"\n{rng.choice(['', ' ', chr(9)])}{c['line_statement_prefix']}{rng.choice(['', ' '])}{rng.choice(INTERIORS)}"
                       f"{rng.choice(['', ' ', ':'])}{rng.choice([chr(10), chr(10) * 2, ''])}")
        elif k == "linecomment" and c["line_comment_prefix"]:
            out.append(f"{rng.choice(['', chr(10), ' ', 'w '])}{c['line_comment_prefix']} note{rng.choice([chr(10), ''])}")
        else:
            out.append(ws())
        desc.append(k)
    return "".join(out), desc


def env_variants(jinja2, c):
    """the same configuration reached three ways (fresh environment, overlay of an already used
    environment with different options, spontaneous environment of Template(...))"""
    fresh = jinja2.Environment(**c)
    base = jinja2.Environment(trim_blocks=not c["trim_blocks"], lstrip_blocks=not c["lstrip_blocks"],
                              keep_trailing_newline=not c["keep_trailing_newline"])
    list(base.lex("{% if x %} a {% endif %}\n"))
    base.from_string("{{ 1 }}\n")
    ov = base.overlay(**c)
    t = jinja2.Template("", **c)
    return [("fresh", fresh), ("overlay-of-used", ov), ("template-ctor", t.environment)]
