"""C09 — shared pieces of the async ≡ sync check: JSON-able data specifications built fresh for every render (plain,
callables as `async def`, iterables as async generators), the entry-point oracle, canonicalisation, and the translation
validation (`erase`) that turns the code generated in async mode into the code generated in sync mode."""
from __future__ import annotations

import ast
import asyncio
import re
import warnings

# ---------------------------------------------------------------------------------------------------------------
# data: a JSON-able specification, built anew for every single render (nothing is shared between renders)
# ---------------------------------------------------------------------------------------------------------------
#   spec value := int | str | bool | None | [spec…] | {"$dict": [[k, v]…]} | {"$markup": s} | {"$obj": {...}}
#                 | {"$fn": name} | {"$aiter": [spec…]}   (an iterable that may be handed over as an async generator)
#                 | {"$tuple": [spec…]}

FN_NAMES = ["f0", "f1", "inc", "mk", "twice", "tick", "pairs", "ident"]


class DataObj:
    """data object: attributes `a`, `k`, `v`, … items via [], one method"""

    def __init__(self, oid, attrs, items, mode):
        self._oid = oid
        self._items = items
        self._mode = mode
        for k, v in attrs.items():
            setattr(self, k, v)
        if mode.get("acall"):
            async def meth(x=0):
                return [oid, x]
        else:
            def meth(x=0):
                return [oid, x]
        meth.__name__ = meth.__qualname__ = "meth"
        self.meth = meth

    def __getitem__(self, k):
        return self._items[k]

    def __repr__(self):
        return f"<obj{self._oid}>"


def _mk_fns(state):
    def f0(*a):
        return list(a)

    def f1(*a):
        return len(a)

    def inc(x):
        return x + 1

    def mk(n=2):
        return list(range(n))

    def twice(s):
        return s * 2

    def tick():
        state["tick"] += 1
        return state["tick"]

    def pairs():
        return [["a", 1], ["b", 2]]

    def ident(x):
        return x

    def lst(x):
        return list(x)

    return {"f0": f0, "f1": f1, "inc": inc, "mk": mk, "twice": twice, "tick": tick, "pairs": pairs, "ident": ident, "lst": lst}


def _awrap(f):
    async def af(*a, **kw):
        return f(*a, **kw)
    af.__name__ = f.__name__
    af.__qualname__ = f.__qualname__
    return af


def _agen(xs):
    async def ag():
        for x in xs:
            yield x
    return ag()


def build(spec, mode, state=None, fns=None):
    """mode: dict(acall=bool, aiter=bool, giter=bool) — giter hands `$aiter` values over as *sync* generators"""
    from markupsafe import Markup

    if state is None:
        state = {"tick": 0, "oid": 0}
        fns = _mk_fns(state)

    def b(v):
        if v is None or isinstance(v, (bool, int, str)):
            return v
        if isinstance(v, list):
            return [b(x) for x in v]
        if "$markup" in v:
            return Markup(v["$markup"])
        if "$tuple" in v:
            return tuple(b(x) for x in v["$tuple"])
        if "$dict" in v:
            return {b(k): b(x) for k, x in v["$dict"]}
        if "$fn" in v:
            f = fns[v["$fn"]]
            return _awrap(f) if mode.get("acall") else f
        if "$obj" in v:
            o = v["$obj"]
            return DataObj(o.get("id", 0), {k: b(x) for k, x in o.get("attrs", [])},
                           {b(k): b(x) for k, x in o.get("items", [])}, mode)
        if "$aiter" in v:
            xs = [b(x) for x in v["$aiter"]]
            if mode.get("aiter"):
                return _agen(xs)
            if mode.get("giter"):
                return (x for x in xs)
            return xs
        raise ValueError(v)

    return {k: b(v) for k, v in spec.items()}


PLAIN = {}
ACALL = {"acall": True}
AITER = {"aiter": True}
ABOTH = {"acall": True, "aiter": True}


def has_kind(spec, kind):
    if isinstance(spec, dict):
        if kind in spec:
            return True
        return any(has_kind(v, kind) for v in spec.values())
    if isinstance(spec, list):
        return any(has_kind(v, kind) for v in spec)
    return False


# ---------------------------------------------------------------------------------------------------------------
# environments
# ---------------------------------------------------------------------------------------------------------------

CLASSES = ["Environment", "SandboxedEnvironment", "ImmutableSandboxedEnvironment", "NativeEnvironment"]
EXTENSIONS = ["jinja2.ext.do", "jinja2.ext.loopcontrols"]


def env_class(jinja2, name):
    if name == "Environment":
        return jinja2.Environment
    if name == "NativeEnvironment":
        from jinja2.nativetypes import NativeEnvironment
        return NativeEnvironment
    import jinja2.sandbox as sb
    return getattr(sb, name)


def resolve_autoescape(jinja2, autoescape):
    """False / True / "select" (select_autoescape(['html'])) / "lambda" (a callable: on for *.html names)"""
    if autoescape == "select":
        return jinja2.select_autoescape(["html"])
    if autoescape == "lambda":
        return lambda name: bool(name) and name.endswith(".html")
    return autoescape


def make_env(jinja2, cls, templates, is_async, autoescape=False, **kw):
    autoescape = resolve_autoescape(jinja2, autoescape)
    e = env_class(jinja2, cls)(loader=jinja2.DictLoader(dict(templates)), enable_async=is_async, autoescape=autoescape,
                               extensions=EXTENSIONS, **kw)
    return e


# ---------------------------------------------------------------------------------------------------------------
# canonical outputs
# ---------------------------------------------------------------------------------------------------------------

_ADDR = re.compile(r"0x[0-9a-fA-F]{6,}")
_GENREPR = re.compile(r"<(?:async_)?generator object [\w.<>]+ at ADDR>")
_GENREPR_ESC = re.compile(r"&lt;(?:async_)?generator object [\w.&;<>]+? at ADDR&gt;")


def canon_text(s: str) -> str:
    if "0x" in s:
        s = _ADDR.sub("ADDR", s)
        s = _GENREPR.sub("<generator>", s)
        s = _GENREPR_ESC.sub("<generator>", s)
    return s


def canon_value(v):
    if isinstance(v, str):
        return canon_text(v)
    return type(v).__name__ + ":" + canon_text(repr(v))


def err(e):
    return ("err", type(e).__name__)


class Runner:
    """one persistent event loop for render_async / generate_async (Template.render on an async environment runs its own)"""

    def __init__(self):
        self.loop = asyncio.new_event_loop()
        warnings.simplefilter("ignore", RuntimeWarning)

    def run(self, coro):
        return self.loop.run_until_complete(coro)

    def close(self):
        try:
            self.loop.run_until_complete(self.loop.shutdown_asyncgens())
        finally:
            self.loop.close()


def _join(pieces, env):
    """what the pieces of a generate-like entry point amount to: what the environment's `concat` makes of them ("".join, a
    TypeError if a piece is not a string; `native_concat` for native environments) — the way `render` assembles the same
    pieces.  How the output is cut into pieces is not compared (constant folding merges adjacent pieces in sync mode only
    where the async guard forbids folding)."""
    try:
        return ("ok", canon_value(env.concat(pieces)))
    except TypeError as e:
        return err(e)


def entry(runner, tmpl, how, data):
    """→ ('ok', canonical output) | ('err', exception class name)"""
    try:
        if how == "render":
            return ("ok", canon_value(tmpl.render(data)))
        if how == "generate":
            return _join(list(tmpl.generate(data)), tmpl.environment)
        if how == "stream":
            return _join(list(tmpl.stream(data)), tmpl.environment)
        if how == "render_async":
            return ("ok", canon_value(runner.run(tmpl.render_async(data))))
        if how == "generate_async":
            async def collect():
                return [x async for x in tmpl.generate_async(data)]
            return _join(runner.run(collect()), tmpl.environment)
        raise AssertionError(how)
    except Exception as e:  # noqa
        return err(e)


SYNC_ENTRIES = ["render", "generate", "stream"]
ASYNC_ENTRIES = ["render", "render_async", "generate_async", "generate"]
RENDER_LIKE = {"render", "render_async"}


GITER = {"giter": True}
# (label, data mode on the async side, data mode of the sync baseline it is compared with)
MODES = [("plain", PLAIN, "plain"), ("acall", ACALL, "plain"), ("giter", GITER, "giter"), ("aiter", AITER, "giter"),
         ("acall+aiter", ABOTH, "giter")]
SYNC_MODES = {"plain": PLAIN, "giter": GITER}


def oracle(jinja2, runner, cls, templates, main, spec, autoescape, modes=MODES, env_kw=None):
    """all renderings of one program under one environment class; returns (baseline result, [(label, result)], differences).
    Every async rendering is compared with the sync renderings of the same data *shape*: plain data and data whose callables
    are coroutine functions against the sync environment with plain data; one-shot iterables (sync generators, async
    generators) against the sync environment fed with one-shot sync generators of the same items.
    Every entry point must give the same result (text; native value for native environments) or exception class; the
    pieces of generate-like entry points are assembled with the environment's own `concat`."""
    env_kw = env_kw or {}
    native = cls == "NativeEnvironment"
    try:
        senv = make_env(jinja2, cls, templates, False, autoescape, **env_kw)
        aenv = make_env(jinja2, cls, templates, True, autoescape, **env_kw)
    except Exception as e:  # noqa
        return None, [("construct", err(e))], []
    try:
        st = senv.get_template(main)
        sc = None
    except Exception as e:  # noqa
        st, sc = None, err(e)
    try:
        at = aenv.get_template(main)
        ac = None
    except Exception as e:  # noqa
        at, ac = None, err(e)
    if st is None or at is None:
        outs = [("sync:compile", sc or ("ok", "compiled")), ("async:compile", ac or ("ok", "compiled"))]
        diffs = [] if sc == ac else [("sync:compile", "async:compile")]
        return outs[0][1], outs, diffs
    outs, base, diffs = [], {}, []

    def record(label, how, shape, r):
        outs.append((label, r))
        grp = shape
        if grp not in base:
            base[grp] = (label, r)
        elif base[grp][1] != r:
            diffs.append((base[grp][0], label))

    shapes = []
    for _, _, shape in modes:
        if shape not in shapes:
            shapes.append(shape)
    for shape in shapes:
        for how in SYNC_ENTRIES:
            record(f"sync:{how}:{shape}", how, shape, entry(runner, st, how, build(spec, SYNC_MODES[shape])))
    for mname, mode, shape in modes:
        for how in ASYNC_ENTRIES:
            if mname != "plain" and how == "generate":
                continue
            record(f"async:{how}:{mname}", how, shape, entry(runner, at, how, build(spec, mode)))
    return outs[0][1], outs, diffs


# ---------------------------------------------------------------------------------------------------------------
# translation validation: erase the async constructs from the code generated in async mode
# ---------------------------------------------------------------------------------------------------------------

ASYNC_ONLY_IMPORTS = {"AsyncLoopContext", "auto_aiter", "auto_await"}
RENAMES = {"AsyncLoopContext": "LoopContext"}
ATTR_RENAMES = {"aclose": "close", "make_module_async": "make_module", "_get_default_module_async": "_get_default_module",
                "__anext__": "__next__", "__aiter__": "__iter__"}
UNWRAP_CALLS = {"auto_await", "auto_aiter"}


class NotErasable(Exception):
    pass


class Erase(ast.NodeTransformer):
    """async → sync: `async def`→`def`, `async for`→`for`, `async with`→`with`, `await X`→X, `auto_await(X)`→X,
    `auto_aiter(X)`→X, `auto_to_list(X)`→`list(X)`, AsyncLoopContext→LoopContext, `.aclose()`→`.close()`,
    `*_async` module accessors → their sync names.  Counts what it erased."""

    def __init__(self):
        self.count = {}

    def hit(self, k):
        self.count[k] = self.count.get(k, 0) + 1

    def visit_AsyncFunctionDef(self, node):
        self.hit("async def")
        self.generic_visit(node)
        new = ast.FunctionDef(name=node.name, args=node.args, body=node.body, decorator_list=node.decorator_list,
                              returns=node.returns, type_comment=None, type_params=[])
        return ast.copy_location(new, node)

    def visit_AsyncFor(self, node):
        self.hit("async for")
        self.generic_visit(node)
        return ast.copy_location(ast.For(target=node.target, iter=node.iter, body=node.body, orelse=node.orelse,
                                         type_comment=None), node)

    def visit_AsyncWith(self, node):
        self.hit("async with")
        self.generic_visit(node)
        return ast.copy_location(ast.With(items=node.items, body=node.body, type_comment=None), node)

    def visit_Await(self, node):
        self.hit("await")
        inner = self.visit(node.value)
        inner._awaited = True
        return inner

    def visit_Call(self, node):
        self.generic_visit(node)
        if isinstance(node.func, ast.Name) and node.func.id in UNWRAP_CALLS and len(node.args) == 1 and not node.keywords:
            self.hit(node.func.id)
            if node.func.id == "auto_aiter":
                node.args[0]._aitered = True
            return node.args[0]
        if isinstance(node.func, ast.Name) and node.func.id == "auto_to_list" and len(node.args) == 1 and not node.keywords:
            self.hit("auto_to_list")
            node.func = ast.Name(id="list", ctx=ast.Load())
        return node

    def visit_Name(self, node):
        if node.id in RENAMES:
            self.hit(node.id)
            node.id = RENAMES[node.id]
        return node

    def visit_Attribute(self, node):
        self.generic_visit(node)
        if node.attr in ATTR_RENAMES:
            self.hit("." + node.attr)
            node.attr = ATTR_RENAMES[node.attr]
        return node

    def visit_ImportFrom(self, node):
        if node.module == "jinja2.runtime":
            node.names = [a for a in node.names if a.name not in ASYNC_ONLY_IMPORTS]
        return node

    def visit_ListComp(self, node):
        self.generic_visit(node)
        for g in node.generators:
            if g.is_async:
                self.hit("async comprehension")
                g.is_async = 0
        return node

    visit_GeneratorExp = visit_ListComp


def _is_name(n, name=None):
    return isinstance(n, ast.Name) and (name is None or n.id == name)


def _count_name(tree, name):
    return sum(1 for n in ast.walk(tree) if isinstance(n, ast.Name) and n.id == name)


class _Subst(ast.NodeTransformer):
    def __init__(self, name, value):
        self.name, self.value = name, value

    def visit_Name(self, node):
        if node.id == self.name and isinstance(node.ctx, ast.Load):
            return self.value
        return node


class Scaffold(ast.NodeTransformer):
    """closing scaffolding, applied to BOTH sides after erasure:
         g = E; try: for T in …g…: BODY  finally: g.close()      →   for T in …E…: BODY          (g a temporary, used once)
         g = E; try: for event in g: yield event  finally: g.close()   →   yield from E
       (the compiler writes the left form where a generator has to be closed explicitly — always in async mode, only inside
       buffered frames in sync mode — and `yield from` / a bare loop elsewhere)"""

    def __init__(self):
        self.count = {}

    def _block(self, body):
        out = []
        i = 0
        while i < len(body):
            s = body[i]
            nxt = body[i + 1] if i + 1 < len(body) else None
            r = self._match(s, nxt)
            if r is not None:
                out.append(r)
                i += 2
            else:
                out.append(s)
                i += 1
        return out

    def _match(self, s, t):
        if not (isinstance(s, ast.Assign) and len(s.targets) == 1 and _is_name(s.targets[0]) and isinstance(t, ast.Try)):
            return None
        g = s.targets[0].id
        if t.handlers or t.orelse or len(t.body) != 1 or len(t.finalbody) != 1 or not isinstance(t.body[0], ast.For):
            return None
        f = t.finalbody[0]
        if not (isinstance(f, ast.Expr) and isinstance(f.value, ast.Call) and isinstance(f.value.func, ast.Attribute)
                and f.value.func.attr == "close" and _is_name(f.value.func.value, g) and not f.value.args):
            return None
        loop = t.body[0]
        if _count_name(loop.iter, g) != 1 or any(_count_name(b, g) for b in loop.body) or loop.orelse:
            return None
        if (_is_name(loop.iter, g) and _is_name(loop.target) and len(loop.body) == 1 and isinstance(loop.body[0], ast.Expr)
                and isinstance(loop.body[0].value, ast.Yield) and _is_name(loop.body[0].value.value, loop.target.id)):
            self.count["yield-from"] = self.count.get("yield-from", 0) + 1
            return ast.Expr(value=ast.YieldFrom(value=s.value))
        self.count["closing-try"] = self.count.get("closing-try", 0) + 1
        loop.iter = _Subst(g, s.value).visit(loop.iter)
        return loop

    def generic_visit(self, node):
        super().generic_visit(node)
        for fld in ("body", "orelse", "finalbody"):
            b = getattr(node, fld, None)
            if isinstance(b, list) and b and isinstance(b[0], ast.stmt):
                setattr(node, fld, self._block(b))
        return node


_TEMP = re.compile(r"t_\d+$")


class Alpha(ast.NodeTransformer):
    """temporaries `t_N` renamed in order of first appearance (async mode allocates one more per filtered loop)"""

    def __init__(self):
        self.map = {}

    def _n(self, name):
        if _TEMP.match(name):
            return self.map.setdefault(name, f"T{len(self.map)}")
        return name

    def visit_Name(self, node):
        node.id = self._n(node.id)
        return node

    def visit_FunctionDef(self, node):
        node.name = self._n(node.name)
        self.generic_visit(node)
        return node

    def visit_arg(self, node):
        node.arg = self._n(node.arg)
        return node

    def visit_Assign(self, node):
        # `debug_info = 'tline=cline&…'`: the code lines differ by construction (async code has more lines); the template
        # lines and their order must be the same
        if (len(node.targets) == 1 and isinstance(node.targets[0], ast.Name) and node.targets[0].id == "debug_info"
                and isinstance(node.value, ast.Constant) and isinstance(node.value.value, str)):
            node.value = ast.Constant(value=",".join(p.split("=")[0] for p in node.value.value.split("&")))
            return node
        self.generic_visit(node)
        return node


_SITES = None
# the sites Props/C09.await_sites_known pins; a site the current compiler no longer has is still required here (and breaks the theorem)
EXPECTED_WRAPPED = ["environment.getattr", "environment.getitem", "<filter>", "<test>", "environment.call", "context.call"]
EXPECTED_BARE = ["environment.get_template", "loop"]


def _await_sites():
    """await sites READ from compiler.py on this run, united with the pinned ones"""
    global _SITES
    if _SITES is None:
        try:
            from translate.async_pairs import await_sites
            w, b = await_sites()
        except Exception:  # noqa  (the translator's failure is reported as a broken tie by main)
            w, b = [], []
        _SITES = (sorted(set(w) | set(EXPECTED_WRAPPED)), sorted(set(b) | set(EXPECTED_BARE)))
    return _SITES


def missing_async(async_tree, erased_tree):
    """the other direction of the validation: every site where the compiler must await / iterate asynchronously does so.
    `async_tree` is the parsed async-mode code, `erased_tree` its erasure (nodes that stood under an `await` carry `_awaited`,
    arguments of `auto_aiter` carry `_aitered`).  Must be awaited: every callee the code generator wraps in
    `(await auto_await(` or prefixes with `choose_async('await ')` — READ from compiler.py on every run (context.call /
    environment.call, environment.getattr / getitem, filter and test temporaries, the recursive `loop(…)`) — plus the erased
    module accessors `make_module` / `_get_default_module` and `.close()` of a generator (was `aclose`).  Must be asynchronous: every
    function, every `for` except the ones over `._body_stream` / `parent_template.blocks.items()`; `LoopContext` must not occur."""
    out = []
    temps = set()
    for n in ast.walk(erased_tree):
        if isinstance(n, ast.Assign) and len(n.targets) == 1 and isinstance(n.targets[0], ast.Name) and _TEMP.match(n.targets[0].id) \
                and isinstance(n.value, ast.Subscript) and isinstance(n.value.value, ast.Attribute) \
                and n.value.value.attr in ("filters", "tests") and _is_name(n.value.value.value, "environment"):
            temps.add(n.targets[0].id)
    wrapped, bare = _await_sites()
    for n in ast.walk(erased_tree):
        if not isinstance(n, ast.Call):
            continue
        f = n.func
        need = None
        callee = ast.unparse(f) if isinstance(f, (ast.Attribute, ast.Name)) else ""
        if callee in wrapped or callee in bare:          # sites READ from compiler.py (translate.async_pairs.await_sites)
            need = callee
        if isinstance(f, ast.Name) and f.id in temps and ("<filter>" in wrapped or "<test>" in wrapped):
            need = "filter/test temporary"
        if isinstance(f, ast.Attribute) and f.attr in ("make_module", "_get_default_module", "close"):
            need = "." + f.attr                            # erased `*_async` accessors / `aclose` (ATTR_RENAMES)
        if callee == "environment.get_template" and not getattr(n, "_awaited", False):
            # `await environment.get_template(…).make_module_async(…)`: the await belongs to the accessor call around it
            need = None
        if need and not getattr(n, "_awaited", False):
            out.append(f"{need}(…) is not awaited")
        if isinstance(f, ast.Name) and f.id == "loop" and n.args and not getattr(n.args[0], "_aitered", False):
            out.append("recursive loop call: iterable not passed through auto_aiter")
    for n in ast.walk(async_tree):
        if isinstance(n, ast.FunctionDef) and not any(isinstance(d, ast.Name) and d.id == "internalcode" for d in n.decorator_list):
            out.append(f"def {n.name} is not async")
        elif isinstance(n, ast.For):
            it = ast.unparse(n.iter)
            if not (it.endswith("._body_stream") or it == "parent_template.blocks.items()"):
                out.append(f"sync for over {it[:60]}")
        elif isinstance(n, ast.Name) and n.id == "LoopContext":
            out.append("LoopContext instead of AsyncLoopContext")
        elif isinstance(n, ast.YieldFrom):
            out.append("yield from in async code")
    return sorted(set(out))


ASYNC_NODES = (ast.AsyncFunctionDef, ast.AsyncFor, ast.AsyncWith, ast.Await)
ASYNC_NAMES = {"auto_await", "auto_aiter", "auto_to_list", "AsyncLoopContext"}


def residue(tree):
    """async constructs left after erasure (must be empty)"""
    out = []
    for n in ast.walk(tree):
        if isinstance(n, ASYNC_NODES):
            out.append(type(n).__name__)
        elif isinstance(n, ast.Name) and n.id in ASYNC_NAMES:
            out.append(n.id)
        elif isinstance(n, ast.Attribute) and (n.attr.endswith("_async") or n.attr in ("aclose", "__anext__", "__aiter__")):
            out.append("." + n.attr)
        elif isinstance(n, ast.comprehension) and n.is_async:
            out.append("async comprehension")
    return out


def normal_form(src: str, erase: bool):
    """→ (dump, erased-construct counts)"""
    tree = ast.parse(src)
    counts = {}
    if erase:
        original = ast.parse(src)
        e = Erase()
        tree = e.visit(tree)
        counts.update(e.count)
        missing = missing_async(original, tree)
        if missing:
            raise NotErasable("missing: " + "; ".join(missing[:4]))
    s = Scaffold()
    tree = s.visit(tree)
    for k, v in s.count.items():
        counts[k] = counts.get(k, 0) + v
    tree = Alpha().visit(tree)
    ast.fix_missing_locations(tree)
    left = residue(tree)
    if left:
        raise NotErasable(", ".join(sorted(set(left))))
    return ast.dump(tree, annotate_fields=False, include_attributes=False), counts, tree


def first_difference(a: ast.AST, b: ast.AST):
    """unparse of the first differing statement pair (for the report)"""
    def stmts(t):
        return [n for n in ast.walk(t) if isinstance(n, ast.stmt) and not isinstance(n, (ast.FunctionDef, ast.For, ast.If, ast.Try, ast.With))]
    sa, sb = stmts(a), stmts(b)
    for x, y in zip(sa, sb):
        dx, dy = ast.dump(x), ast.dump(y)
        if dx != dy:
            return ast.unparse(x)[:300], ast.unparse(y)[:300]
    return (f"{len(sa)} simple statements", f"{len(sb)} simple statements")


# ---------------------------------------------------------------------------------------------------------------
# fold-neutral form of a template: constants under an async-variant filter that the sync compiler would fold
# ---------------------------------------------------------------------------------------------------------------

def lift_guarded_folds(jinja2, env, tree):
    """`_FilterTestCommon.as_const` refuses to fold a filter with an async variant in an async environment (the guard the
    Lean theorem async_flag_unobservable_expr is about), so the two modes legitimately differ in *what is folded*.
    For the code comparison such constants are replaced by context variables (`c_N`), in the parsed template, in the
    same way for both modes; nothing else is changed.  Returns the number of lifted constants."""
    N = jinja2.nodes
    ectx = N.EvalContext(env)
    lifted = 0

    def foldable(node):
        try:
            node.as_const(ectx)
            return True
        except Exception:  # noqa
            return False

    def lift(node):
        nonlocal lifted
        for fld, val in list(node.iter_fields()):
            if isinstance(val, N.Const):
                setattr(node, fld, N.Name(f"c_{lifted}", "load", lineno=val.lineno))
                lifted += 1
            elif isinstance(val, N.Node):
                lift(val)
            elif isinstance(val, list):
                for i, x in enumerate(val):
                    if isinstance(x, N.Const):
                        val[i] = N.Name(f"c_{lifted}", "load", lineno=x.lineno)
                        lifted += 1
                    elif isinstance(x, N.Node):
                        lift(x)

    def walk(node):
        nonlocal lifted
        if isinstance(node, (N.Filter, N.Test)):
            table = env.filters if isinstance(node, N.Filter) else env.tests
            f = table.get(node.name)
            if getattr(f, "jinja_async_variant", False) and node.node is not None and foldable(node):
                before = lifted
                lift(node)
                if lifted == before:          # no literal leaf (`[]|sum`): the operand itself becomes a variable
                    node.node = N.Name(f"c_{lifted}", "load", lineno=node.lineno)
                    lifted += 1
                # an inner async-variant filter may still be foldable on its own (`[]|list|join(',')`): keep walking
        for child in node.iter_child_nodes():
            walk(child)

    walk(tree)
    return lifted


def code_pair(jinja2, cls, src, autoescape=False, name="t", env_kw=None):
    """generated Python for one template source in both modes (after lifting guarded folds) → (sync_src, async_src, lifted)"""
    env_kw = env_kw or {}
    out = []
    lifted = 0
    for is_async in (False, True):
        env = make_env(jinja2, cls, {}, is_async, autoescape, **env_kw)
        tree = env.parse(src, name=name)
        senv = env if not is_async else make_env(jinja2, cls, {}, False, autoescape, **env_kw)
        lifted = lift_guarded_folds(jinja2, senv, tree)
        out.append(env.compile(tree, name=name, raw=True))
    return out[0], out[1], lifted
