"""Shared by C36/C37: an event loop that records every async generator that starts iterating (asyncgen hooks),
and the translation validation of the Python code generated for async templates into GenTree statements."""
from __future__ import annotations

import ast
import asyncio
import re

from harness.core import Atom
from translate import async_sites as S


# --------------------------------------------------------------------------------------------------
# event loop with asyncgen bookkeeping
# --------------------------------------------------------------------------------------------------

class TrackLoop(asyncio.SelectorEventLoop):
    """run_forever() installs `sys.set_asyncgen_hooks(firstiter=self._asyncgen_firstiter_hook, finalizer=…)`;
    both are overridden here.  strong=True keeps a reference to every generator, so that none can be finalised
    behind our back and its state can be inspected after the task has finished."""

    def __init__(self, strong=True):
        super().__init__()
        self.strong = strong
        self.seen = []          # generators in order of first iteration (strong mode) / their descriptions
        self.names = []
        self.finalized = []     # descriptions of generators handed to the finalizer hook (GC had to close them)
        self._orphans = []

    @staticmethod
    def describe(agen):
        code = agen.ag_code
        return (code.co_name, code.co_varnames[:1], code.co_filename)

    def _asyncgen_firstiter_hook(self, agen):
        self.names.append(self.describe(agen))
        if self.strong:
            self.seen.append(agen)

    def _asyncgen_finalizer_hook(self, agen):
        self.finalized.append(self.describe(agen))
        self._orphans.append(agen)

    def unclosed(self):
        """indices (first-iteration order) of generators that are still suspended"""
        return [i for i, g in enumerate(self.seen) if g.ag_frame is not None]

    def cleanup(self):
        for g in self.seen + self._orphans:
            if g.ag_frame is not None:
                try:
                    self.run_until_complete(g.aclose())
                except BaseException:  # noqa
                    pass
        self.seen.clear()
        self._orphans.clear()
        self.close()


def site_class(desc, data_files=()):
    """what kind of generator a leaked generator is, from its code object"""
    name, first, filename = desc
    if filename in data_files or filename.replace("\\", "/").endswith("jinja2/filters.py"):
        return "data"          # harness data generators; async generators made by async filters are values, not template machinery
    if re.fullmatch(r"t_\d+", name) and first == ("fiter",):
        return "loop-filter"
    if name == "root":
        return "template-root"
    if name.startswith("block_"):
        return "block"
    return name


# --------------------------------------------------------------------------------------------------
# translation validation: generated template code -> GenTree statements
# --------------------------------------------------------------------------------------------------

class Unclassified(Exception):
    pass


Y = [Atom("y")]
A = [Atom("a")]
EXTERNAL = [A, Y]     # body of a generator defined elsewhere (another template's root / a block chosen at run time)


def _calls_named(e, names):
    return [n for n in ast.walk(e) if isinstance(n, ast.Call) and isinstance(n.func, ast.Name) and n.func.id in names]


def _creation_kind(call):
    """is this call the creation of an async generator of the template machinery?"""
    f = call.func
    if isinstance(f, ast.Attribute) and f.attr == "root_render_func":
        return "template-root"
    if (isinstance(f, ast.Subscript) and isinstance(f.value, ast.Subscript)
            and ast.unparse(f.value.value) == "context.blocks"):
        return "block"
    return None


class FunctionTree:
    """statements of one generated function (root / block_x) as GenTree statements"""

    def __init__(self, fn: ast.AsyncFunctionDef):
        self.fn = fn
        self.gens = {}        # local async generator functions (loop filters) by name
        self.coros = {}       # local coroutines (macros, recursive loop functions)
        self.sites = []       # (label, kind)
        self.seen_nodes = set()
        self.stmts = self.block(fn.body, frozenset())

    # every AsyncFor / async comprehension / AsyncWith / generator creation must be accounted for
    def verify_complete(self):
        for n in ast.walk(self.fn):
            if isinstance(n, (ast.AsyncFor, ast.AsyncWith)) and id(n) not in self.seen_nodes:
                raise Unclassified(f"{self.fn.name}: unvisited {ast.unparse(n)[:80]}")
            if isinstance(n, ast.comprehension) and n.is_async:
                raise Unclassified(f"{self.fn.name}: async comprehension in generated code")
            if isinstance(n, ast.Call):
                k = _creation_kind(n)
                local = isinstance(n.func, ast.Name) and n.func.id in self.gens
                if (k or local) and id(n) not in self.seen_nodes:
                    raise Unclassified(f"{self.fn.name}: generator created outside a recognised consumption form: "
                                       f"{ast.unparse(n)[:80]}")
            if isinstance(n, (ast.Yield, ast.Await)) and id(n) not in self.seen_nodes:
                raise Unclassified(f"{self.fn.name}: unvisited {ast.unparse(n)[:80]}")
            if isinstance(n, ast.YieldFrom):
                raise Unclassified("yield from in async code")

    def expr(self, e, active):
        """suspension points inside an expression, in evaluation order (approximated by source order)"""
        out = []
        if e is None:
            return out
        for n in self._walk_expr(e):
            if isinstance(n, ast.Await):
                self.seen_nodes.add(id(n))
                v = n.value
                if isinstance(v, ast.Call) and isinstance(v.func, ast.Name) and v.func.id in self.coros:
                    name = v.func.id
                    if name in active:
                        out.append(A)                      # recursive call: cut
                    else:
                        out += self.block(self.coros[name].body, active | {name})
                elif isinstance(v, ast.Call) and isinstance(v.func, ast.Attribute) and v.func.attr in (
                        "make_module_async", "_get_default_module_async"):
                    self.sites.append(("import:" + v.func.attr, "drain"))
                    out.append([Atom("d"), "import:" + v.func.attr, EXTERNAL])
                elif isinstance(v, ast.Call) and isinstance(v.func, ast.Attribute) and v.func.attr == "aclose":
                    raise Unclassified(f"aclose outside a bracket: {ast.unparse(n)}")
                else:
                    out.append(A)
            elif isinstance(n, ast.Yield):
                self.seen_nodes.add(id(n))
                out.append(Y)
        return out

    def _walk_expr(self, e):
        """post-order (operands before the operation), not descending into nested function definitions"""
        if isinstance(e, (ast.Lambda, ast.FunctionDef, ast.AsyncFunctionDef)):
            return
        for c in ast.iter_child_nodes(e):
            yield from self._walk_expr(c)
        yield e

    def _iter_site(self, it, active):
        """classify the iterable of a plain (unbracketed) `async for`:  returns (prefix statements, opener or None)"""
        pre = []
        # AsyncLoopContext(X, undefined, …) iterates X through auto_aiter (runtime.py AsyncLoopContext._to_iterator)
        if isinstance(it, ast.Call) and isinstance(it.func, ast.Name) and it.func.id == "AsyncLoopContext" and it.args:
            for a in it.args[1:]:
                pre += self.expr(a, active)
            it = it.args[0]
        if isinstance(it, ast.Call) and isinstance(it.func, ast.Name) and it.func.id in self.gens and len(it.args) == 1:
            self.seen_nodes.add(id(it))
            arg = it.args[0]
            if isinstance(arg, ast.Call) and isinstance(arg.func, ast.Name) and arg.func.id == "auto_aiter":
                arg = arg.args[0]
            self._no_creation(arg)
            pre += self.expr(arg, active)
            child = self.block(self.gens[it.func.id].body, active | {it.func.id})
            return pre, ("loop-filter", child)
        if isinstance(it, ast.Call) and _creation_kind(it):
            # a block / template generator iterated directly, without a bracket
            self.seen_nodes.add(id(it))
            for a in it.args:
                self._no_creation(a)
                pre += self.expr(a, active)
            label = "block" if _creation_kind(it) == "block" else (
                "extends" if ast.unparse(it).startswith("parent_template.") else "include")
            return pre, (label, EXTERNAL)
        if isinstance(it, ast.Call) and isinstance(it.func, ast.Name) and it.func.id == "auto_aiter" and len(it.args) == 1:
            it = it.args[0]
        self._no_creation(it)      # what is left must be a data expression
        pre += self.expr(it, active)
        return pre, None

    def _no_creation(self, e):
        for c in ast.walk(e):
            if isinstance(c, ast.Call) and (_creation_kind(c) or (isinstance(c.func, ast.Name) and c.func.id in self.gens)):
                raise Unclassified(f"generator created inside a data expression: {ast.unparse(e)[:80]}")

    def block(self, stmts, active):
        out = []
        i = 0
        while i < len(stmts):
            st = stmts[i]
            nxt = stmts[i + 1] if i + 1 < len(stmts) else None
            # gen = <creation>; try: async for … in gen: …  finally: await gen.aclose()
            local_gen = (isinstance(st, ast.Assign) and isinstance(st.value, ast.Call) and isinstance(st.value.func, ast.Name)
                         and st.value.func.id in self.gens and len(st.value.args) == 1)
            if (isinstance(st, ast.Assign) and len(st.targets) == 1 and isinstance(st.targets[0], ast.Name)
                    and isinstance(st.value, ast.Call) and (_creation_kind(st.value) or local_gen)):
                br = (S.try_bracket(nxt) or S.with_bracket(nxt)) if nxt is not None else None
                child = EXTERNAL
                if local_gen:
                    label = "loop-filter"
                    child = self.block(self.gens[st.value.func.id].body, active | {st.value.func.id})
                elif _creation_kind(st.value) == "block":
                    label = "block"
                elif ast.unparse(st.value).startswith("parent_template."):
                    label = "extends"
                else:
                    label = "include"
                for a in st.value.args:
                    self._no_creation(a)
                    out += self.expr(a, active)
                self.seen_nodes.add(id(st.value))
                if br and br[0] == st.targets[0].id:
                    loop = br[1]
                    self.seen_nodes.update({id(loop), id(nxt)})
                    if isinstance(nxt, ast.Try):
                        aw = nxt.finalbody[0].value
                        self.seen_nodes.add(id(aw))
                    if not isinstance(loop.iter, ast.Name):      # AsyncLoopContext(NAME, undefined, …)
                        for a in loop.iter.args[1:]:
                            out += self.expr(a, active)
                    body = self.block(loop.body, active)
                    self.sites.append((label, "bracketed"))
                    out.append([Atom("o"), Atom("b"), label, child, body])
                    i += 2
                    continue
                # the creation is not followed by a bracket: look for a bare loop over the name
                if isinstance(nxt, ast.AsyncFor) and S.iter_name(nxt.iter) == st.targets[0].id:
                    self.seen_nodes.add(id(nxt))
                    body = self.block(nxt.body, active) + self.block(nxt.orelse, active)
                    self.sites.append((label, "bare"))
                    out.append([Atom("o"), Atom("r"), label, child, body])
                    i += 2
                    continue
                # try: async for … in NAME: …  finally: <something that is not `await NAME.aclose()`>
                if (isinstance(nxt, ast.Try) and not nxt.handlers and not nxt.orelse and len(nxt.body) == 1
                        and isinstance(nxt.body[0], ast.AsyncFor) and S.iter_name(nxt.body[0].iter) == st.targets[0].id):
                    loop = nxt.body[0]
                    self.seen_nodes.add(id(loop))
                    body = self.block(loop.body, active) + self.block(loop.orelse, active)
                    self.sites.append((label, "bare"))
                    out.append([Atom("o"), Atom("r"), label, child, body])
                    out += self.block(nxt.finalbody, active)
                    i += 2
                    continue
                raise Unclassified(f"{label} generator is created but not consumed by the next statement: {ast.unparse(st)[:80]}")
            if isinstance(st, ast.AsyncFunctionDef):
                if S.is_async_generator_def(st):
                    self.gens[st.name] = st
                else:
                    self.coros[st.name] = st
                    # a coroutine (macro / call block / recursive loop) is called dynamically: its sites count where
                    # it is defined unless it is awaited by name later (then they count again there, harmlessly)
                    out += self.block(st.body, active | {st.name})
            elif isinstance(st, ast.AsyncFor):
                self.seen_nodes.add(id(st))
                pre, opener = self._iter_site(st.iter, active)
                out += pre
                body = self.block(st.body, active) + self.block(st.orelse, active)
                if opener:
                    self.sites.append((opener[0], "bare"))
                    out.append([Atom("o"), Atom("r"), opener[0], opener[1], body])
                else:
                    self.sites.append(("data", "data"))
                    out += [A] + body          # the data iterator's __anext__ may suspend; no generator is created
            elif isinstance(st, (ast.AsyncWith,)):
                raise Unclassified(f"async with in generated code: {ast.unparse(st)[:80]}")
            elif isinstance(st, ast.Try):
                if S.try_bracket(st):
                    raise Unclassified(f"bracket without a creation in the statement before: {ast.unparse(st)[:80]}")
                out += self.block(st.body, active)
                for h in st.handlers:
                    out += self.block(h.body, active)
                out += self.block(st.orelse, active) + self.block(st.finalbody, active)
            elif isinstance(st, (ast.If, ast.While)):
                out += self.expr(st.test, active) + self.block(st.body, active) + self.block(st.orelse, active)
            elif isinstance(st, ast.For):
                out += self.expr(st.iter, active) + self.block(st.body, active) + self.block(st.orelse, active)
            elif isinstance(st, ast.With):
                for it in st.items:
                    out += self.expr(it.context_expr, active)
                out += self.block(st.body, active)
            elif isinstance(st, (ast.FunctionDef, ast.ClassDef)):
                pass
            else:
                out += self.expr(st, active)
            i += 1
        return out


def template_trees(source: str):
    """[(function name, GenTree statements, sites)] for the module generated for one template (async mode)"""
    mod = ast.parse(source)
    out = []
    for st in mod.body:
        if isinstance(st, ast.AsyncFunctionDef):
            if not S.is_async_generator_def(st):
                raise Unclassified(f"top-level {st.name} is not an async generator")
            ft = FunctionTree(st)
            ft.verify_complete()
            out.append((st.name, ft.stmts, ft.sites))
        elif isinstance(st, ast.FunctionDef):
            raise Unclassified(f"sync function {st.name} in async template code")
    if not out or out[0][0] != "root":
        raise Unclassified("no root function")
    return out
