"""Controlled thread scheduler for C26 (and reused by C13/C25/C29).

Threads run the real `LRUCache` methods; a `sys.settrace` line tracer makes every
source line of `jinja2/utils.py` a scheduling point, so the explorer decides which
thread executes the next *line*.  The cache's `_wlock` is replaced by a cooperative
lock with the same mutual-exclusion semantics so that a thread waiting for the lock
is visible to the scheduler as "blocked" instead of hanging the exploration.

The linearizability oracle is the Lean reference map (driver request `lru-lin`).
"""
from __future__ import annotations

import sys
import threading

from harness import core
from harness.core import Atom


class Deadlock(Exception):
    pass


class Sched:
    def __init__(self, n, choices):
        self.n = n
        self.go = [threading.Semaphore(0) for _ in range(n)]
        self.ctrl = threading.Semaphore(0)
        self.state = ["ready"] * n          # ready | blocked | done
        self.current = None
        self.choices = list(choices)         # prefix of decisions (thread ids)
        self.trace = []                      # decisions actually taken: (chosen, enabled tuple)
        self.events = []
        self.clock = 0

    # called by worker threads ------------------------------------------------
    def pause(self, i):
        self.ctrl.release()
        self.go[i].acquire()

    def finish(self, i):
        self.state[i] = "done"
        self.ctrl.release()

    # called by the controller ------------------------------------------------
    def run(self, max_steps=2000):
        # wait for all workers to arrive at their first pause
        for _ in range(self.n):
            self.ctrl.acquire()
        steps = 0
        while True:
            enabled = tuple(i for i in range(self.n) if self.state[i] == "ready")
            if not enabled:
                if any(s == "blocked" for s in self.state):
                    raise Deadlock(self.state)
                return
            k = len(self.trace)
            if k < len(self.choices) and self.choices[k] in enabled:
                pick = self.choices[k]
            elif self.current in enabled:
                pick = self.current
            else:
                pick = enabled[0]
            self.trace.append((pick, enabled, self.current))
            self.current = pick
            self.go[pick].release()
            self.ctrl.acquire()
            steps += 1
            if steps > max_steps:
                raise Deadlock("too many steps")


class SchedLock:
    """mutual exclusion with the scheduler in the loop (replaces threading.Lock)"""

    def __init__(self, sched):
        self.sched = sched
        self.owner = None
        self.acquisitions = 0

    def acquire(self, blocking=True, timeout=-1):
        s = self.sched
        i = s.current
        while self.owner is not None:
            s.state[i] = "blocked"
            s.pause(i)
        self.owner = i
        self.acquisitions += 1
        return True

    def release(self):
        self.owner = None
        s = self.sched
        for j in range(s.n):
            if s.state[j] == "blocked":
                s.state[j] = "ready"

    def locked(self):
        return self.owner is not None

    __enter__ = acquire

    def __exit__(self, *a):
        self.release()


def execute(cap, setup, programs, choices, apply):
    """run one schedule on the real LRUCache; returns (events, decision trace, final items)"""
    from jinja2 import utils
    from jinja2.utils import LRUCache

    target_file = utils.__file__
    c = LRUCache(cap)
    for op in setup:
        c, _ = apply(c, op)
    n = len(programs)
    sched = Sched(n, choices)
    lock = SchedLock(sched)
    lock_replaced = hasattr(c, "_wlock")
    if lock_replaced:
        c._wlock = lock
    box = [c]

    def worker(i):
        def local(frame, event, arg):
            if event == "line":
                sched.pause(i)
            return local

        def tracer(frame, event, arg):
            if event == "call" and frame.f_code.co_filename == target_file:
                return local
            return None

        sched.pause(i)  # arrive
        sys.settrace(tracer)
        try:
            for op in programs[i]:
                sched.clock += 1
                t_inv = sched.clock
                try:
                    _, out = apply(box[0], op)
                except BaseException as e:  # noqa
                    out = f"internal:{type(e).__name__}"
                sched.clock += 1
                sched.events.append((i, op, out, t_inv, sched.clock))
        finally:
            sys.settrace(None)
            sched.finish(i)

    ths = [threading.Thread(target=worker, args=(i,), daemon=True) for i in range(n)]
    for t in ths:
        t.start()
    try:
        sched.run()
    finally:
        pass
    for t in ths:
        t.join(timeout=5)
    try:
        final = [list(kv) for kv in box[0].items()]
    except Exception as e:  # noqa
        final = f"internal:{type(e).__name__}"
    return sched.events, sched.trace, final, lock_replaced


def enc_out(o):
    if isinstance(o, str):
        return Atom(o.split(":")[0])
    return [Atom(o[0]), *[x if not isinstance(x, list) else x for x in o[1:]]]


def lin_request(cap, setup, events, final, enc_op):
    calls = [[tid, enc_op(op), enc_out(out), t0, t1] for tid, op, out, t0, t1 in events]
    fin = Atom("internal") if isinstance(final, str) else final
    return [Atom("lru-lin"), cap, [enc_op(o) for o in setup], calls, fin]


PROGRAM_CORPUS = [
    # (cap, setup, thread programs)  — first the shape of finding F9
    (2, [("set", 0, 1), ("set", 1, 2)], [[("set", 2, 3)], [("contains", 0), ("contains", 2)]]),
    (2, [("set", 0, 1), ("set", 1, 2)], [[("getitem", 0)], [("set", 2, 3)]]),
    (2, [("set", 0, 1), ("set", 1, 2)], [[("del", 0)], [("getitem", 0)]]),
    (1, [("set", 0, 1)], [[("clear",)], [("set", 1, 2), ("get", 0, 99)]]),
    (2, [("set", 0, 1)], [[("set", 1, 2)], [("set", 2, 3)], [("getitem", 0)]]),
    (2, [("set", 0, 1), ("set", 1, 2)], [[("getitem", 0), ("del", 1)], [("getitem", 1), ("set", 2, 5)]]),
]
# the full product "one call that looks a key up" x "one call that removes that key", two threads, one call each: small enough
# for the bounded DFS to cover EVERY line-granularity interleaving (a check-then-act window inside one method is found)
for _reader in (("get", 0, 99), ("getitem", 0), ("contains", 0), ("setdefault", 0, 7), ("set", 0, 8)):
    for _cap, _setup, _remover in ((2, [("set", 0, 1), ("set", 1, 2)], ("del", 0)),
                                   (2, [("set", 0, 1), ("set", 1, 2)], ("clear",)),
                                   (1, [("set", 0, 1)], ("set", 1, 5)),
                                   (2, [("set", 0, 1), ("set", 1, 2)], ("set", 2, 5))):
        PROGRAM_CORPUS.append((_cap, _setup, [[_reader], [_remover]]))


def gen_program(rng):
    cap = rng.choice((1, 2, 2, 3))
    setup = [("set", k, 1 + k) for k in range(rng.randint(0, cap))]
    nthreads = rng.choice((2, 2, 3))
    val = [10]

    def op():
        name = rng.choice(("getitem", "get", "set", "set", "del", "contains", "contains", "clear"))
        k = rng.randrange(3)
        if name == "set":
            val[0] += 1
            return ("set", k, val[0])
        if name == "get":
            return ("get", k, 99)
        if name == "clear":
            return ("clear",)
        return (name, k)

    progs = [[op() for _ in range(rng.randint(1, 2 if nthreads == 3 else 3))] for _ in range(nthreads)]
    return cap, setup, progs


def explore_program(cap, setup, progs, bound, budget, apply):
    """stateless DFS over schedules with at most `bound` preemptions"""
    seen_traces = set()
    stack = [()]
    runs = []
    while stack and len(runs) < budget:
        prefix = stack.pop()
        events, trace, final, lock_replaced = execute(cap, setup, progs, prefix, apply)
        picks = tuple(p for p, _, _ in trace)
        if picks in seen_traces:
            continue
        seen_traces.add(picks)
        runs.append((picks, events, final, lock_replaced))
        # children: deviate at a position ≥ len(prefix)
        pre = 0
        for j, (p, enabled, cur) in enumerate(trace):
            if j >= len(prefix):
                for alt in enabled:
                    if alt != p:
                        cost = pre + (1 if (cur in enabled and alt != cur) else 0)
                        if cost <= bound:
                            stack.append(picks[:j] + (alt,))
            if cur in enabled and p != cur:
                pre += 1
    return runs


def explore_schedules(ctx, res):
    from harness.props.c26 import apply, enc_op

    rng = ctx.rng("sched")
    bound = ctx.pick(2, 3)
    per_prog = ctx.pick(150, 1500)
    nrand = ctx.pick(8, 60)
    programs = list(PROGRAM_CORPUS) + [gen_program(rng) for _ in range(nrand)]
    reqs, meta = [], []
    deadlocks = 0
    for cap, setup, progs in programs:
        try:
            runs = explore_program(cap, setup, progs, bound, per_prog, apply)
        except Deadlock as e:
            deadlocks += 1
            res.violate("C26:deadlock", f"threads deadlock on cap={cap} setup={setup} programs={progs}: {e}",
                        {"cap": cap, "setup": setup, "programs": progs})
            continue
        for picks, events, final, lock_replaced in runs:
            reqs.append(lin_request(cap, setup, events, final, enc_op))
            meta.append((cap, setup, progs, picks, events, final))
    replies = core.driver_batch(reqs)
    nonlin = 0
    distinct = set()
    for m, rep in zip(meta, replies):
        cap, setup, progs, picks, events, final = m
        distinct.add((cap, tuple(map(tuple, setup)), tuple(tuple(p) for p in progs), picks))
        if rep[0] != "ok":
            raise core.HarnessError(f"lru-lin rejected: {rep}")
        if rep[1] is not True:
            nonlin += 1
            kinds = sorted({op[0] for _, op, _, _, _ in events})
            raised = [out for _, _, out, _, _ in events if isinstance(out, str) and out.startswith("internal")]
            if raised:
                key = "C26:sched:raises:" + raised[0]
            elif "contains" in kinds and "set" in kinds and all(
                    k in ("contains", "set") for k in kinds):
                key = "C26:sched:contains-vs-evicting-set"
            else:
                key = "C26:sched:" + "+".join(kinds)
            res.violate(key, f"not linearizable: cap={cap} setup={setup} programs={progs} schedule={list(picks)} "
                             f"calls={[(t, op, out) for t, op, out, _, _ in events]} final={final}",
                        {"cap": cap, "setup": setup, "programs": progs, "schedule": list(picks),
                         "events": events, "final": final})
    return {
        "schedules": len(reqs), "distinct": len(distinct), "programs": len(programs),
        "preemption_bound": bound, "non_linearizable": nonlin, "deadlocks": deadlocks,
        "rule": (f"{len(programs)} thread programs (6 corpus + random: 2-3 threads x 1-3 operations from "
                 f"get/getitem/set/del/contains/clear) each explored by stateless DFS over line-granularity "
                 f"schedules with <= {bound} preemptions (<= {per_prog} schedules per program); every execution's "
                 f"call/return history is checked for linearizability against the Lean reference map"),
        "samples": [{"cap": m[0], "setup": m[1], "programs": m[2], "schedule": list(m[3]),
                     "calls": [(t, op, out) for t, op, out, _, _ in m[4]]} for m in meta[:2]],
    }


def replay_schedule(c):
    from harness.props.c26 import apply, enc_op

    progs = [[tuple(o) for o in p] for p in c["programs"]]
    setup = [tuple(o) for o in c["setup"]]
    events, trace, final, _ = execute(c["cap"], setup, progs, tuple(c["schedule"]), apply)
    rep = core.driver_batch([lin_request(c["cap"], setup, events, final, enc_op)])[0]
    return {"events": events, "final": final, "linearizable": rep}
