"""Gen/Sandbox.lean: the sandbox decision logic, translated from sandbox.py.

READ from the source (Python `ast`):
  * module constants  UNSAFE_*_ATTRIBUTES (sets of strings), _mutable_spec (ordered table)
  * functions         is_internal_attribute, modifies_known_mutable
  * methods           SandboxedEnvironment.is_safe_attribute / is_safe_callable / call,
                      ImmutableSandboxedEnvironment.is_safe_attribute
in a small statement/expression subset; anything else raises Untranslatable.

MEASURED from the running interpreter (subprocess-free, pure stdlib facts):
  * for the exact types list, dict, set, deque: which public methods can mutate the receiver
    (ground truth for C19), and which of the classes named in _mutable_spec they are instances of.

An abstract object is `{ classes : List String, flags : List String }`: the classes (as dotted
names written in the source) it is an instance of, and the truthy marker attributes it carries.
"""
from __future__ import annotations

import ast
import collections
import copy as _copy

from .common import HEADER, Untranslatable, find_class, find_func, lbool, llist, lstr, parse


def dotted(n):
    if isinstance(n, ast.Name):
        return n.id
    if isinstance(n, ast.Attribute):
        return dotted(n.value) + "." + n.attr
    raise Untranslatable(f"not a dotted name: {ast.dump(n)}")


class Tr:
    def __init__(self, consts, funcs, klass=None, base=None):
        self.consts = consts
        self.funcs = funcs
        self.klass = klass
        self.base = base

    # expressions → Lean Bool terms over (o : Obj) (attr : String)
    def expr(self, e):
        if isinstance(e, ast.Constant) and isinstance(e.value, bool):
            return lbool(e.value)
        if isinstance(e, ast.BoolOp):
            op = " || " if isinstance(e.op, ast.Or) else " && "
            return "(" + op.join(self.expr(v) for v in e.values) + ")"
        if isinstance(e, ast.UnaryOp) and isinstance(e.op, ast.Not):
            return "(!" + self.expr(e.operand) + ")"
        if isinstance(e, ast.Compare) and len(e.ops) == 1:
            l, op, r = e.left, e.ops[0], e.comparators[0]
            if isinstance(l, ast.Name) and l.id in ("attr", "attribute"):
                if isinstance(op, ast.In) and isinstance(r, ast.Name):
                    if r.id in self.consts:
                        return f"({r.id}.contains attr)"
                    if r.id == "unsafe":
                        return "(unsafeNames.contains attr)"
                if isinstance(op, ast.Eq) and isinstance(r, ast.Constant) and isinstance(r.value, str):
                    return f"(attr == {lstr(r.value)})"
            raise Untranslatable(f"comparison {ast.unparse(e)}")
        if isinstance(e, ast.Call):
            f = e.func
            if isinstance(f, ast.Name) and f.id == "isinstance" and len(e.args) == 2:
                if not (isinstance(e.args[0], ast.Name) and e.args[0].id in ("obj", "o")):
                    raise Untranslatable(f"isinstance on {ast.unparse(e.args[0])}")
                t = e.args[1]
                if isinstance(t, ast.Name) and t.id == "typespec":
                    return "(o.isa typespec)"
                ts = t.elts if isinstance(t, ast.Tuple) else [t]
                return "(" + " || ".join(f"o.isa {lstr(dotted(x))}" for x in ts) + ")"
            if isinstance(f, ast.Name) and f.id == "issubclass" and len(e.args) == 2:
                if not (isinstance(e.args[0], ast.Name) and e.args[0].id in ("obj", "o")):
                    raise Untranslatable(f"issubclass on {ast.unparse(e.args[0])}")
                t = e.args[1]
                if isinstance(t, ast.Name) and t.id == "typespec":
                    return "(o.subOf typespec)"
                ts = t.elts if isinstance(t, ast.Tuple) else [t]
                return "(" + " || ".join(f"o.subOf {lstr(dotted(x))}" for x in ts) + ")"
            if isinstance(f, ast.Name) and f.id == "hasattr" and len(e.args) == 2 \
                    and isinstance(e.args[0], ast.Name) and e.args[0].id == "types" \
                    and isinstance(e.args[1], ast.Constant):
                import types
                return lbool(hasattr(types, e.args[1].value))          # measured
            if isinstance(f, ast.Name) and f.id == "getattr" and len(e.args) == 3 \
                    and isinstance(e.args[1], ast.Constant) and isinstance(e.args[2], ast.Constant) \
                    and e.args[2].value is False:
                return f"(o.flag {lstr(e.args[1].value)})"
            if isinstance(f, ast.Attribute) and f.attr == "startswith" and isinstance(f.value, ast.Name) \
                    and f.value.id in ("attr", "attribute") and len(e.args) == 1 and isinstance(e.args[0], ast.Constant):
                return f"(attr.startsWith {lstr(e.args[0].value)})"
            if isinstance(f, ast.Name) and f.id in self.funcs and len(e.args) == 2:
                return f"({self.funcs[f.id]} o attr)"
            if isinstance(f, ast.Attribute) and isinstance(f.value, ast.Call) and isinstance(f.value.func, ast.Name) \
                    and f.value.func.id == "super" and self.base:
                return f"({self.base}_{f.attr} o attr)"
            if isinstance(f, ast.Attribute) and isinstance(f.value, ast.Name) and f.value.id in ("self", "__self") \
                    and f.attr == "is_safe_callable":
                return f"({self.klass}_is_safe_callable o)"
            raise Untranslatable(f"call {ast.unparse(e)}")
        raise Untranslatable(f"expression {ast.unparse(e)}")

    # statement lists with early return → one Lean Bool term
    def block(self, stmts, rest=None):
        if not stmts:
            if rest is None:
                raise Untranslatable("fell off the end of a function without return")
            return rest()
        s, tail = stmts[0], stmts[1:]
        cont = (lambda: self.block(tail, rest))
        if isinstance(s, ast.Expr) and isinstance(s.value, ast.Constant):
            return cont()                                   # docstring
        if isinstance(s, ast.Return):
            return self.expr(s.value)
        if isinstance(s, ast.If):
            c = self.expr(s.test)
            a = self.block(s.body, cont)
            b = self.block(s.orelse, cont) if s.orelse else cont()
            return f"(if {c} then {a} else {b})"
        if isinstance(s, ast.For):
            # for typespec, unsafe in _mutable_spec: if isinstance(obj, typespec): return attr in unsafe
            if not (isinstance(s.target, ast.Tuple) and [x.id for x in s.target.elts] == ["typespec", "unsafe"]
                    and isinstance(s.iter, ast.Name) and s.iter.id == "_mutable_spec" and len(s.body) == 1
                    and isinstance(s.body[0], ast.If) and not s.body[0].orelse and len(s.body[0].body) == 1
                    and isinstance(s.body[0].body[0], ast.Return)):
                raise Untranslatable("for loop shape")
            c = self.expr(s.body[0].test)
            r = self.expr(s.body[0].body[0].value)
            return (f"(match mutableSpec.find? (fun row => let typespec := row.1; {c}) with\n"
                    f"    | some row => let unsafeNames := row.2; {r}\n    | none => {cont()})")
        raise Untranslatable(f"statement {ast.unparse(s)[:60]}")


def string_set(node):
    """frozenset([...]) / {...} / set() → list of str (sorted for determinism)"""
    if isinstance(node, ast.Call) and isinstance(node.func, ast.Name) and node.func.id in ("frozenset", "set"):
        if not node.args:
            return []
        return string_set(node.args[0])
    if isinstance(node, (ast.Set, ast.List, ast.Tuple)):
        out = []
        for e in node.elts:
            if not (isinstance(e, ast.Constant) and isinstance(e.value, str)):
                raise Untranslatable("non-string in set constant")
            out.append(e.value)
        return out
    raise Untranslatable(f"set constant {ast.dump(node)[:80]}")


def read_module():
    tree = parse("sandbox")
    consts, spec = {}, None
    for st in tree.body:
        tgt, val = None, None
        if isinstance(st, ast.Assign) and len(st.targets) == 1 and isinstance(st.targets[0], ast.Name):
            tgt, val = st.targets[0].id, st.value
        elif isinstance(st, ast.AnnAssign) and isinstance(st.target, ast.Name) and st.value is not None:
            tgt, val = st.target.id, st.value
        if tgt is None:
            continue
        if tgt.startswith("UNSAFE_") and tgt.endswith("_ATTRIBUTES"):
            consts[tgt] = string_set(val)
        if tgt == "_mutable_spec":
            if not isinstance(val, ast.Tuple):
                raise Untranslatable("_mutable_spec is not a tuple literal")
            spec = []
            for row in val.elts:
                if not (isinstance(row, ast.Tuple) and len(row.elts) == 2):
                    raise Untranslatable("_mutable_spec row shape")
                spec.append((dotted(row.elts[0]), string_set(row.elts[1])))
    if spec is None:
        raise Untranslatable("_mutable_spec not found")
    return tree, consts, spec


# -- measured ---------------------------------------------------------------------------------

def sample(t):
    if t is list:
        return [3, 1, 2]
    if t is dict:
        return {"a": 1, "b": 2}
    if t is set:
        return {1, 2, 3}
    return collections.deque([3, 1, 2])


ARGSETS = [(), (1,), (0,), (5,), ([7, 8],), ({"z": 9},), ({1, 9},), ("a",), ("zz", 5), (0, 9), (1, 1), ((("k", 1),),)]


def measure_mutators():
    """for the exact builtin types: (type name, method) pairs for which some call changes the receiver"""
    out = []
    for t in (list, dict, set, collections.deque):
        for name in sorted(n for n in dir(t) if not n.startswith("_")):
            mut = False
            for args in ARGSETS:
                recv = sample(t)
                before = _copy.deepcopy(recv)
                try:
                    getattr(recv, name)(*_copy.deepcopy(args))
                except Exception:
                    pass
                if recv != before or (t is collections.deque and list(recv) != list(before)):
                    mut = True
                    break
            if mut:
                out.append((t.__name__, name))
    return out


def measure_classes(spec):
    from collections import abc, deque  # noqa: F401 (names used by eval below)
    env = {"abc": abc, "deque": deque}
    out = {}
    for t in (list, dict, set, deque):
        out[t.__name__] = [name for name, _ in spec if isinstance(sample(t), eval(name, env))]
    return out


def gen():
    tree, consts, spec = read_module()
    funcs = {"is_internal_attribute": "isInternalAttribute", "modifies_known_mutable": "modifiesKnownMutable"}
    tr = Tr(consts, funcs)
    f_internal = tr.block(find_func(tree, "is_internal_attribute").body)
    f_modifies = tr.block(find_func(tree, "modifies_known_mutable").body)
    sbx = find_class(tree, "SandboxedEnvironment")
    imm = find_class(tree, "ImmutableSandboxedEnvironment")
    if [dotted(b) for b in imm.bases] != ["SandboxedEnvironment"]:
        raise Untranslatable("ImmutableSandboxedEnvironment base changed")
    trs = Tr(consts, funcs, klass="Sandboxed")
    s_attr = trs.block(find_func(sbx, "is_safe_attribute").body)
    s_call = trs.block(find_func(sbx, "is_safe_callable").body)
    tri = Tr(consts, funcs, klass="Immutable", base="Sandboxed")
    i_attr = tri.block(find_func(imm, "is_safe_attribute").body)
    # SandboxedEnvironment.call: `if not self.is_safe_callable(obj): raise SecurityError(...)` then `return context.call(...)`
    callf = find_func(sbx, "call")
    body = [s for s in callf.body if not (isinstance(s, ast.Expr) and isinstance(s.value, ast.Constant))]
    if not (len(body) == 2 and isinstance(body[0], ast.If) and len(body[0].body) == 1
            and isinstance(body[0].body[0], ast.Raise) and "SecurityError" in ast.unparse(body[0].body[0])
            and not body[0].orelse and isinstance(body[1], ast.Return)
            and ast.unparse(body[1].value).startswith("__context.call(__obj")):
        raise Untranslatable("SandboxedEnvironment.call left the shape `if not safe: raise SecurityError; return context.call(obj,…)`")
    guard = Tr(consts, funcs, klass="Sandboxed").expr(
        ast.parse(ast.unparse(body[0].test).replace("__self", "self").replace("__obj", "obj"), mode="eval").body)
    muts = measure_mutators()
    classes = measure_classes(spec)
    L = [HEADER, "namespace JinjaV.Gen.Sandbox\n",
         "/-- abstract object: classes it is an instance of (dotted names as written in sandbox.py), truthy marker attributes, and — for a class object — what it is a subclass of -/",
         "structure Obj where\n  classes : List String\n  flags : List String\n"
         "  /-- when the object is itself a class: the classes (as named in sandbox.py) it is a subclass of -/\n"
         "  subclassOf : List String := []\n  deriving Repr, DecidableEq\n",
         "def Obj.isa (o : Obj) (c : String) : Bool := o.classes.contains c",
         "def Obj.subOf (o : Obj) (c : String) : Bool := o.subclassOf.contains c",
         "def Obj.flag (o : Obj) (f : String) : Bool := o.flags.contains f\n",
         "-- READ: module constants"]
    for k, v in consts.items():
        L.append(f"def {k} : List String := {llist(map(lstr, v))}")
    L.append("\n-- READ: _mutable_spec, order preserved (the first matching row decides)")
    L.append("def mutableSpec : List (String × List String) := [\n" + ",\n".join(
        f"  ({lstr(n)}, {llist(map(lstr, m))})" for n, m in spec) + "\n]\n")
    L.append("-- READ: is_internal_attribute")
    L.append(f"def isInternalAttribute (o : Obj) (attr : String) : Bool :=\n  {f_internal}\n")
    L.append("-- READ: modifies_known_mutable")
    L.append(f"def modifiesKnownMutable (o : Obj) (attr : String) : Bool :=\n  {f_modifies}\n")
    L.append("-- READ: SandboxedEnvironment.is_safe_attribute / is_safe_callable")
    L.append(f"def Sandboxed_is_safe_attribute (o : Obj) (attr : String) : Bool :=\n  {s_attr}\n")
    L.append(f"def Sandboxed_is_safe_callable (o : Obj) : Bool :=\n  {s_call}\n")
    L.append("-- READ: ImmutableSandboxedEnvironment.is_safe_attribute")
    L.append(f"def Immutable_is_safe_attribute (o : Obj) (attr : String) : Bool :=\n  {i_attr}\n")
    L.append("-- READ: SandboxedEnvironment.call = `if <guard>: raise SecurityError` ; `return context.call(obj, …)`")
    L.append("inductive CallOutcome where\n  | securityError\n  | invoke\n  deriving Repr, DecidableEq\n")
    L.append(f"def Sandboxed_call (o : Obj) : CallOutcome :=\n  if {guard} then .securityError else .invoke\n")
    L.append("-- MEASURED on this interpreter: (exact builtin type, public method) pairs that can change the receiver")
    L.append("def builtinMutators : List (String × String) := [\n" + ",\n".join(
        f"  ({lstr(t)}, {lstr(m)})" for t, m in muts) + "\n]\n")
    L.append("-- MEASURED: which classes named in _mutable_spec each exact builtin type is an instance of")
    L.append("def builtinClasses : List (String × List String) := [\n" + ",\n".join(
        f"  ({lstr(t)}, {llist(map(lstr, c))})" for t, c in classes.items()) + "\n]\n")
    L.append("def objOf (t : String) : Obj :=\n  { classes := (builtinClasses.lookup t).getD [], flags := [] }\n")
    L.append("/-- the class object itself (`dict`, `list`, …): an instance of `type`, a subclass of what its instances are instances of -/")
    L.append("def classObjOf (t : String) : Obj :=\n  { classes := [\"type\"], flags := [], subclassOf := (builtinClasses.lookup t).getD [] }\n")
    L.append("/-- counterexample finder for `mutators_blocked_on_class` -/")
    L.append("def unblockedClassMutators : List (String × String) :=\n"
             "  builtinMutators.filter (fun p => Immutable_is_safe_attribute (classObjOf p.1) p.2)\n")
    L.append("/-- counterexample finder for `mutators_blocked` -/")
    L.append("def unblockedMutators : List (String × String) :=\n"
             "  builtinMutators.filter (fun p => Immutable_is_safe_attribute (objOf p.1) p.2)\n")
    L.append("end JinjaV.Gen.Sandbox\n")
    return "Sandbox.lean", "\n".join(L)
