"""Gen/FilterMutators.lean: which collection filters modify, or hand back, one of their arguments.

READ with Python `ast` from filters.py and async_utils.py on every run:

  * `roster`    the functions behind every collection filter name of the `FILTERS = {...}` table (the async function and, through its
                `@async_variant(sync)` decorator, the sync one; builtins such as `len` are named `builtin:len`);
  * `analysed`  the roster plus every module-level function of filters.py / async_utils.py they call, transitively
                (`make_attrgetter`, `prepare_map`, `select_or_reject`, `auto_to_list`, `auto_aiter`, ...);
  * `mutations` every IN-PLACE operation in those functions whose receiver may be an argument of the filter or an object
                reachable from one: a call of a mutating method (`.sort(` `.reverse(` `.append(` `.extend(` `.insert(` `.pop(`
                `.remove(` `.clear(` `.update(` `.setdefault(` `.popitem(` `.add(` `.discard(` ...), `x[i] = v`, `x.a = v`,
                `del x[i]`, `x += v`;
  * `results`   for every analysed function what each `return` hands back: `generator` (the function is a generator: a new
                iterator), `fresh` (an object that is not an argument nor reachable from one), `none`, or `alias <expr>`.

"May be an argument" is a forward, flow-sensitive may-alias analysis over three classes per local name
(CLEAN < DERIVED < ALIAS): parameters of a filter are ALIAS (`*args`/`**kwargs` containers and the results of `list(..)`,
`sorted(..)`, slices, literals, comprehensions, `a + b` are DERIVED = a new container whose items may belong to an argument;
an item / attribute / unknown call result taken from something DERIVED or ALIAS is ALIAS; the injected
environment/context/eval_ctx parameter is CLEAN).  It is inter-procedural for the analysed functions: a helper's parameter gets the
join of the classes passed at its call sites, a call of an analysed function whose every `return` is fresh yields DERIVED, otherwise
ALIAS (so `items = await auto_to_list(value); items.sort()` is a mutation of `value` exactly when `auto_to_list` may return its
argument).  Statements outside the supported subset raise Untranslatable (a broken tie).

Props/C22Frame.lean proves over this file: `mutations = []`, every "returns a new object" filter has only generator/fresh results,
`auto_to_list` is fresh, and the roster covers all collection filter names.
"""
from __future__ import annotations

import ast

from .common import HEADER, Untranslatable, lstr, parse

CLEAN, DERIVED, ALIAS = 0, 1, 2

#: collection filter names of property C22 (`count` is the alias of `length`)
COLLECTION = ["batch", "slice", "unique", "groupby", "sort", "dictsort", "reverse", "first", "last", "min", "max", "sum",
              "join", "list", "length", "count", "map", "select", "reject", "selectattr", "rejectattr", "items"]

#: builtins / imported callables that build a NEW container or iterator from their arguments
FRESH_CTORS = {"list", "sorted", "tuple", "dict", "set", "frozenset", "reversed", "iter", "map", "filter", "enumerate", "zip",
               "chain", "groupby", "range", "islice"}
#: callables whose result is an immutable scalar (never a way to reach a mutable argument)
SCALAR = {"len", "isinstance", "hasattr", "str", "int", "bool", "repr", "float", "callable", "soft_str", "escape", "abs", "id",
          "type"}
MUTATORS = {"sort", "reverse", "append", "extend", "insert", "pop", "remove", "clear", "update", "setdefault", "popitem", "add",
            "discard", "difference_update", "intersection_update", "symmetric_difference_update", "appendleft", "extendleft",
            "popleft", "rotate", "move_to_end", "__setitem__", "__delitem__", "__iadd__", "__imul__", "__setattr__",
            "__delattr__"}
PASS_DECOS = {"pass_environment", "pass_context", "pass_eval_context"}


def _deco_names(fn):
    out = []
    for d in fn.decorator_list:
        if isinstance(d, ast.Name):
            out.append((d.id, None))
        elif isinstance(d, ast.Attribute):
            out.append((d.attr, None))
        elif isinstance(d, ast.Call) and isinstance(d.func, ast.Name):
            arg = d.args[0].id if d.args and isinstance(d.args[0], ast.Name) else None
            out.append((d.func.id, arg))
        else:
            raise Untranslatable(f"{fn.name}: decorator {ast.unparse(d)} not understood")
    return out


def module_functions(mod):
    """name -> the real (last, non-overload) module-level def"""
    fns = {}
    for n in parse(mod).body:
        if isinstance(n, (ast.FunctionDef, ast.AsyncFunctionDef)):
            if any(name == "overload" for name, _ in _deco_names(n)):
                continue
            fns[n.name] = n
    return fns


def filters_table():
    for n in parse("filters").body:
        if isinstance(n, ast.Assign) and any(isinstance(t, ast.Name) and t.id == "FILTERS" for t in n.targets):
            if not isinstance(n.value, ast.Dict):
                raise Untranslatable("FILTERS is no longer a dict display")
            tab = {}
            for k, v in zip(n.value.keys, n.value.values):
                if not (isinstance(k, ast.Constant) and isinstance(k.value, str) and isinstance(v, ast.Name)):
                    raise Untranslatable(f"FILTERS entry {ast.unparse(k) if k else '**'} is not 'name': function")
                tab[k.value] = v.id
            return tab
    raise Untranslatable("FILTERS table not found")


def is_generator(fn):
    def walk(n):
        for ch in ast.iter_child_nodes(n):
            if isinstance(ch, (ast.FunctionDef, ast.AsyncFunctionDef, ast.Lambda)):
                continue
            if isinstance(ch, (ast.Yield, ast.YieldFrom)):
                return True
            if walk(ch):
                return True
        return False
    return walk(fn)


class Analysis:
    """one pass over one function with given parameter classes and callee summaries"""

    def __init__(self, fn, params, summaries, known):
        self.fn, self.summaries, self.known = fn, summaries, known
        self.mutations = []     # (receiver source, operation)
        self.returns = []       # kinds
        self.calls = []         # (callee, [positional classes], {kw: class}, has_star)
        self.depth = 0          # > 0 inside a nested def / lambda: its returns are not the function's
        env = dict(params)
        self.block(fn.body, env)
        if is_generator(fn):
            self.returns = ["generator"]
        elif not self.returns:
            self.returns = ["none"]

    # -- expressions --------------------------------------------------------------------------------------------------
    def sub(self, exprs, env):
        return max([self.ex(e, env) for e in exprs if e is not None] or [CLEAN])

    def note(self, recv, op, env):
        if self.ex(recv, env) == ALIAS:
            m = (" ".join(ast.unparse(recv).split()), op)
            if m not in self.mutations:
                self.mutations.append(m)

    def comp(self, gens, env):
        env = dict(env)
        for g in gens:
            c = self.ex(g.iter, env)
            self.bind(g.target, ALIAS if c >= DERIVED else CLEAN, env)
            for cond in g.ifs:
                self.ex(cond, env)
        return env

    def ex(self, e, env) -> int:
        if e is None or isinstance(e, ast.Constant):
            return CLEAN
        if isinstance(e, ast.Name):
            return env.get(e.id, CLEAN)
        if isinstance(e, ast.Await):
            return self.ex(e.value, env)
        if isinstance(e, ast.Starred):
            return self.ex(e.value, env)
        if isinstance(e, ast.NamedExpr):
            c = self.ex(e.value, env)
            self.bind(e.target, c, env, exact=True)
            return c
        if isinstance(e, (ast.Yield, ast.YieldFrom)):
            self.ex(e.value, env)
            return CLEAN
        if isinstance(e, ast.Lambda):
            inner = dict(env)
            for a in e.args.posonlyargs + e.args.args + e.args.kwonlyargs:
                inner[a.arg] = ALIAS
            self.depth += 1
            self.ex(e.body, inner)
            self.depth -= 1
            return CLEAN
        if isinstance(e, (ast.BoolOp,)):
            return self.sub(e.values, env)
        if isinstance(e, ast.IfExp):
            self.ex(e.test, env)
            return max(self.ex(e.body, env), self.ex(e.orelse, env))
        if isinstance(e, (ast.List, ast.Tuple, ast.Set)):
            return min(self.sub(e.elts, env), DERIVED)
        if isinstance(e, ast.Dict):
            return min(self.sub(list(e.keys) + list(e.values), env), DERIVED)
        if isinstance(e, (ast.ListComp, ast.SetComp, ast.GeneratorExp)):
            inner = self.comp(e.generators, env)
            c = self.ex(e.elt, inner)
            src = max([self.ex(g.iter, env) for g in e.generators[:1]] + [c])
            return min(src, DERIVED)
        if isinstance(e, ast.DictComp):
            inner = self.comp(e.generators, env)
            c = max(self.ex(e.key, inner), self.ex(e.value, inner), self.ex(e.generators[0].iter, env))
            return min(c, DERIVED)
        if isinstance(e, ast.BinOp):
            return min(max(self.ex(e.left, env), self.ex(e.right, env)), DERIVED)
        if isinstance(e, ast.UnaryOp):
            self.ex(e.operand, env)
            return CLEAN
        if isinstance(e, ast.Compare):
            self.sub([e.left] + list(e.comparators), env)
            return CLEAN
        if isinstance(e, (ast.JoinedStr, ast.FormattedValue)):
            for ch in ast.iter_child_nodes(e):
                if isinstance(ch, ast.expr):
                    self.ex(ch, env)
            return CLEAN
        if isinstance(e, ast.Attribute):
            return ALIAS if self.ex(e.value, env) >= DERIVED else CLEAN
        if isinstance(e, ast.Subscript):
            c = self.ex(e.value, env)
            if isinstance(e.slice, ast.Slice):
                self.sub([e.slice.lower, e.slice.upper, e.slice.step], env)
                return min(c, DERIVED)
            self.ex(e.slice, env)
            return ALIAS if c >= DERIVED else CLEAN
        if isinstance(e, ast.Slice):
            self.sub([e.lower, e.upper, e.step], env)
            return CLEAN
        if isinstance(e, ast.Call):
            return self.call(e, env)
        raise Untranslatable(f"{self.fn.name}: expression {type(e).__name__} at line {e.lineno} not supported")

    def call(self, e, env):
        args = [self.ex(a, env) for a in e.args]
        kws = {k.arg: self.ex(k.value, env) for k in e.keywords}
        star = any(isinstance(a, ast.Starred) for a in e.args) or any(k.arg is None for k in e.keywords)
        inner = max(args + list(kws.values()) + [CLEAN])
        f = e.func
        if isinstance(f, ast.Attribute):
            if f.attr in MUTATORS:
                self.note(f.value, f.attr, env)
            recv = self.ex(f.value, env)
            return ALIAS if max(inner, recv) >= DERIVED else CLEAN
        if isinstance(f, ast.Name) and f.id not in env:
            if f.id in SCALAR:
                return CLEAN
            if f.id in FRESH_CTORS:
                return min(inner, DERIVED)
            if f.id in self.known:
                self.calls.append((f.id, args, kws, star))
                if self.summaries.get(f.id, True):
                    return min(inner, DERIVED)
                return ALIAS if inner >= DERIVED else CLEAN
            return ALIAS if inner >= DERIVED else CLEAN
        # a local callable (closure, parameter) or a computed callee
        fc = self.ex(f, env)
        return ALIAS if max(inner, fc) >= DERIVED else CLEAN

    # -- statements ---------------------------------------------------------------------------------------------------
    def bind(self, target, c, env, exact=False):
        """assignment of a value of class c to a target; `exact`: the target IS the value (not an item of it)"""
        if isinstance(target, ast.Name):
            env[target.id] = c
        elif isinstance(target, (ast.Tuple, ast.List)):
            for t in target.elts:
                self.bind(t.value if isinstance(t, ast.Starred) else t, ALIAS if c >= DERIVED else CLEAN, env)
        elif isinstance(target, ast.Subscript):
            self.note(target.value, "setitem", env)
            self.ex(target.slice, env)
        elif isinstance(target, ast.Attribute):
            self.note(target.value, "setattr", env)
        else:
            raise Untranslatable(f"{self.fn.name}: assignment target {type(target).__name__} not supported")

    @staticmethod
    def join(a, b):
        return {k: max(a.get(k, CLEAN), b.get(k, CLEAN)) for k in set(a) | set(b)}

    def loop(self, body, orelse, env, pre):
        for _ in range(4):      # 3-level lattice: stabilises at once; bounded anyway
            before = dict(env)
            inner = dict(env)
            pre(inner)
            self.block(body, inner)
            merged = self.join(env, inner)
            env.clear()
            env.update(merged)
            if env == before:
                break
        self.block(orelse, env)

    def nested(self, fn, env):
        inner = dict(env)
        a = fn.args
        for p in a.posonlyargs + a.args + a.kwonlyargs:
            inner[p.arg] = ALIAS
        if a.vararg:
            inner[a.vararg.arg] = DERIVED
        if a.kwarg:
            inner[a.kwarg.arg] = DERIVED
        self.depth += 1
        self.block(fn.body, inner)
        self.depth -= 1

    def block(self, stmts, env):
        defs = []
        for s in stmts:
            self.stmt(s, env, defs)
        for d in defs:      # closures see the names as they are at the end of the block, too
            self.nested(d, env)

    def stmt(self, s, env, defs):
        if isinstance(s, ast.Expr):
            self.ex(s.value, env)
        elif isinstance(s, ast.Assign):
            c = self.ex(s.value, env)
            for t in s.targets:
                self.bind(t, c, env, exact=True)
        elif isinstance(s, ast.AnnAssign):
            if s.value is not None:
                self.bind(s.target, self.ex(s.value, env), env, exact=True)
        elif isinstance(s, ast.AugAssign):
            c = self.ex(s.value, env)
            if isinstance(s.target, ast.Name):
                self.note(s.target, "iop " + type(s.op).__name__, env)
                env[s.target.id] = max(env.get(s.target.id, CLEAN), min(c, DERIVED))
            else:
                self.bind(s.target, c, env)
        elif isinstance(s, ast.Delete):
            for t in s.targets:
                if isinstance(t, ast.Subscript):
                    self.note(t.value, "delitem", env)
                elif isinstance(t, ast.Attribute):
                    self.note(t.value, "delattr", env)
                elif isinstance(t, ast.Name):
                    env.pop(t.id, None)
        elif isinstance(s, ast.Return):
            c = self.ex(s.value, env)
            if self.depth == 0:
                if s.value is None or (isinstance(s.value, ast.Constant) and s.value.value is None):
                    kind = "none"
                elif c == ALIAS:
                    kind = "alias " + " ".join(ast.unparse(s.value).split())
                else:
                    kind = "fresh"
                if kind not in self.returns:
                    self.returns.append(kind)
        elif isinstance(s, (ast.For, ast.AsyncFor)):
            ic = self.ex(s.iter, env)
            self.loop(s.body, s.orelse, env, lambda inner: self.bind(s.target, ALIAS if ic >= DERIVED else CLEAN, inner))
        elif isinstance(s, ast.While):
            self.loop(s.body, s.orelse, env, lambda inner: self.ex(s.test, inner))
        elif isinstance(s, ast.If):
            self.ex(s.test, env)
            a, b = dict(env), dict(env)
            self.block(s.body, a)
            self.block(s.orelse, b)
            merged = self.join(a, b)
            env.clear()
            env.update(merged)
        elif isinstance(s, ast.Try):
            entry = dict(env)
            self.block(s.body, env)
            after_body = dict(env)
            outs = []
            for h in s.handlers:
                henv = self.join(entry, after_body)
                if h.type is not None:
                    self.ex(h.type, henv)
                if h.name:
                    henv[h.name] = CLEAN
                self.block(h.body, henv)
                outs.append(henv)
            self.block(s.orelse, env)
            merged = env
            for o in outs:
                merged = self.join(merged, o)
            merged = dict(merged)
            self.block(s.finalbody, merged)
            env.clear()
            env.update(merged)
        elif isinstance(s, (ast.With, ast.AsyncWith)):
            for it in s.items:
                c = self.ex(it.context_expr, env)
                if it.optional_vars is not None:
                    self.bind(it.optional_vars, ALIAS if c >= DERIVED else CLEAN, env, exact=True)
            self.block(s.body, env)
        elif isinstance(s, (ast.FunctionDef, ast.AsyncFunctionDef)):
            env[s.name] = CLEAN
            self.nested(s, env)
            defs.append(s)
        elif isinstance(s, ast.Raise):
            self.ex(s.exc, env)
            self.ex(s.cause, env)
        elif isinstance(s, ast.Assert):
            self.ex(s.test, env)
        elif isinstance(s, (ast.Pass, ast.Break, ast.Continue, ast.Import, ast.ImportFrom, ast.Global, ast.Nonlocal)):
            pass
        else:
            raise Untranslatable(f"{self.fn.name}: statement {type(s).__name__} at line {s.lineno} not supported")


def entry_params(fn, has_pass):
    a = fn.args
    names = [p.arg for p in a.posonlyargs + a.args]
    cls = {}
    for i, n in enumerate(names):
        cls[n] = CLEAN if (has_pass and i == 0) else ALIAS
    for p in a.kwonlyargs:
        cls[p.arg] = ALIAS
    if a.vararg:
        cls[a.vararg.arg] = DERIVED
    if a.kwarg:
        cls[a.kwarg.arg] = DERIVED
    return cls


def helper_params(fn, sites):
    a = fn.args
    names = [p.arg for p in a.posonlyargs + a.args]
    cls = {n: CLEAN for n in names + [p.arg for p in a.kwonlyargs]}
    if a.vararg:
        cls[a.vararg.arg] = CLEAN
    if a.kwarg:
        cls[a.kwarg.arg] = CLEAN
    for args, kws, star in sites:
        if star:
            worst = max(args + list(kws.values()) + [CLEAN])
            for n in cls:
                cls[n] = max(cls[n], worst)
            continue
        for i, c in enumerate(args):
            if i < len(names):
                cls[names[i]] = max(cls[names[i]], c)
            elif a.vararg:
                cls[a.vararg.arg] = max(cls[a.vararg.arg], min(c, DERIVED))
        for k, c in kws.items():
            if k in cls:
                cls[k] = max(cls[k], c)
            elif a.kwarg:
                cls[a.kwarg.arg] = max(cls[a.kwarg.arg], min(c, DERIVED))
    return cls


def analyse():
    """-> dict(roster, analysed, mutations, results)"""
    table = filters_table()
    fns = dict(module_functions("async_utils"))
    fns.update(module_functions("filters"))
    roster, entries = [], {}      # entries: function -> has a pass_* first parameter
    for name in COLLECTION:
        if name not in table:
            raise Untranslatable(f"collection filter {name!r} is not in FILTERS")
        target = table[name]
        if target not in fns:
            roster.append((name, ["builtin:" + target]))
            continue
        fn = fns[target]
        decos = _deco_names(fn)
        impl = [target]
        has_pass = any(d in PASS_DECOS for d, _ in decos)
        for d, arg in decos:
            if d == "async_variant":
                if arg not in fns:
                    raise Untranslatable(f"{target}: async_variant({arg}) names no function of filters.py")
                sync_pass = any(x in PASS_DECOS for x, _ in _deco_names(fns[arg]))
                entries[arg] = sync_pass
                has_pass = sync_pass
                impl.append(arg)
            elif d not in PASS_DECOS:
                raise Untranslatable(f"{target}: decorator {d} not understood")
        entries[target] = has_pass
        roster.append((name, impl))

    analysed = set(entries)
    summaries: dict[str, bool] = {}        # function -> every return is fresh (optimistic start)
    sites: dict[str, list] = {}
    results, mutations = {}, {}
    for _round in range(12):
        new_sites: dict[str, list] = {}
        changed = False
        for name in sorted(analysed):
            fn = fns[name]
            params = entry_params(fn, entries[name]) if name in entries else helper_params(fn, sites.get(name, []))
            a = Analysis(fn, params, summaries, set(fns))
            results[name], mutations[name] = a.returns, a.mutations
            fresh = all(k in ("generator", "fresh", "none") for k in a.returns)
            if summaries.get(name, True) != fresh:
                summaries[name] = fresh
                changed = True
            for callee, args, kws, star in a.calls:
                new_sites.setdefault(callee, []).append((args, kws, star))
        for callee in new_sites:
            if callee not in analysed:
                analysed.add(callee)
                changed = True
        if new_sites != sites:
            sites = new_sites
            changed = True
        if not changed:
            break
    else:
        raise Untranslatable("alias analysis did not stabilise")
    return {
        "roster": roster,
        "analysed": sorted(analysed),
        "mutations": [(f, r, op) for f in sorted(analysed) for r, op in mutations[f]],
        "results": [(f, results[f]) for f in sorted(analysed)],
    }


def gen():
    d = analyse()
    L = [HEADER, "namespace JinjaV.Gen.FilterMutators\n",
         "-- READ: collection filter name -> the functions of filters.py behind it (async variant first, then its sync function)",
         "def roster : List (String × List String) := ["]
    L.append(",\n".join(f"  ({lstr(n)}, [{', '.join(lstr(f) for f in fs)}])" for n, fs in d["roster"]))
    L.append("]\n")
    L.append("-- READ: the roster functions and every function of filters.py / async_utils.py they call, transitively")
    L.append("def analysed : List String := [" + ", ".join(lstr(f) for f in d["analysed"]) + "]\n")
    L.append("-- READ: (function, receiver, operation) for every in-place operation on something that may be (part of) an argument")
    L.append("def mutations : List (String × String × String) := [")
    L.append(",\n".join(f"  ({lstr(f)}, {lstr(r)}, {lstr(op)})" for f, r, op in d["mutations"]))
    L.append("]\n")
    L.append("-- READ: function -> what its return statements hand back (generator | fresh | none | alias <expr>)")
    L.append("def results : List (String × List String) := [")
    L.append(",\n".join(f"  ({lstr(f)}, [{', '.join(lstr(k) for k in ks)}])" for f, ks in d["results"]))
    L.append("]\n")
    L.append("end JinjaV.Gen.FilterMutators\n")
    return "FilterMutators.lean", "\n".join(L)
