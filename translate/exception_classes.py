"""Gen/ExceptionClasses.lean: the exception class hierarchy and the handlers that guard an operation on a template value.

READ (Python `ast`) on every run:

* exceptions.py — every class statement with its base classes as written (a builtin alias is replaced by the builtin's
  own name: `IOError` is `OSError`);
* the base classes of every builtin exception class that is reachable from those bases or from a handler tuple below
  (read from the running interpreter's `builtins`, so the table is the hierarchy the code really runs on);
* the `except` tuples of the functions through which the engine performs an operation of the undefined-type table on a
  template value: Environment.getitem / getattr, SandboxedEnvironment.getitem / getattr (subscript and attribute of a
  template expression), filters.do_attr, do_int, do_float and tests.test_iterable.  The *shape* of each function (its
  body with the handler tuples blanked) must be the one transcribed in lean/JinjaV/Model/UndefinedEngine.lean; any other
  shape is Untranslatable (broken tie), so the Lean transcription can take the tuples as its only parameters.
"""
from __future__ import annotations

import ast
import builtins
import copy

from .common import HEADER, SRC, Untranslatable, find_class, find_func, llist, lstr, parse


def norm(src: str) -> str:
    return " ".join(src.split())


def canon(name: str, local: set[str]) -> str:
    """name of a class as used in the tables: a class of exceptions.py, or the builtin's own name"""
    if name in local:
        return name
    obj = getattr(builtins, name, None)
    if isinstance(obj, type) and (issubclass(obj, BaseException) or obj is object):
        return obj.__name__
    raise Untranslatable(f"exception class {name!r} is neither defined in exceptions.py nor a builtin exception")


def name_of(e: ast.expr) -> str:
    if isinstance(e, ast.Name):
        return e.id
    raise Untranslatable(f"class expression {ast.unparse(e)!r} is not a plain name")


# ---- shapes of the guarded functions (handler tuples replaced by _H0, _H1, … in source order) ---------------------
SHAPES = {
    ("environment", "Environment", "getitem"): """
try:
    return obj[argument]
except _H0:
    if isinstance(argument, str):
        attr = str(argument)
        try:
            return getattr(obj, attr)
        except _H1:
            pass
    return self.undefined(obj=obj, name=argument)
""",
    ("environment", "Environment", "getattr"): """
try:
    return getattr(obj, attribute)
except _H0:
    pass
try:
    return obj[attribute]
except _H1:
    return self.undefined(obj=obj, name=attribute)
""",
    ("sandbox", "SandboxedEnvironment", "getitem"): """
try:
    return obj[argument]
except _H0:
    if isinstance(argument, str):
        attr = str(argument)
        try:
            value = getattr(obj, attr)
        except _H1:
            pass
        else:
            fmt = self.wrap_str_format(value)
            if fmt is not None:
                return fmt
            if self.is_safe_attribute(obj, argument, value):
                return value
            return self.unsafe_undefined(obj, argument)
return self.undefined(obj=obj, name=argument)
""",
    ("sandbox", "SandboxedEnvironment", "getattr"): """
try:
    value = getattr(obj, attribute)
except _H0:
    try:
        return obj[attribute]
    except _H1:
        pass
else:
    fmt = self.wrap_str_format(value)
    if fmt is not None:
        return fmt
    if self.is_safe_attribute(obj, attribute, value):
        return value
    return self.unsafe_undefined(obj, attribute)
return self.undefined(obj=obj, name=attribute)
""",
    ("filters", None, "do_attr"): """
try:
    getattr_static(obj, name)
except _H0:
    if not hasattr(obj, name):
        return environment.undefined(obj=obj, name=name)
return environment.getattr(obj, name)
""",
    ("filters", None, "do_int"): """
try:
    if isinstance(value, str):
        return int(value, base)
    return int(value)
except _H0:
    try:
        return int(float(value))
    except _H1:
        return default
""",
    ("filters", None, "do_float"): """
try:
    return float(value)
except _H0:
    return default
""",
    ("tests", None, "test_iterable"): """
try:
    iter(value)
except _H0:
    return False
return True
""",
}
# functions of which only the (single) try statement is transcribed
TRY_ONLY = {
    ("runtime", "Context", "call"): """
try:
    return __obj(*args, **kwargs)
except _H0:
    return __self.environment.undefined('value was undefined because a callable raised a StopIteration exception')
""",
}


def handlers_in_order(fn) -> list[ast.ExceptHandler]:
    hs = [n for n in ast.walk(fn) if isinstance(n, ast.ExceptHandler)]
    hs.sort(key=lambda h: (h.lineno, h.col_offset))
    return hs


def read_site(mod: str, cls: str | None, func: str, local: set[str]):
    tree = parse(mod)
    if cls is None:
        fn = find_func(tree, func)
    else:
        c = find_class(tree, cls)
        fns = [n for n in c.body if isinstance(n, ast.FunctionDef) and n.name == func]
        if len(fns) != 1:
            raise Untranslatable(f"{mod}.{cls}.{func}: not found exactly once")
        fn = fns[0]
    caught = []
    for h in handlers_in_order(fn):
        if h.type is None:
            raise Untranslatable(f"{mod}.{func}: bare except")
        elts = h.type.elts if isinstance(h.type, ast.Tuple) else [h.type]
        caught.append([canon(name_of(e), local) for e in elts])
    blank = copy.deepcopy(fn)
    for i, h in enumerate(handlers_in_order(blank)):
        h.type = ast.Name(id=f"_H{i}", ctx=ast.Load())
        h.name = None
    body = [s for s in blank.body if not (isinstance(s, ast.Expr) and isinstance(s.value, ast.Constant))]
    if (mod, cls, func) in TRY_ONLY:
        body = [s for s in ast.walk(blank) if isinstance(s, ast.Try)]
        want = TRY_ONLY[(mod, cls, func)]
    else:
        want = SHAPES[(mod, cls, func)]
    shape = "\n".join(ast.unparse(s) for s in body).strip()
    if shape != want.strip():
        raise Untranslatable(f"{mod}.{(cls + '.') if cls else ''}{func}: body left the transcribed shape: {norm(shape)[:300]}")
    return caught


def gen():
    tree = parse("exceptions")
    rows = []
    for st in tree.body:
        if isinstance(st, ast.ClassDef):
            if st.keywords:
                raise Untranslatable(f"class {st.name}: keywords in the class statement")
            rows.append((st.name, [name_of(b) for b in st.bases]))
    local = {n for n, _ in rows}
    if len(local) != len(rows):
        raise Untranslatable("exceptions.py defines a class twice")
    classes = [(n, [canon(b, local) for b in bs]) for n, bs in rows]
    sites = []
    for (mod, cls, func) in list(SHAPES) + list(TRY_ONLY):
        sites.append((f"{cls + '.' if cls else ''}{func}", read_site(mod, cls, func, local)))
    # every builtin exception class named by an `except` clause anywhere in src/jinja2
    caught_builtins = set()
    for path in sorted(SRC.glob("*.py")):
        for n in ast.walk(ast.parse(path.read_text(), filename=str(path))):
            if isinstance(n, ast.ExceptHandler) and n.type is not None:
                for e in (n.type.elts if isinstance(n.type, ast.Tuple) else [n.type]):
                    if isinstance(e, ast.Name) and e.id not in local:
                        obj = getattr(builtins, e.id, None)
                        if isinstance(obj, type) and issubclass(obj, BaseException):
                            caught_builtins.add(obj.__name__)
    caught_builtins = sorted(caught_builtins)
    # the exception class an undefined value raises: default of `exc` in Undefined.__init__
    init = [n for n in find_class(parse("runtime"), "Undefined").body if isinstance(n, ast.FunctionDef) and n.name == "__init__"]
    if len(init) != 1:
        raise Untranslatable("Undefined.__init__ not found")
    a = init[0].args
    names = [x.arg for x in a.args]
    if "exc" not in names or len(a.defaults) != len(names) - 1:
        raise Untranslatable("Undefined.__init__: parameter exc / defaults")
    undefined_exc = canon(name_of(a.defaults[names.index("exc") - 1]), local)
    # builtin classes reachable from the bases / handler tuples, with their own bases (from the interpreter)
    todo = [b for _, bs in classes for b in bs if b not in local] + [c for _, hs in sites for h in hs for c in h if c not in local] \
        + caught_builtins
    seen, built = set(), []
    while todo:
        n = todo.pop(0)
        if n in seen:
            continue
        seen.add(n)
        obj = getattr(builtins, n)
        bs = [b.__name__ for b in obj.__bases__]
        built.append((n, bs))
        todo += bs
    built.sort()
    L = [HEADER, "namespace JinjaV.Gen.ExceptionClasses\n",
         "/-- class statements of exceptions.py in source order: (name, base classes as written; builtin aliases by their own name) -/",
         "def classes : List (String × List String) := [",
         ",\n".join(f"  ({lstr(n)}, {llist(map(lstr, bs))})" for n, bs in classes), "]\n",
         "/-- builtin classes reachable from those bases and from the handler tuples below, with their bases (`builtins` of the running interpreter) -/",
         "def builtinClasses : List (String × List String) := [",
         ",\n".join(f"  ({lstr(n)}, {llist(map(lstr, bs))})" for n, bs in built), "]\n",
         "/-- the `except` tuples (source order) of the functions through which the engine operates on a template value -/",
         "def sites : List (String × List (List String)) := [",
         ",\n".join(f"  ({lstr(n)}, {llist(llist(map(lstr, h)) for h in hs)})" for n, hs in sites), "]\n",
         "/-- every builtin exception class named in an `except` clause anywhere in src/jinja2/*.py -/",
         f"def caughtBuiltins : List String := {llist(map(lstr, caught_builtins))}\n",
         "/-- the class an undefined value raises (default of `exc` in runtime.Undefined.__init__) -/",
         f"def undefinedException : String := {lstr(undefined_exc)}\n",
         "end JinjaV.Gen.ExceptionClasses\n"]
    return "ExceptionClasses.lean", "\n".join(L)
