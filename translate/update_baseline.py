"""Record the Gen/*.lean files for the *unchanged* tree (run by hand after a deliberate
change of /repo such as a fix: commit, never by a check)."""
import importlib, sys
from pathlib import Path
sys.path.insert(0, str(Path(__file__).resolve().parent.parent))
MODS = ["lru_steps"]
if __name__ == "__main__":
    import translate.registry as reg
    for g in reg.ALL:
        name, content = g()
        p = Path(__file__).resolve().parent / "baseline" / name
        p.write_text(content)
        (Path(__file__).resolve().parent.parent / "lean" / "JinjaV" / "Gen" / name).write_text(content)
        print("baseline", name, len(content))
    from harness import core
    (Path(__file__).resolve().parent / "baseline" / "SOURCE.sha256").write_text(core.source_fingerprint() + "\n")
    print("baseline SOURCE.sha256", core.source_fingerprint()[:16])
