"""Gen/ModuleProtocol.lean: the default-module caching protocol and the writes to shared objects on the render path.
READ from environment.py (Python ast, no regex).

  * the body of Template._get_default_module_async, statement by statement (ast.unparse, docstring dropped)
  * whether an `await` stands between the assignment of `self._module` and `return self._module`
  * attributes of `self` assigned in methods of Template (Template objects are shared by concurrent renders)
  * attributes of `self` assigned (or subscript-assigned) in the Environment methods a render can reach
  * for Macro, Context, TemplateModule, TemplateExpression (objects reachable from a cached module, shared by all renders):
    every assignment to / in-place mutation of an attribute of self outside __init__
  * render_async / generate_async create their Context from the call's arguments (`self.new_context(dict(*args, **kwargs))`)
"""
from __future__ import annotations

import ast

from .common import HEADER, Untranslatable, find_class, llist, lstr, parse

RENDER_PATH = ["get_template", "select_template", "get_or_select_template", "_load_template", "join_path", "getitem", "getattr",
               "call_filter", "call_test", "_filter_test_common", "handle_exception", "make_globals", "iter_extensions",
               "_generate", "_compile", "compile", "_parse", "parse", "_tokenize", "preprocess", "lex"]


def method(cls, name):
    for n in cls.body:
        if isinstance(n, (ast.FunctionDef, ast.AsyncFunctionDef)) and n.name == name:
            return n
    raise Untranslatable(f"{cls.name}.{name} not found")


def body_lines(fn):
    body = fn.body
    if body and isinstance(body[0], ast.Expr) and isinstance(body[0].value, ast.Constant) and isinstance(body[0].value.value, str):
        body = body[1:]
    out = []
    for st in body:
        out += ast.unparse(st).split("\n")
    return out


def self_writes(fn):
    """attributes X of `self` that are assigned: self.X = …, self.X op= …, self.X[…] = …, del self.X"""
    out = []

    def target(t):
        if isinstance(t, ast.Attribute) and isinstance(t.value, ast.Name) and t.value.id == "self":
            out.append(t.attr)
        elif isinstance(t, ast.Subscript):
            v = t.value
            if isinstance(v, ast.Attribute) and isinstance(v.value, ast.Name) and v.value.id == "self":
                out.append(v.attr + "[]")
        elif isinstance(t, (ast.Tuple, ast.List)):
            for e in t.elts:
                target(e)

    for n in ast.walk(fn):
        if isinstance(n, ast.Assign):
            for t in n.targets:
                target(t)
        elif isinstance(n, (ast.AugAssign, ast.AnnAssign)):
            target(n.target)
        elif isinstance(n, ast.Delete):
            for t in n.targets:
                target(t)
    return sorted(set(out))


MUTATORS = {"append", "extend", "pop", "update", "setdefault", "add", "discard", "remove", "clear", "insert", "popitem",
            "difference_update", "appendleft", "sort", "reverse"}

# classes whose instances are reachable from a cached default module (Template._module) and therefore shared by every
# render on the environment: the module object, its macros, the context the module body was rendered in
SHARED_CLASSES = [("runtime", "Macro"), ("runtime", "Context"), ("environment", "TemplateModule"),
                  ("environment", "TemplateExpression")]


def self_mutations(fn):
    """`self.X.<mutator>(…)` calls: in-place changes of a container held by self"""
    out = []
    for n in ast.walk(fn):
        if isinstance(n, ast.Call) and isinstance(n.func, ast.Attribute) and n.func.attr in MUTATORS:
            v = n.func.value
            if isinstance(v, ast.Attribute) and isinstance(v.value, ast.Name) and v.value.id == "self":
                out.append(f"{v.attr}.{n.func.attr}()")
    return sorted(set(out))


def shared_class_writes():
    """[(class, ["method:attribute", …])] — every assignment to / in-place mutation of an attribute of self in a method
    other than __init__ / __new__"""
    out = []
    for mod, cname in SHARED_CLASSES:
        cls = find_class(parse(mod), cname)
        ws = []
        for m in cls.body:
            if isinstance(m, (ast.FunctionDef, ast.AsyncFunctionDef)) and m.name not in ("__init__", "__new__"):
                for a in self_writes(m) + self_mutations(m):
                    ws.append(f"{m.name}:{a}")
        out.append((cname, ws))
    return out


def gen():
    tree = parse("environment")
    tcls = find_class(tree, "Template")
    ecls = find_class(tree, "Environment")
    gdm = method(tcls, "_get_default_module_async")
    if not isinstance(gdm, ast.AsyncFunctionDef):
        raise Untranslatable("_get_default_module_async is not async")
    lines = body_lines(gdm)
    # an await between `self._module = …` and the `return self._module` that follows it?
    flat = [st for st in ast.walk(gdm) if isinstance(st, ast.stmt)]
    await_between = False
    seen_assign = False
    for st in gdm.body:
        if isinstance(st, ast.If) and any(isinstance(x, ast.Assign) and "_module" in ast.unparse(x.targets[0]) for x in st.body):
            seen_assign = True
            # statements after the assignment inside the if
            idx = max(i for i, x in enumerate(st.body) if isinstance(x, ast.Assign) and "_module" in ast.unparse(x.targets[0]))
            for later in st.body[idx + 1:]:
                if any(isinstance(n, ast.Await) for n in ast.walk(later)):
                    await_between = True
        elif seen_assign and not isinstance(st, ast.Return):
            if any(isinstance(n, ast.Await) for n in ast.walk(st)):
                await_between = True
        elif seen_assign and isinstance(st, ast.Return):
            if any(isinstance(n, ast.Await) for n in ast.walk(st)):
                await_between = True
            break
    del flat
    twrites = []
    for m in tcls.body:
        if isinstance(m, (ast.FunctionDef, ast.AsyncFunctionDef)):
            for a in self_writes(m):
                twrites.append(f"{m.name}:{a}")
    ewrites = []
    for name in RENDER_PATH:
        try:
            m = method(ecls, name)
        except Untranslatable:
            continue
        for a in self_writes(m):
            ewrites.append(f"{name}:{a}")
    fresh_ctx = []
    for name in ("render_async", "generate_async"):
        src = ast.unparse(method(tcls, name))
        fresh_ctx.append("ctx = self.new_context(dict(*args, **kwargs))" in src)
    L = [HEADER, "namespace JinjaV.Gen.ModuleProtocol\n",
         "-- READ: body of Template._get_default_module_async (environment.py), one unparsed line per entry",
         "def getDefaultModuleAsync : List String := " + llist("\n  " + lstr(x) for x in lines) + "\n",
         "-- READ: is there an await between `self._module = …` and `return self._module`",
         f"def awaitBetweenAssignAndReturn : Bool := {'true' if await_between else 'false'}\n",
         "-- READ: `method:attribute` for every assignment to an attribute of self in a method of Template",
         f"def templateSelfWrites : List String := {llist(map(lstr, twrites))}\n",
         "-- READ: `method:attribute` for every assignment to an attribute of self in the Environment methods a render can reach",
         f"def environmentRenderPathSelfWrites : List String := {llist(map(lstr, ewrites))}\n",
         "-- READ: `method:attribute` for every assignment to / in-place mutation of an attribute of self outside __init__ in the",
         "-- classes whose instances hang off a cached default module and are therefore shared by all renders on the environment",
         "def sharedObjectSelfWrites : List (String × List String) := " + llist(
             f"\n  ({lstr(c)}, {llist(map(lstr, ws))})" for c, ws in shared_class_writes()) + "\n",
         "-- READ: render_async and generate_async build their Context from the call's own arguments",
         f"def rendersCreateFreshContext : Bool := {'true' if all(fresh_ctx) else 'false'}\n",
         "end JinjaV.Gen.ModuleProtocol\n"]
    return "ModuleProtocol.lean", "\n".join(L)
